"""C02 — schema-valid child sequences are accepted and kept in document order."""
from props import matcher_common as mc

NAMESPACE = 'C02'
LEAN_TARGETS = ['MxV.Props.C02', 'MxV.Props.Slotted', 'MxV.Tables.D_witnesses_C02']
THEOREMS = ['C02_tame', 'C02_schema', 'Slotted.C02_slotted', 'fails_on_wild_models']
TRUSTED_BASE = ['Lean 4.33.0 kernel', 'axioms: propext, Quot.sound, Classical.choice only (audited per theorem)',
                'translator extract/*.py (templates regenerated every run)',
                'correspondence harness (real library vs Mfull on all 94 types, vs Msimple on the 68 Tame types)']
ASSUMPTIONS = ['theorems are about Msimple (68 Tame types) and Mslot (78 Slotted types, a superset); the tie to the code is the correspondence run of this check', 'the remaining 16 content models (choices below repeated particles, repeated leaf names): no theorem; behaviour pinned by the Mfull correspondence and the open findings']
KINDS = ['word', 'word', 'worddup', 'worddel', 'word', 'addonly', 'perm', 'word']


def _oracle(d):
    at = d.get('at', '')
    if at.startswith(('tostr', 'add', 'rm', 'repl', 'dotx', 'obs')):
        return 'acceptance / document order of children (C02) at %s: library %s, model %s' % (at, d.get('real'), d.get('model'))
    return None


def run(ctx):
    from props import combined
    return combined.run_both(ctx, 'C02', KINDS, {'depths': [0, 1, 2, 3], 'mixed': 0.25, 'copy': 0.1, 'dots': True}, _oracle)


def replay(ctx, payload):
    return run(ctx)
