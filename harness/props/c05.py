"""C05 — value validation matches the XSD simple types; emitted text is lexically valid."""
from props import element_common as ec

NAMESPACE = 'C05'
LEAN_TARGETS = ['MxV.Props.C05', 'MxV.Props.C05x', 'MxV.Model.CollapseTheory', 'MxV.Tables.D_patterns']
THEOREMS = ['enum_accepts_iff', 'enum_rejects_other', 'range_exact', 'minExclusive_exact', 'minInclusive_exact', 'bool_passes_integer', 'exponent_float_passes_decimal', 'nan_passes_decimal', 'patterns_agree', 'pattern_language_is_schema', 'validator_pattern_is_schema',
            'every_pattern_has_schema', 'every_schema_pattern_is_enforced', 'pattern_count',
            'token_pattern_accepts_iff', 'plain_pattern_accepts_iff', 'date_accepts_iff', 'xsDate_accepts_iff_w3c', 'union_accepts_iff_member', 'isPlainUnion_sound', 'union_types_exist', 'int_render_is_lexical', 'integerLexical_matches', 'int_renders_in_xs_integer', 'intLexS_is_the_schema_expression', 'token_pattern_rejects_nonstring',
            'token_pattern_type_accepts_iff_schema', 'plain_pattern_type_accepts_iff_schema', 'xsDate_is_plain_pattern',
            'isTokenPattern_sound', 'token_pattern_types_exist', 'Values.cleanedTokenL_eq_collapse', 'Values.collapseX_idem']
TRUSTED_BASE = ['Lean 4.33.0 kernel', 'axioms: propext, Quot.sound, Classical.choice only (audited per theorem)',
                'translator extract/*.py (attribute / validator / template tables regenerated every run)',
                'correspondence harness: real XMLElement trees vs the Lean models Element, Values, Serialize, Parser, Mfull through mxdriver',
                'CPython built-ins modelled or supplied, not verified: str(float) (repr text supplied), float()/int() parsing (oracle), re, xml.etree']
ASSUMPTIONS = ['theorems are about the hand-written Lean models; the tie to the code is the correspondence run of this check', 'outside the model envelope (answers `unmodelled`/`reserved`): the 7 element types whose attribute table the library cannot build (F9) and Python-reserved dot names']
OPTS = {'depths': [0, 1], 'mixed': 0.0, 'copy': 0.0, 'dots': False}


def oracle(d):
    at = d.get('at', '')
    if at == 'val' or at.startswith('setval') or at.startswith('newe') or at.startswith('elemval'):
        return 'value %s of type/class %s: the library answers %s where the table-driven model answers %s' % (
            d.get('value', d.get('at')), d.get('type', d.get('class', d.get('class_of_root'))), d.get('real'), d.get('model'))
    return None


def pattern_search(ctx):
    """the pattern theorems no longer check: ask the model for a word on which the library's expression and the
    schema's differ, and replay it on the real type"""
    import lib, values
    out = []
    drv = lib.Driver()
    try:
        rows = [r for r in drv.ask('patdiff').split(';') if r]
    finally:
        drv.close()
    import json, os
    names = json.load(open(os.path.join(os.path.dirname(os.path.abspath(lib.__file__)), '..', 'build', 'strs.json')))['strs']
    for row in rows:
        k, w, mi, ms = row.split(':')
        cls_name = names[int(k)][2:]
        if w in ('-', '!', '?'):
            out.append({'replay': {'property': 'C05', 'kind': 'proof-obligation-broken', 'type': cls_name,
                                   'what': {'-': 'the library matches a pattern for this type but the schema has none in force',
                                            '!': 'the schema has a pattern in force for this type but the library matches none',
                                            '?': 'equivalence not established within the exploration bound'}[w],
                                   'no_failing_input_found': True}, 'suffix': ' no-failing-input-found'})
            continue
        text = ''.join(chr(int(c)) for c in w.split(',') if c)
        cls = values.SIMPLE.get(cls_name)
        real = values.real_validate(cls, text) if cls else 'n/a'
        schema_ok = ms == 'true'
        real_ok = real.startswith('ok')
        payload = {'property': 'C05', 'type': cls_name, 'input': text, 'input_codepoints': w,
                   'library': real, 'library_expression_matches': mi, 'schema_pattern_matches': ms,
                   'theorem': 'C05.patterns_agree / C05.pattern_language_is_schema'}
        if real_ok != schema_ok:
            payload.update({'kind': 'property-violated-on-real-code',
                            'what_fails': '%s(%r) is %s by the library but %s by the schema pattern in force for the type' % (
                                cls_name, text, 'accepted' if real_ok else 'rejected', 'accepted' if schema_ok else 'rejected')})
            out.append({'replay': payload})
        else:
            payload.update({'kind': 'proof-obligation-broken', 'no_failing_input_found': True,
                            'note': 'the two expressions differ on this word, but another check of the type decides it the same way'})
            out.append({'replay': payload, 'suffix': ' no-failing-input-found'})
    return out


def run(ctx):
    res = ec.generic(ctx, 'C05', OPTS, n_quick=(32, 60), n_thorough=(96, 300), with_values=True, with_parse=False, oracle=oracle)
    ax = ctx.axioms.get('C05.patterns_agree')
    if ax is None or not set(ax) <= {'propext', 'Quot.sound', 'Classical.choice'}:
        try:
            found = pattern_search(ctx)
        except Exception as e:
            found = []
            res.setdefault('coverage', {})['pattern_search_error'] = repr(e)
        res['violations'] = list(res.get('violations', [])) + found[:6]
    od = getattr(ctx, 'order_diff', None)
    if od and od.get('table') == 'simple_types':
        res['violations'] = list(res.get('violations', [])) + [{'replay': {
            'property': 'C05', 'kind': 'property-violated-on-real-code',
            'what_fails': 'the definition of simple type %s (enumeration / pattern / facets as the library uses them) depends on which type was used first in the process' % od['type'],
            'order_dependence': od}}]
    return res


def replay(ctx, payload):
    return run(ctx)
