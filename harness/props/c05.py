"""C05 — value validation matches the XSD simple types; emitted text is lexically valid."""
from props import element_common as ec

NAMESPACE = 'C05'
LEAN_TARGETS = ['MxV.Props.C05']
THEOREMS = ['enum_accepts_iff', 'enum_rejects_other', 'range_exact', 'minExclusive_exact', 'minInclusive_exact', 'bool_passes_integer', 'exponent_float_passes_decimal', 'nan_passes_decimal']
TRUSTED_BASE = ['Lean 4.33.0 kernel', 'axioms: propext, Quot.sound, Classical.choice only (audited per theorem)',
                'translator extract/*.py (attribute / validator / template tables regenerated every run)',
                'correspondence harness: real XMLElement trees vs the Lean models Element, Values, Serialize, Parser, Mfull through mxdriver',
                'CPython built-ins modelled or supplied, not verified: str(float) (repr text supplied), float()/int() parsing (oracle), re, xml.etree']
ASSUMPTIONS = ['theorems are about the hand-written Lean models; the tie to the code is the correspondence run of this check', 'outside the model envelope (answers `unmodelled`/`reserved`): the 7 element types whose attribute table the library cannot build (F9) and Python-reserved dot names']
OPTS = {'depths': [0, 1], 'mixed': 0.0, 'copy': 0.0, 'dots': False}


def oracle(d):
    at = d.get('at', '')
    if at == 'val' or at.startswith('setval') or at.startswith('newe') or at.startswith('elemval'):
        return 'value %s of type/class %s: the library answers %s where the table-driven model answers %s' % (
            d.get('value', d.get('at')), d.get('type', d.get('class', d.get('class_of_root'))), d.get('real'), d.get('model'))
    return None


def run(ctx):
    return ec.generic(ctx, 'C05', OPTS, n_quick=(32, 60), n_thorough=(96, 300), with_values=True, with_parse=False, oracle=oracle)


def replay(ctx, payload):
    return run(ctx)
