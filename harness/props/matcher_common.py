"""Shared machinery of the matcher-related checks (C01 C02 C06 C07 C10 C11 C12 C19 ...):
parallel correspondence run (real library vs Mfull vs Msimple), shrinking, property oracles used to
classify a disagreement, known-finding replays."""
import os, sys, json, random, time, itertools, multiprocessing as mp, collections


# ----------------------------------------------------------------------------- workers
_W = {}


def _init_worker():
    import matcher
    _W['m'] = matcher
    _W['drv'] = matcher.Driver()


def _run_case(case):
    m = _W['m']
    tkey, hist, chk = case['tkey'], case['hist'], case.get('chk', True)
    try:
        st, d = m.compare_case(_W['drv'], tkey, hist, chk, probe=case.get('probe', True))
    except Exception as e:  # harness error: report, never a violation by itself
        import traceback
        return {'case': case, 'status': 'harness-error', 'detail': traceback.format_exc()[-1500:]}
    out = {'case': case, 'status': st}
    if st == 'agree':
        ml, rl, inst, simple_live = d
        out['simple'] = bool(simple_live)
        out['nlines'] = len(rl)
        out['internal'] = [l for l in rl if 'internal:' in l][:3]
        out['printed'] = bool(inst.printed)
        out['final'] = rl[-2] if case.get('probe', True) else rl[-1]
    else:
        k, opk, mline, rline = d[:4]
        out['detail'] = {'line': k, 'op': opk, 'model': mline, 'real': rline}
    return out


def run_cases(cases, nproc=None, timeout=1500):
    nproc = nproc or min(16, os.cpu_count() or 4)
    t0 = time.time()
    with mp.Pool(nproc, initializer=_init_worker) as pool:
        res = pool.map_async(_run_case, cases, chunksize=max(1, len(cases) // (nproc * 8) or 1)).get(timeout)
    return res, time.time() - t0


# ----------------------------------------------------------------------------- case generation
def gen_cases(seed, n_per_type, kinds, types=None, salt=''):
    import matcher, lib
    rnd = random.Random('%s/%s' % (seed, salt))
    cases = []
    for tkey in (types or sorted(lib.TREE)):
        ls = lib.leaves_of(lib.TREE[tkey])
        repeated = len(set(ls)) != len(ls)
        # the histories that matter live on the content models outside the proven class: weight them
        mult = 30 if repeated else 6 if lib.CLASS_OF_TYPE[tkey] == 'wild' else 1
        for i in range(n_per_type * mult):
            kind = kinds[i % len(kinds)] if i < len(kinds) else rnd.choice(kinds)
            if mult > 1 and i >= len(kinds) and rnd.random() < (0.55 if repeated else 0.15):
                kind = 'dupfwd'
            cases.append({'tkey': tkey, 'hist': matcher.gen_history(rnd, tkey, kind), 'kind': kind})
    return cases


def corpus_cases(maxlen_small=2, cap=400, types=None):
    """deterministic, seed-independent: all add-histories up to a length bound per alphabet size, plus
    add/remove-one variants"""
    import lib
    cases = []
    for tkey in (types or sorted(lib.TREE)):
        a = lib.ALPHA[tkey]
        L = maxlen_small if len(a) > 8 else maxlen_small + 1
        n = 0
        for l in range(0, L + 1):
            for w in itertools.product(a, repeat=l):
                hist = [('add', i + 1, x) for i, x in enumerate(w)]
                cases.append({'tkey': tkey, 'hist': hist, 'kind': 'enum'})
                n += 1
                if l >= 1 and n % 3 == 0:
                    cases.append({'tkey': tkey, 'hist': hist + [('rm', 1)], 'kind': 'enum-rm'})
                if n >= cap:
                    break
            if n >= cap:
                break
    return cases


def load_corpus_file():
    import lib
    p = os.path.join(lib.VERIF, 'corpus', 'matcher.jsonl')
    out = []
    if os.path.exists(p):
        for l in open(p):
            l = l.strip()
            if l:
                c = json.loads(l)
                c['hist'] = [tuple(x) for x in c['hist']]
                out.append(c)
    return out


# ----------------------------------------------------------------------------- shrinking
def shrink(case, still_bad, budget=150):
    hist = list(case['hist'])
    changed = True
    while changed and budget > 0:
        changed = False
        for i in range(len(hist) - 1, -1, -1):
            cand = hist[:i] + hist[i + 1:]
            budget -= 1
            if budget <= 0:
                break
            if still_bad(dict(case, hist=cand)):
                hist = cand
                changed = True
                break
    return dict(case, hist=hist)


def shrink_disagreement(case):
    import matcher
    drv = matcher.Driver()
    def bad(c):
        try:
            st, _ = matcher.compare_case(drv, c['tkey'], c['hist'], c.get('chk', True), probe=True)
        except Exception:
            return False
        return st != 'agree'
    try:
        out = shrink(case, bad)
        st, d = matcher.compare_case(drv, out['tkey'], out['hist'], out.get('chk', True), probe=True)
        det = {'line': d[0], 'op': d[1], 'model': d[2], 'real': d[3]} if st != 'agree' else None
    finally:
        drv.close()
    return out, det


# ----------------------------------------------------------------------------- property oracles (real code)
def names_of(inst, ids):
    allk = dict(inst.gone); allk.update(getattr(inst, 'failed', {})); allk.update(inst.kids)
    return [allk[int(i)].name for i in ids if i not in ('', '?')]


def parse_obs(line):
    d = {}
    for part in line.split(' '):
        k, _, v = part.partition('=')
        d[k] = v
    return d


def oracle_eval(prop, tkey, hist, drv=None):
    """Evaluate property `prop` on the REAL library for the history. Returns None when the property
    holds on this input, else a short description of what fails. (Used to classify a broken
    correspondence and to replay known findings; never for random hunting on the clean tree.)"""
    import lib, matcher
    own = drv is None
    drv = drv or lib.Driver()
    try:
        inst = lib.RealInst(tkey, True)
        ledger = []
        for op in hist:
            before = inst.obs() if prop == 'C10' else None
            r = lib.apply_real(inst, op)
            if r.startswith('err:internal') and prop == 'C19':
                return 'internal error %s from %s' % (r, op)
            if inst.printed and prop == 'C19':
                return 'library wrote to stdout/stderr: %r' % inst.printed[:80]
            if op[0] == 'add' and r == 'ok':
                ledger.append(op[1])
            if op[0] == 'rm' and r == 'ok':
                ledger.remove(op[1])
            if op[0] == 'repl' and r == 'ok':
                ledger[ledger.index(op[1])] = op[2]
            if prop == 'C10' and r != 'ok' and op[0] in ('add', 'rm', 'repl'):
                after = inst.obs()
                if after != before:
                    return 'failed %s changed the observable state: %s -> %s' % (op, before, after)
            o = parse_obs(inst.obs())
            if prop == 'C06':
                if 'o' in o and 'u' in o:
                    oi = [x for x in o['o'].split(',') if x]
                    ui = [x for x in o['u'].split(',') if x]
                    if sorted(oi) != sorted(ui):
                        return 'ordered view %s is not a permutation of insertion view %s after %s' % (oi, ui, op)
                    if ui != [str(x) for x in ledger]:
                        return 'insertion view %s != ledger %s after %s' % (ui, ledger, op)
                bad = inst.parents_ok()
                if bad:
                    return 'wrong parent pointers for children %s after %s' % (bad, op)
            if prop == 'C01' and o.get('r', 'x') == '' and 'o' in o:
                w = names_of(inst, [x for x in o['o'].split(',') if x])
                if not lib.word_accepts(drv, tkey, w):
                    return 'final check passes but child sequence %s is not in the content model (after %s)' % (w, op)
        if prop == 'C02':
            w = [op[2] for op in hist if op[0] == 'add']
            if all(op[0] == 'add' and len(op) == 3 for op in hist) and lib.word_accepts(drv, tkey, w):
                inst2, res = lib.replay_real(tkey, hist)
                if any(r != 'ok' for r in res):
                    return 'schema-valid word %s supplied in order: %s' % (w, res)
                o = parse_obs(inst2.obs())
                if o.get('r') != '':
                    return 'schema-valid word %s fails the final check: r=%s' % (w, o.get('r'))
                if names_of(inst2, [x for x in o['o'].split(',') if x]) != w:
                    return 'schema-valid word %s serialised in another order: %s' % (w, o['o'])
        if prop == 'C12':
            w = [op[2] for op in hist if op[0] == 'add']
            if all(op[0] == 'add' and len(op) == 3 for op in hist) and 0 < len(w) <= 7:
                arr = unique_arrangement(drv, tkey, w)
                if arr is not None:
                    inst2, res = lib.replay_real(tkey, hist)
                    if any(r != 'ok' for r in res):
                        return 'children %s have the single valid arrangement %s but adding in this order gives %s' % (w, arr, res)
                    o = parse_obs(inst2.obs())
                    got = names_of(inst2, [x for x in o.get('o', '').split(',') if x])
                    if got != arr or o.get('r') != '':
                        return 'children %s: expected arrangement %s, got %s (r=%s)' % (w, arr, got, o.get('r'))
        if prop == 'C11' and any(op[0] == 'rm' for op in hist):
            surv = [op for op in hist if op[0] == 'add' and op[1] in inst.kids]
            if all(op[0] in ('add', 'rm') for op in hist):
                t1 = obs_names(inst)
                twin, res = lib.replay_real(tkey, surv)
                if all(r == 'ok' for r in res):
                    t2 = obs_names(twin)
                    if t1 != t2:
                        return 'after removals %s != rebuilt twin %s' % (t1, t2)
                    p1 = lib.real_probe(tkey, hist); p2 = lib.real_probe(tkey, surv)
                    if p1 != p2:
                        return 'after removals next-child acceptance differs from the rebuilt twin'
        if prop == 'C10':
            failed = [i for i, op in enumerate(hist) if op[0] in ('add', 'rm', 'repl')]
            inst2, res = lib.replay_real(tkey, hist)
            bad_idx = [i for i, r in enumerate(res) if r != 'ok' and hist[i][0] in ('add', 'rm', 'repl')]
            if bad_idx:
                clean = [op for i, op in enumerate(hist) if i not in bad_idx]
                twin, res2 = lib.replay_real(tkey, clean)
                if all(r == 'ok' or hist_op[0] in ('check', 'obs') for r, hist_op in zip(res2, clean)):
                    if obs_ids(inst2) != obs_ids(twin):
                        return 'history with failed calls %s ends in %s, without them in %s' % (
                            [hist[i] for i in bad_idx], obs_ids(inst2), obs_ids(twin))
                    if lib.real_probe(tkey, hist) != lib.real_probe(tkey, clean):
                        return 'failed calls %s change the acceptance of a next child' % ([hist[i] for i in bad_idx],)
        if prop == 'C07' and all(op[0] == 'add' for op in hist):
            inst2, res = lib.replay_real(tkey, hist)
            if res and all(r == 'ok' for r in res):
                if not completable(tkey, hist, 3):
                    return 'all of %s accepted but no extension by <=3 children passes the final check' % (
                        [op[2] for op in hist],)
        return None
    finally:
        if own:
            drv.close()


def obs_names(inst):
    o = parse_obs(inst.obs())
    return (names_of(inst, [x for x in o.get('o', '').split(',') if x]), o.get('r'))


def obs_ids(inst):
    o = parse_obs(inst.obs())
    return (o.get('o'), o.get('u'), o.get('r'))


def unique_arrangement(drv, tkey, w):
    """the single schema-valid arrangement of the multiset w (up to same-name exchange), or None"""
    import lib
    seen = set()
    found = []
    for p in itertools.permutations(w):
        if p in seen:
            continue
        seen.add(p)
        if lib.word_accepts(drv, tkey, list(p)):
            found.append(list(p))
            if len(found) > 1:
                return None
    return found[0] if len(found) == 1 else None


def completable(tkey, hist, depth):
    import lib
    a = lib.ALPHA[tkey]
    frontier = [list(hist)]
    for d in range(depth + 1):
        nxt = []
        for h in frontier:
            inst, res = lib.replay_real(tkey, h)
            if res and res[-1] != 'ok' and len(h) > len(hist):
                continue
            if parse_obs(inst.obs()).get('r') == '':
                return True
            if d < depth:
                for n in a:
                    nxt.append(h + [('add', 900 + len(h), n)])
        frontier = nxt[:4000]
    return False


def model_holds(prop, tkey, hist):
    """the same oracle evaluated on the pinned behaviour = the Lean model, through a 'model-backed'
    instance; implemented by replaying on the model and reading its observation lines"""
    return None


# ----------------------------------------------------------------------------- the generic check
def generic_run(ctx, prop, kinds, n_quick, n_thorough, extra_cases=None, types=None):
    import lib, findings
    t0 = time.time()
    tier = ctx.tier
    n = n_quick if tier == 'quick' else n_thorough
    cases = load_corpus_file()
    cases += corpus_cases(1 if tier == 'quick' else 2, cap=300 if tier == 'quick' else 1500, types=types)
    cases += gen_cases(ctx.seed, n, kinds, types=types, salt=prop)
    if extra_cases:
        cases += extra_cases
    res, wall = run_cases(cases)
    stats = collections.Counter(r['status'] for r in res)
    kinds_c = collections.Counter(r['case'].get('kind') for r in res)
    harness_err = [r for r in res if r['status'] == 'harness-error']
    if harness_err and len(harness_err) > len(res) // 20:
        raise RuntimeError('harness errors: ' + harness_err[0]['detail'])
    dis = [r for r in res if r['status'].startswith('disagree')]
    violations = []
    n_simple = sum(1 for r in res if r.get('simple'))
    distinct = len({(r['case']['tkey'], json.dumps(r['case']['hist'])) for r in res if len(r['case']['hist']) >= 2})
    if dis:
        # group by type, shrink the first of each group, classify with the property's oracle
        seen = set()
        for r in dis:
            key = (r['case']['tkey'], r['status'])
            if key in seen or len(seen) >= 6:
                continue
            seen.add(key)
            small, det = shrink_disagreement(r['case'])
            drv = lib.Driver()
            try:
                verdict = None
                cand_hists = [small['hist'], r['case']['hist']]
                for h in cand_hists:
                    for cut in range(len(h), 0, -1):
                        verdict = oracle_eval(prop, small['tkey'], h[:cut], drv)
                        if verdict:
                            cand = h[:cut]; break
                    if verdict:
                        break
                if not verdict:
                    # bounded extensions of the shrunk history: one (then two) more children of every symbol
                    a = lib.ALPHA[small['tkey']]
                    base = small['hist']
                    ext1 = [base + [('add', 7001, n)] for n in a]
                    ext2 = [base + [('add', 7001, n), ('add', 7002, m)] for n in a for m in a] if len(a) <= 10 else []
                    for h in (ext1 + ext2)[:160]:
                        verdict = oracle_eval(prop, small['tkey'], h, drv)
                        if verdict:
                            cand = h; break
            finally:
                drv.close()
            payload = {'property': prop, 'kind': 'correspondence-broken', 'type': small['tkey'],
                       'model': 'Mfull' if r['status'] == 'disagree-full' else 'Msimple',
                       'history': small['hist'], 'first_difference': det or r.get('detail'),
                       'original_history': r['case']['hist']}
            if verdict:
                payload.update({'kind': 'property-violated-on-real-code', 'failing_history': cand, 'what_fails': verdict})
                violations.append({'replay': payload})
            else:
                payload['no_failing_input_found'] = True
                payload['note'] = ('the real library no longer behaves like the model the theorems are about; the oracle of '
                                   '%s did not fail on the disagreeing history or its prefixes' % prop)
                violations.append({'replay': payload, 'suffix': ' no-failing-input-found'})
    # known findings: replay each listed witness on the real code
    known = []
    drv = lib.Driver()
    try:
        for f in findings.open_findings(prop):
            rp = f.get('replay', {})
            if rp.get('kind') != 'history':
                continue
            still = None
            for w in rp['witnesses']:
                still = oracle_eval(prop, rp['type'], [tuple(x) for x in w], drv)
                if still:
                    break
            if still:
                known.append('%s %s [%s]' % (f['id'], f['what'], f['site']))
    finally:
        drv.close()
    samples = [{'type': r['case']['tkey'], 'kind': r['case'].get('kind'), 'history': r['case']['hist'][:8],
                'final_observation': r.get('final')} for r in res[::max(1, len(res) // 8)]][:8]
    return {'violations': violations, 'known': known, 'evaluations': len(res), 'distinct_nontrivial': distinct,
            'traces': len(res), 'disagreements': len(dis),
            'rule': 'operation histories on every element-content type (deterministic corpus: all add-histories up to a '
                    'length bound, + add/remove variants; then seeded histories of kinds %s); each history is executed on '
                    'the real library and on the Lean models Mfull (all 94 types) and Msimple (68 Tame types) with an '
                    'observation after every operation and a one-more-child probe at the end; distinct = distinct '
                    '(type, history) pairs of length >= 2' % (kinds,),
            'samples': samples,
            'coverage': {'status_counts': dict(stats), 'kind_counts': dict(kinds_c), 'types': len({r['case']['tkey'] for r in res}),
                         'cases_also_compared_with_Msimple': n_simple, 'correspondence_wall_s': round(wall, 1),
                         'lines_compared': sum(r.get('nlines', 0) for r in res),
                         'internal_errors_seen_in_agreeing_cases': sum(1 for r in res if r.get('internal')),
                         'harness_errors': len(harness_err)},
            'search_note': 'disagreeing histories are shrunk and the property oracle is evaluated on the real code over '
                           'every prefix of the shrunk and the original history'}
