"""C16 — serialisation is well-formed, escaping-safe, deterministic and side-effect free."""
from props import element_common as ec

NAMESPACE = 'C16'
LEAN_TARGETS = ['MxV.Props.C16']
THEOREMS = ['escape_text_rt', 'escape_attr_rt', 'escaped_text_has_no_markup', 'escaped_attr_has_no_quote', 'render_shift', 'subtree_alone_eq_in_parent',
            'to_string_decodes', 'to_string_injective', 'canonical_tree_recovered',
            'escape_text_injective', 'escape_attr_injective', 'escape_text_append', 'escape_attr_append']
TRUSTED_BASE = ['Lean 4.33.0 kernel', 'axioms: propext, Quot.sound, Classical.choice only (audited per theorem)',
                'translator extract/*.py (attribute / validator / template tables regenerated every run)',
                'correspondence harness: real XMLElement trees vs the Lean models Element, Values, Serialize, Parser, Mfull through mxdriver',
                'CPython built-ins modelled or supplied, not verified: str(float) (repr text supplied), float()/int() parsing (oracle), re, xml.etree']
ASSUMPTIONS = ['theorems are about the hand-written Lean models; the tie to the code is the correspondence run of this check', 'outside the model envelope (answers `unmodelled`/`reserved`): the 7 element types whose attribute table the library cannot build (F9) and Python-reserved dot names']
OPTS = {'depths': [0, 1, 2, 3], 'mixed': 0.1, 'copy': 0.2, 'dots': False}


def oracle(d):
    at = d.get('at', '')
    if at.startswith('tostr'):
        return 'to_string(): library output %s differs from the model %s' % (d.get('real', '')[:80], d.get('model', '')[:80])
    return None


def run(ctx):
    return ec.generic(ctx, 'C16', OPTS, n_quick=(48, 100), n_thorough=(128, 400), with_values=False, with_parse=False, oracle=oracle)


def replay(ctx, payload):
    return run(ctx)
