"""C17 — write() is all-or-nothing and file I/O does not depend on the process locale."""
import os, json

NAMESPACE = 'C17'
LEAN_TARGETS = ['MxV.Props.C17']
THEOREMS = ['write_validates_first', 'write_atomic', 'write_has_expected_shape', 'write_content', 'open_sites_locale_free',
            'io_locale_independent', 'write_independent_of_old', 'write_idempotent', 'failed_write_keeps_previous']
TRUSTED_BASE = ['Lean 4.33.0 kernel', 'axioms: propext, Quot.sound only',
                'extract/shapes.py (AST -> effect list of XMLScorePartwise.write and every open()/read_text/write_text site of the runtime modules)',
                'the OS file API and CPython io layer (open(..., "w") truncates; text layer encodes with the given encoding)',
                'fault-injection harness + subprocess locale matrix']
ASSUMPTIONS = ['partial writes caused by the OS after the document text exists (disk full, signals) are outside the statement',
               'only the locales installed in the sandbox can be exercised dynamically (C / POSIX = ASCII, C.UTF-8); other default '
               'encodings are covered by the static theorem open_sites_locale_free']


def run(ctx):
    import io_checks, lib
    violations = []
    n_trees = 12 if ctx.tier == "quick" else 80
    stats, viol = io_checks.fault_injection(ctx.seed, n_trees)
    for v in viol[:3]:
        if v.get('kind') == 'harness':
            continue
        violations.append({'replay': dict(v, property='C17')})
    results, lviol = io_checks.locale_matrix(thorough=(ctx.tier == 'thorough'))
    for v in lviol[:3]:
        violations.append({'replay': dict(v, property='C17')})
    shapes = json.load(open(os.path.join(lib.BUILD, 'shapes.json')))
    # a broken shape theorem without a dynamic failure: report which site / effect is not recognised
    if not ctx.build_ok and not violations:
        bad_sites = [s for s in shapes['open_sites'] if 'b' not in s['mode'] and s['encoding'] != 'utf-8']
        violations.append({'replay': {'property': 'C17', 'kind': 'shape-theorem-broken', 'write_prog': shapes['write_prog'],
                                      'open_sites_consulting_the_locale': bad_sites, 'no_failing_input_found': True},
                           'suffix': ' no-failing-input-found'})
    ev = stats['writes_failed_as_expected'] + stats['writes_ok'] + len(results)
    return {'violations': violations, 'known': [], 'evaluations': ev, 'distinct_nontrivial': stats['nodes_broken'] + stats['trees'],
            'traces': ev, 'disagreements': len(viol) + len(lviol),
            'rule': 'generated score-partwise trees (non-ASCII text); success path on 3 prior states of the destination; failure path: '
                    'every node of the tree is made to fail its final check in turn (required attribute / required child / value) and '
                    'write() is run on a missing and on a pre-filled destination, bytes compared; locale matrix: the whole '
                    'import-write-parse cycle in subprocesses under different locale / UTF-8-mode settings, hashes compared',
            'samples': [shapes['write_prog'], shapes['open_sites'][:3], results[1] if len(results) > 1 else results[:1]],
            'coverage': dict(stats, locale_configs=len(results), locale_results=[{k: r.get(k) for k in ('enc', 'status', 'config')} for r in results][:8],
                             extracted_write_prog=shapes['write_prog'], open_sites=shapes['open_sites'])}


def replay(ctx, payload):
    return run(ctx)
