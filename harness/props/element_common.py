"""Shared runner of the whole-element checks (C04 C05 C08 C09 C13 C14 C15 C16 C18 C19): parallel
correspondence of generated element trees (real library vs Lean models), plus the values and
parser engines where a property needs them."""
import os, sys, json, time, random, collections, multiprocessing as mp, tempfile

_W = {}


def _init():
    import elements, values, parsing
    _W['e'] = elements; _W['v'] = values; _W['p'] = parsing
    _W['drv'] = elements.Driver()


def _doc_batch(args):
    seed, n, opts = args
    E = _W['e']
    rnd = random.Random('doc/%s' % seed)
    big = [c for c in E.ALL if c.TYPE.__name__ in E.containers]
    out = {'lines': 0, 'docs': 0, 'unmodelled': 0, 'dis': [], 'kinds': collections.Counter(), 'samples': [],
           'internal': [], 'printed': 0}
    for k in range(n):
        try:
            w = E.doc_case(_W['drv'], rnd, cls=rnd.choice(E.HARD if rnd.random() < opts.get('hard', 0.125) else big if k % 4 else E.ALL), depth=rnd.choice(opts.get('depths', [0, 1, 2])),
                           mixed_chk=rnd.random() < opts.get('mixed', 0.25), copy=rnd.random() < opts.get('copy', 0.3),
                           dots=opts.get('dots', True), roots=rnd.choice(opts.get('roots', [1])),
                           reuse=rnd.random() < opts.get('reuse', 0.35), sandwich=rnd.random() < opts.get('sandwich', 0.1), scratch=rnd.random() < opts.get('scratch', 0.1), twins=rnd.random() < opts.get('twins', 0.15))
        except Exception:
            import traceback
            out['dis'].append({'harness_error': traceback.format_exc()[-1200:]})
            continue
        out['docs'] += 1
        out['lines'] += len(w.lines)
        out['unmodelled'] += w.unmodelled()
        if w.printed:
            out['printed'] += 1
        for (l, m, r) in w.lines:
            out['kinds'][l.split(' ')[0] + ':' + (r.split(':')[0] + (':' + r.split(':')[1] if r.startswith('err') else ''))] += 1
            if 'internal' in r and len(out['internal']) < 5:
                out['internal'].append((l[:80], r[:80]))
        d = w.disagreements()
        if d and len(out['dis']) < 5:
            first = d[0]
            idx = [x[0] for x in w.lines].index(first[0]) if first[0] in [x[0] for x in w.lines] else len(w.lines)
            out['dis'].append({'ops': [x[0] for x in w.lines[:idx + 1]], 'at': first[0], 'model': first[1][:400], 'real': first[2][:400],
                               'class_of_root': type(w.objs.get(1)).__name__ if w.objs else None})
        if k == 0 and len(out['samples']) < 2:
            out['samples'].append([x[0][:120] for x in w.lines[:8]])
    out['kinds'] = dict(out['kinds'])
    return out


def _values_batch(args):
    seed, thorough = args
    n, dis, stats = _W['v'].run(seed, thorough=thorough, drv=_W['drv'])
    return {'n': n, 'dis': dis[:8], 'stats': dict(stats)}


def _parse_batch(args):
    seed, n = args
    with tempfile.TemporaryDirectory() as td:
        stats, dis, viol, samples = _W['p'].run_docs(_W['drv'], seed, n, td)
    return {'stats': dict(stats), 'dis': dis[:5], 'viol': viol[:5], 'samples': samples}


def run_docs(seed, n_batches, per_batch, opts, nproc=None):
    nproc = nproc or min(16, os.cpu_count() or 4)
    with mp.Pool(nproc, initializer=_init) as pool:
        res = pool.map(_doc_batch, [(seed * 1000 + b, per_batch, opts) for b in range(n_batches)], chunksize=1)
    agg = {'lines': 0, 'docs': 0, 'unmodelled': 0, 'dis': [], 'kinds': collections.Counter(), 'samples': [], 'internal': [],
           'printed': 0}
    for r in res:
        for k in ('lines', 'docs', 'unmodelled', 'printed'):
            agg[k] += r[k]
        agg['dis'] += r['dis']
        agg['kinds'].update(r['kinds'])
        agg['samples'] += r['samples'][:1]
        agg['internal'] += r['internal']
    return agg


def run_values(seed, thorough, nproc=None):
    nproc = nproc or 4
    seeds = [seed * 10 + k for k in range(2 if not thorough else 8)]
    with mp.Pool(min(nproc, len(seeds)), initializer=_init) as pool:
        res = pool.map(_values_batch, [(s, thorough) for s in seeds], chunksize=1)
    n = sum(r['n'] for r in res)
    dis = [d for r in res for d in r['dis']]
    stats = collections.Counter()
    for r in res:
        stats.update(r['stats'])
    return n, dis, dict(stats)


def run_parse(seed, n_batches, per_batch, nproc=None):
    nproc = nproc or min(16, os.cpu_count() or 4)
    with mp.Pool(min(nproc, n_batches), initializer=_init) as pool:
        res = pool.map(_parse_batch, [(seed * 100 + b, per_batch) for b in range(n_batches)], chunksize=1)
    stats = collections.Counter()
    dis, viol, samples = [], [], []
    for r in res:
        stats.update(r['stats'])
        dis += r['dis']; viol += r['viol']; samples += r['samples'][:1]
    return dict(stats), dis, viol, samples


def generic(ctx, prop, opts, n_quick=(16, 25), n_thorough=(64, 120), with_values=False, with_parse=False, oracle=None):
    """oracle(dis) -> description or None: property-specific classification of a disagreement"""
    import findings
    nb, per = n_quick if ctx.tier == 'quick' else n_thorough
    per *= 8 if ctx.tier == 'quick' else 12      # documents are cheap (~10^4 operation lines per second and core)
    agg = run_docs(ctx.seed, nb, per, opts)
    violations = []
    harness_errors = [d for d in agg['dis'] if 'harness_error' in d]
    if len(harness_errors) > 3:
        raise RuntimeError(harness_errors[0]['harness_error'])
    dis = [d for d in agg['dis'] if 'harness_error' not in d]
    evaluations = agg['lines']
    extra_cov = {'documents': agg['docs'], 'operation_lines_compared': agg['lines'], 'outside_model_envelope': agg['unmodelled'],
                 'operation_result_kinds': dict(sorted(agg['kinds'].items(), key=lambda x: -x[1])[:40]),
                 'internal_errors_seen': agg['internal'][:5], 'docs_with_library_output_on_stdout': agg['printed']}
    samples = agg['samples'][:3]
    if with_values:
        n, vdis, vstats = run_values(ctx.seed, ctx.tier == 'thorough')
        evaluations += n
        extra_cov['value_cases'] = n
        extra_cov['value_result_kinds'] = vstats
        dis += [dict(d, at='val') for d in vdis]
    if with_parse:
        pstats, pdis, pviol, psamples = run_parse(ctx.seed, 16 if ctx.tier == 'quick' else 48, 80 if ctx.tier == 'quick' else 400)
        evaluations += sum(v for k, v in pstats.items() if k.endswith('agree') or k.endswith('disagree'))
        extra_cov['parser_runs'] = pstats
        dis += [dict(d, at='parse') for d in pdis]
        samples += [s[:200] for s in psamples[:2]]
        extra_cov['roundtrip_oracle_failures_seen'] = len(pviol)
        if pdis:
            for v in pviol[:2]:
                violations.append({'replay': {'property': prop, 'kind': 'property-violated-on-real-code', 'what_fails': v['difference'],
                                              'input_xml': v['xml'], 'reparsed': v['reparsed']}})
    seen = set()
    for d in dis:
        key = (d.get('at', '').split(' ')[0], d.get('model', '')[:30], d.get('real', '')[:30])
        if key in seen or len(seen) >= 5:
            continue
        seen.add(key)
        what = oracle(d) if oracle else None
        payload = {'property': prop, 'kind': 'correspondence-broken', 'disagreement': d}
        if what:
            payload.update({'kind': 'property-violated-on-real-code', 'what_fails': what})
            violations.append({'replay': payload})
        else:
            payload['no_failing_input_found'] = True
            payload['note'] = 'the real library no longer behaves like the model the theorems are about'
            violations.append({'replay': payload, 'suffix': ' no-failing-input-found'})
    known = []
    for f in findings.open_findings(prop):
        rp = f.get('replay', {})
        if rp.get('kind') == 'python':
            try:
                still = _run_py_finding(rp['code'])
            except Exception:
                still = False
            if still:
                known.append('%s %s [%s]' % (f['id'], f['what'], f['site']))
    return {'violations': violations, 'known': known, 'evaluations': evaluations,
            'distinct_nontrivial': agg['docs'] + (extra_cov.get('value_cases', 0) // 3),
            'traces': agg['docs'], 'disagreements': len(dis),
            'rule': 'generated element trees (random class, schema-directed children to depth 0-3, table-directed attributes and '
                    'values (valid, arbitrary, and one edit away from valid), then mutations: attribute set/remove, value set, child removal / '
                    'replacement, explicit forward= indices, xml_ shortcuts, xsd_check switched on a live element, detached or still attached '
                    'instances re-used under another element, to_string (with and without intelligent_choice) of tree and '
                    'subtrees, deepcopy followed by mutations of either side) executed on the real library and on the Lean models; '
                    'every operation result and every serialisation is compared; distinct = documents (each has its own random '
                    'structure) + a third of the value cases',
            'samples': samples or ['(none)'], 'coverage': extra_cov,
            'search_note': 'each disagreeing operation log is handed to the property oracle'}


def _run_py_finding(code):
    """the finding's code defines still_fails() -> bool and runs against the real library"""
    env = {}
    import io, contextlib
    buf = io.StringIO()
    with contextlib.redirect_stdout(buf), contextlib.redirect_stderr(buf):
        exec(code, env)
        return bool(env['still_fails']())
