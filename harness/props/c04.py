"""C04 — the attribute interface of each element is exactly the schema's."""
from props import element_common as ec

NAMESPACE = 'C04'
LEAN_TARGETS = ['MxV.Props.C04']
THEOREMS = ['setAttr_ok_iff', 'setAttr_error_stores_nothing', 'setAttr_none_removes', 'setAttr_stores', 'missingRequired_nil_iff', 'serialised_eq_store', 'normKey_idem',
            'storeGet_set_other', 'storeGet_del_other', 'setAttr_frame', 'setAttr_keys_nodup']
TRUSTED_BASE = ['Lean 4.33.0 kernel', 'axioms: propext, Quot.sound, Classical.choice only (audited per theorem)',
                'translator extract/*.py (attribute / validator / template tables regenerated every run)',
                'correspondence harness: real XMLElement trees vs the Lean models Element, Values, Serialize, Parser, Mfull through mxdriver',
                'CPython built-ins modelled or supplied, not verified: str(float) (repr text supplied), float()/int() parsing (oracle), re, xml.etree']
ASSUMPTIONS = ['theorems are about the hand-written Lean models; the tie to the code is the correspondence run of this check', 'outside the model envelope (answers `unmodelled`/`reserved`): the 7 element types whose attribute table the library cannot build (F9) and Python-reserved dot names']
OPTS = {'depths': [0, 1, 2], 'mixed': 0.1, 'copy': 0.1, 'dots': False}


def oracle(d):
    at = d.get('at', '')
    if at.startswith('attr') or at.startswith('newe') or at.startswith('getattr') or at.startswith('attrs'):
        return 'attribute operation %s: the library answers %s where the schema-derived model answers %s' % (at, d.get('real'), d.get('model'))
    if at.startswith('tostr') and ('attrRequired' in d.get('model', '') + d.get('real', '')):
        return 'required-attribute check at to_string(): library %s, model %s' % (d.get('real'), d.get('model'))
    return None


def run(ctx):
    return ec.generic(ctx, 'C04', OPTS, n_quick=(48, 100), n_thorough=(128, 400), with_values=False, with_parse=False, oracle=oracle)


def replay(ctx, payload):
    return run(ctx)
