"""C09 — any schema-valid file is read without loss; nothing is silently dropped."""
from props import element_common as ec

NAMESPACE = 'C09'
LEAN_TARGETS = ['MxV.Props.C09']
THEOREMS = ['attr_not_silently_dropped', 'ladder_is_a_set', 'parseAttrs_frame', 'all_attrs_kept']
TRUSTED_BASE = ['Lean 4.33.0 kernel', 'axioms: propext, Quot.sound, Classical.choice only (audited per theorem)',
                'translator extract/*.py (attribute / validator / template tables regenerated every run)',
                'correspondence harness: real XMLElement trees vs the Lean models Element, Values, Serialize, Parser, Mfull through mxdriver',
                'CPython built-ins modelled or supplied, not verified: str(float) (repr text supplied), float()/int() parsing (oracle), re, xml.etree']
ASSUMPTIONS = ['theorems are about the hand-written Lean models; the tie to the code is the correspondence run of this check', 'outside the model envelope (answers `unmodelled`/`reserved`): the 7 element types whose attribute table the library cannot build (F9) and Python-reserved dot names']
OPTS = {'depths': [1, 2], 'mixed': 0.0, 'copy': 0.0, 'dots': False}


def oracle(d):
    if d.get('at') == 'parse':
        return 'parse_musicxml: library %s, model %s' % (d.get('real'), d.get('model'))
    return None


def bundled(ctx, res):
    """the real-world exports shipped with the library: model vs parse_musicxml, and the infoset oracle"""
    import parsing, lib, os
    files = ['test_hello_world.xml', 'test_bach_partita_3_reduced_created.xml']
    if ctx.tier == 'thorough':
        files.append('test_bach_partita_3.xml')
    base = os.path.join(os.environ.get('MUSICXML_REPO', '/repo'), 'musicxml', 'parser')
    drv = lib.Driver()
    done = []
    try:
        for f in files:
            p = os.path.join(base, f)
            if not os.path.exists(p):
                continue
            c = parsing.compare_file(drv, p)
            done.append({'file': f, 'status': c['status']})
            if c['status'] == 'disagree':
                res['violations'].append({'replay': {'property': 'C09', 'kind': 'property-violated-on-real-code' if (c.get('real') or '').startswith('err') else 'correspondence-broken',
                                                     'file': f, 'model': c.get('model'), 'real': c.get('real'),
                                                     'what_fails': 'bundled real-world file %s: library %s, model %s' % (f, c.get('real'), c.get('model'))}})
            elif c.get('real_text'):
                d = parsing.roundtrip_oracle(open(p, 'rb').read(), c['real_text'])
                if d:
                    res['violations'].append({'replay': {'property': 'C09', 'kind': 'property-violated-on-real-code', 'file': f,
                                                         'what_fails': 'round trip of %s changes the document: %s' % (f, d)}})
    finally:
        drv.close()
    res['coverage']['bundled_files'] = done
    res['evaluations'] += len(done)
    return res


def run(ctx):
    res = bundled(ctx, _run(ctx))
    # the parser attaches children through the same matcher as the builder API: valid words in
    # document order (the parser's path) on all 94 content models
    from props import matcher_common as mc
    m = mc.generic_run(ctx, 'C02', ['word', 'word', 'worddup', 'word', 'worddel', 'word', 'addonly', 'word'], n_quick=8, n_thorough=120)
    for v in m['violations']:
        v['replay']['property'] = 'C09'
    res['violations'] += m['violations']
    res['evaluations'] += m['evaluations']
    res['disagreements'] += m['disagreements']
    res['coverage']['matcher_correspondence'] = m['coverage']
    return res


def _run(ctx):
    return ec.generic(ctx, 'C09', OPTS, n_quick=(32, 50), n_thorough=(96, 200), with_values=False, with_parse=True, oracle=oracle)


def replay(ctx, payload):
    return run(ctx)
