"""C18 — xsd_check=False switches off structural checking and nothing else."""
from props import element_common as ec

NAMESPACE = 'C18'
LEAN_TARGETS = ['MxV.Props.C18']
THEOREMS = ['unchecked_add_total', 'unchecked_insertion_order', 'unchecked_eq_checked', 'unchecked_eq_checked_slotted']
TRUSTED_BASE = ['Lean 4.33.0 kernel', 'axioms: propext, Quot.sound, Classical.choice only (audited per theorem)',
                'translator extract/*.py (attribute / validator / template tables regenerated every run)',
                'correspondence harness: real XMLElement trees vs the Lean models Element, Values, Serialize, Parser, Mfull through mxdriver',
                'CPython built-ins modelled or supplied, not verified: str(float) (repr text supplied), float()/int() parsing (oracle), re, xml.etree']
ASSUMPTIONS = ['theorems are about the hand-written Lean models; the tie to the code is the correspondence run of this check', 'outside the model envelope (answers `unmodelled`/`reserved`): the 7 element types whose attribute table the library cannot build (F9) and Python-reserved dot names']
OPTS = {'depths': [0, 1, 2, 3], 'mixed': 0.6, 'copy': 0.1, 'dots': False, 'sandwich': 0.35}


def oracle(d):
    return 'tree mixing checked and unchecked nodes: %s library %s, model %s' % (d.get('at'), d.get('real'), d.get('model'))


def run(ctx):
    return ec.generic(ctx, 'C18', OPTS, n_quick=(48, 100), n_thorough=(128, 400), with_values=False, with_parse=False, oracle=oracle)


def replay(ctx, payload):
    return run(ctx)
