"""C19 — misuse is reported with the documented exception types, silently otherwise (matcher part)."""
from props import matcher_common as mc

NAMESPACE = 'C19'
LEAN_TARGETS = ['MxV.Props.C19', 'MxV.Props.Slotted']
THEOREMS = ['errors_documented_tame', 'errors_documented_flat_fwd', 'Slotted.C19_slotted', 'attr_errors_documented', 'attr_remove_silent']
TRUSTED_BASE = ['Lean 4.33.0 kernel', 'axioms: propext, Quot.sound, Classical.choice only (audited per theorem)',
                'translator extract/*.py (templates regenerated every run)',
                'correspondence harness (real library vs Mfull on all 94 types, vs Msimple on the 68 Tame types)']
ASSUMPTIONS = ['theorems are about Msimple (68 Tame types) and Mslot (78 Slotted types, a superset); the tie to the code is the correspondence run of this check', 'the remaining 16 content models (choices below repeated particles, repeated leaf names): no theorem; behaviour pinned by the Mfull correspondence and the open findings']
KINDS = ['mixed', 'fwd', 'worddup', 'mixed', 'fwd', 'addonly', 'mixed', 'perm']


def _oracle(d):
    at = d.get('at', '')
    return 'exception class or output (C19) at %s: library %s, model %s' % (at, d.get('real'), d.get('model')) if ('internal' in (d.get('real') or '') or 'internal' in (d.get('model') or '')) else None


def run(ctx):
    from props import element_common as ec
    a = mc.generic_run(ctx, 'C19', KINDS, n_quick=40, n_thorough=400)
    b = ec.generic(ctx, 'C19', {'depths': [0, 1, 2], 'mixed': 0.3, 'copy': 0.2, 'dots': True}, n_quick=(32, 60), n_thorough=(96, 300),
                   with_values=True, oracle=_oracle)
    out = dict(a)
    out['violations'] = a['violations'] + b['violations']
    out['known'] = a['known'] + [k for k in b['known'] if k not in a['known']]
    out['evaluations'] = a['evaluations'] + b['evaluations']
    out['distinct_nontrivial'] = a['distinct_nontrivial'] + b['distinct_nontrivial']
    out['disagreements'] = a['disagreements'] + b['disagreements']
    out['rule'] = a['rule'] + ' || element engine: ' + b['rule']
    out['samples'] = a['samples'][:5] + b['samples'][:2]
    out['coverage'] = dict(a['coverage'], element_engine=b['coverage'])
    return out


def replay(ctx, payload):
    return run(ctx)
