"""Matcher engine + whole-element engine in one check (properties whose statement is about the
child structure of *documents*: the per-node theorems are lifted by operations of XMLElement —
replace_child selectors, recursion of the final checks, cached serialisation — that only the
whole-element correspondence exercises)."""
from props import matcher_common as mc
from props import element_common as ec


def run_both(ctx, prop, kinds, eopts, eoracle, n_quick=40, n_thorough=400, e_quick=(32, 60), e_thorough=(96, 300)):
    a = mc.generic_run(ctx, prop, kinds, n_quick=n_quick, n_thorough=n_thorough)
    b = ec.generic(ctx, prop, eopts, n_quick=e_quick, n_thorough=e_thorough, with_values=False, oracle=eoracle)
    out = dict(a)
    out['violations'] = a['violations'] + b['violations']
    out['known'] = a['known'] + [k for k in b['known'] if k not in a['known']]
    out['evaluations'] = a['evaluations'] + b['evaluations']
    out['distinct_nontrivial'] = a['distinct_nontrivial'] + b['distinct_nontrivial']
    out['disagreements'] = a['disagreements'] + b['disagreements']
    out['rule'] = a['rule'] + ' || element engine: ' + b['rule']
    out['samples'] = a['samples'][:5] + b['samples'][:2]
    out['coverage'] = dict(a['coverage'], element_engine=b['coverage'])
    return out
