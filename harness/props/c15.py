"""C15 — shortcut syntax is equivalent to the explicit API."""
from props import element_common as ec

NAMESPACE = 'C15'
LEAN_TARGETS = ['MxV.Props.C15']
THEOREMS = ['instance_replaces_or_adds', 'none_removes', 'value_sets_or_builds', 'unknown_name_is_attribute_error', 'element_names_no_underscore', 'attr_names_no_underscore', 'reserved_collisions',
            'normKey_under', 'normKey_idem', 'setAttr_spelling', 'setAttr_normalised', 'get_after_set', 'get_after_remove']
TRUSTED_BASE = ['Lean 4.33.0 kernel', 'axioms: propext, Quot.sound, Classical.choice only (audited per theorem)',
                'translator extract/*.py (attribute / validator / template tables regenerated every run)',
                'correspondence harness: real XMLElement trees vs the Lean models Element, Values, Serialize, Parser, Mfull through mxdriver',
                'CPython built-ins modelled or supplied, not verified: str(float) (repr text supplied), float()/int() parsing (oracle), re, xml.etree']
ASSUMPTIONS = ['theorems are about the hand-written Lean models; the tie to the code is the correspondence run of this check', 'outside the model envelope (answers `unmodelled`/`reserved`): the 7 element types whose attribute table the library cannot build (F9) and Python-reserved dot names']
OPTS = {'depths': [0, 1, 2], 'mixed': 0.1, 'copy': 0.0, 'dots': True, 'hard': 0.35, 'scratch': 0.5}


def oracle(d):
    at = d.get('at', '')
    ops = d.get('ops', [])
    if at.startswith('dotx') or at.startswith('getx') or at.startswith('attr') or at.startswith('getattr') or any(o.startswith('dotx') for o in ops):
        return 'shortcut %s: the library gives %s, the explicit-API model %s' % (at, d.get('real'), d.get('model'))
    return None


def run(ctx):
    return ec.generic(ctx, 'C15', OPTS, n_quick=(48, 100), n_thorough=(128, 400), with_values=False, with_parse=False, oracle=oracle)


def replay(ctx, payload):
    return run(ctx)
