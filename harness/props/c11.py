"""C11 — removing a child restores the behaviour the element had without it."""
from props import matcher_common as mc

NAMESPACE = 'C11'
LEAN_TARGETS = ['MxV.Props.C11', 'MxV.Props.Slotted', 'MxV.Tables.D_witnesses_C11']
THEOREMS = ['C11_rebuild', 'C11_tame', 'attr_set_then_remove', 'Slotted.C11_slotted', 'fails_on_wild_models']
TRUSTED_BASE = ['Lean 4.33.0 kernel', 'axioms: propext, Quot.sound, Classical.choice only (audited per theorem)',
                'translator extract/*.py (templates regenerated every run)',
                'correspondence harness (real library vs Mfull on all 94 types, vs Msimple on the 68 Tame types)']
ASSUMPTIONS = ['theorems are about Msimple (68 Tame types) and Mslot (78 Slotted types, a superset); the tie to the code is the correspondence run of this check', 'the remaining 16 content models (choices below repeated particles, repeated leaf names): no theorem; behaviour pinned by the Mfull correspondence and the open findings']
KINDS = ['mixed', 'mixed', 'mixed', 'fwd', 'mixed', 'mixed', 'mixed', 'mixed']


def _oracle(d):
    at = d.get('at', '')
    if at.startswith(('tostr', 'add', 'rm', 'repl', 'dotx', 'obs')):
        return 'behaviour after removal (C11) at %s: library %s, model %s' % (at, d.get('real'), d.get('model'))
    return None


def run(ctx):
    from props import combined
    return combined.run_both(ctx, 'C11', KINDS, {'depths': [0, 1, 2], 'mixed': 0.2, 'copy': 0.05, 'dots': True, 'reuse': 0.6, 'scratch': 0.3},
                             _oracle, e_quick=(24, 40), e_thorough=(96, 200))


def replay(ctx, payload):
    return run(ctx)
