"""C14 — deep copies are faithful and independent."""
from props import element_common as ec

NAMESPACE = 'C14'
LEAN_TARGETS = ['MxV.Props.C14']
THEOREMS = ['copy_store_eq', 'copy_independent', 'children_rebuild', 'copy_isolated', 'copy_untouched']
TRUSTED_BASE = ['Lean 4.33.0 kernel', 'axioms: propext, Quot.sound, Classical.choice only (audited per theorem)',
                'translator extract/*.py (attribute / validator / template tables regenerated every run)',
                'correspondence harness: real XMLElement trees vs the Lean models Element, Values, Serialize, Parser, Mfull through mxdriver',
                'CPython built-ins modelled or supplied, not verified: str(float) (repr text supplied), float()/int() parsing (oracle), re, xml.etree']
ASSUMPTIONS = ['theorems are about the hand-written Lean models; the tie to the code is the correspondence run of this check', 'outside the model envelope (answers `unmodelled`/`reserved`): the 7 element types whose attribute table the library cannot build (F9) and Python-reserved dot names']
OPTS = {'depths': [0, 1, 2, 3], 'mixed': 0.25, 'copy': 1.0, 'dots': False}


def oracle(d):
    ops = d.get('ops', [])
    if any(o.startswith('copy') for o in ops):
        return 'after deepcopy: %s gives %s in the library, %s in the model' % (d.get('at'), d.get('real'), d.get('model'))
    return None


def run(ctx):
    return ec.generic(ctx, 'C14', OPTS, n_quick=(48, 100), n_thorough=(128, 400), with_values=False, with_parse=False, oracle=oracle)


def replay(ctx, payload):
    return run(ctx)
