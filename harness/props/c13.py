"""C13 — element instances are isolated from one another."""
from props import element_common as ec

NAMESPACE = 'C13'
LEAN_TARGETS = ['MxV.Props.C13']
THEOREMS = ['frame', 'fresh_independent', 'isolation', 'isolation_worlds', 'class_mutables_known', 'class_cells_known']
TRUSTED_BASE = ['Lean 4.33.0 kernel', 'axioms: propext, Quot.sound, Classical.choice only (audited per theorem)',
                'translator extract/*.py (attribute / validator / template tables regenerated every run)',
                'correspondence harness: real XMLElement trees vs the Lean models Element, Values, Serialize, Parser, Mfull through mxdriver',
                'CPython built-ins modelled or supplied, not verified: str(float) (repr text supplied), float()/int() parsing (oracle), re, xml.etree']
ASSUMPTIONS = ['theorems are about the hand-written Lean models; the tie to the code is the correspondence run of this check', 'outside the model envelope (answers `unmodelled`/`reserved`): the 7 element types whose attribute table the library cannot build (F9) and Python-reserved dot names']
OPTS = {'depths': [0, 1, 2], 'mixed': 0.2, 'copy': 0.4, 'dots': True, 'roots': [2, 2, 3]}


def oracle(d):
    return 'behaviour of one instance depends on history outside it (the model runs every instance from its own state only): %s library %s, model %s' % (d.get('at'), d.get('real'), d.get('model'))


def run(ctx):
    res = ec.generic(ctx, 'C13', OPTS, n_quick=(48, 100), n_thorough=(128, 400), with_values=True, with_parse=False, oracle=oracle)
    od = getattr(ctx, 'order_diff', None)
    if od:
        # the attribute table of a type depends on which other type was used first in the process: class-level state leaks
        res['violations'] = list(res.get('violations', [])) + [{'replay': {
            'property': 'C13', 'kind': 'property-violated-on-real-code',
            'what_fails': 'the attribute table of %s depends on the order in which the types are first used in the process' % od['type'],
            'order_dependence': od}}]
    return res


def replay(ctx, payload):
    return run(ctx)
