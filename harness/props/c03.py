"""C03 — every element class is a faithful translation of its XSD declaration.
Decided by the translator + kernel (Props/C03.lean over the regenerated tables). This module
(a) replays the open findings, (b) when a table theorem breaks, locates the differing rows and
searches the real code for a concrete input on which the property now fails."""
import json, os, re, itertools, random

NAMESPACE = 'C03'
LEAN_TARGETS = ['MxV.Props.C03']
THEOREMS = ['templates_lang_eq', 'templates_accepts_eq', 'inst_template_is_template', 'groups_eq',
            'elements_bijective', 'name_rule_ok', 'elem_projections_ok', 'type_binding_eq', 'attr_tables_eq',
            'attr_exceptions_bound', 'attr_groups_eq', 'attr_names_nodup', 'simple_defs_eq', 'simple_sub',
            'schema_copy_eq']
TRUSTED_BASE = ['Lean 4.33.0 kernel', 'axioms: propext, Quot.sound, Classical.choice only (audited per theorem)',
                'extract/impl_tables.py + extract/xsd_spec.py + extract/gen_lean.py (translator: what they print is what the theorems talk about)',
                'spec/*.pinned.xsd taken to be MusicXML 4.0 (sha256 recorded)',
                'xml:lang / xml:space declarations of the W3C xml.xsd written out in xsd_spec.py']
ASSUMPTIONS = ['the pinned schema copy under /verif/spec is the MusicXML 4.0 schema',
               'the intern table of gen_lean.py maps equal strings to equal indices (translator)',
               'score-timewise is outside the library (partwise only)']


# ------------------------------------------------------------------ python mirror of the table checks
def _camel(local):
    return ''.join(p[:1].upper() + p[1:] for p in local.split('-'))


def to_regex(t, sym):
    mi, ma = t['min'], t['max']
    if t['k'] == 'e':
        body = re.escape(sym[t['name']])
    elif t['k'] in ('s', 'g'):
        body = '(?:' + ''.join(to_regex(c, sym) for c in t['ps']) + ')'
    else:
        body = '(?:' + '|'.join(to_regex(c, sym) for c in t['ps']) + ')' if t['ps'] else '(?!)'
    if (mi, ma) == (1, 1):
        return body
    return '(?:%s){%d,%s}' % (body, mi, '' if ma is None else ma)


def table_diffs(impl, spec):
    from lib import ANON_CLS, leaves_of
    diffs = []
    # templates
    it = {}
    for cls, row in impl['templates'].items():
        key = ANON_CLS.get(cls) or impl['complex_types'][cls].get('type_name')
        it[key] = row['tree']
    for key in sorted(set(it) | set(spec['models'])):
        a, b = it.get(key), spec['models'].get(key)
        if a is None or b is None:
            diffs.append(('template-missing', key, 'impl' if a is None else 'spec'))
        elif norm_tree(a) != norm_tree(b):
            diffs.append(('template', key, None))
    for cls, row in impl['instance_templates'].items():
        tk = row['type_cls']
        if 'broken' in row or row['tree'] != impl['templates'].get(tk, {}).get('tree'):
            diffs.append(('instance-template', cls, tk))
    # elements
    inames = {e.get('name'): e for e in impl['elements']}
    for n in sorted(set(spec['element_decls']) - {'score-timewise'}):
        if n not in inames:
            diffs.append(('element-missing', n, None))
    for e in impl['elements']:
        n = e.get('name')
        if n not in spec['element_decls']:
            diffs.append(('element-extra', n, e['cls']))
            continue
        if 'broken' in e:
            diffs.append(('element-broken', n, e['broken']))
            continue
        if impl['name_rule'].get(n) != e['cls']:
            diffs.append(('name-rule', n, e['cls']))
        t = e.get('decl_type_attr') or 'anonymous'
        if t not in spec['element_decls'][n]:
            diffs.append(('type-binding', n, (e.get('type_cls'), spec['element_decls'][n])))
        else:
            exp = spec_type_cls(spec, t, n)
            if exp != e.get('type_cls'):
                diffs.append(('type-binding', n, (e.get('type_cls'), exp)))
    # attributes
    for cls, row in impl['complex_types'].items():
        key = ANON_CLS.get(cls) or row.get('type_name')
        srow = spec['complex_types'].get(key)
        if srow is None:
            diffs.append(('complex-type-extra', key, cls)); continue
        if 'broken' in row or any('broken' in r for r in row['rows']):
            diffs.append(('attr-table-broken', key, cls)); continue
        irows = sorted((r['name'], r['type_cls'], r['required']) for r in row['rows'])
        srows = sorted((r['name'], spec_attr_cls(r['type']), r['required']) for r in srow['rows'])
        if irows != srows:
            diffs.append(('attr-table', key, (cls, [r for r in irows if r not in srows], [r for r in srows if r not in irows])))
    # simple types
    for name, s in spec['simple_types'].items():
        cls = 'XSDSimpleType' + _camel(name)
        i = impl['simple_types'].get(cls)
        if i is None:
            diffs.append(('simple-missing', name, None)); continue
        if 'broken' in i:
            diffs.append(('simple-broken', name, i['broken'])); continue
        senum = [f[1] for f in s['facets'] if f[0] == 'enumeration']
        if i.get('permitted', []) != senum and not i.get('class_forced'):
            diffs.append(('simple-enum', name, ([x for x in senum if x not in i['permitted']],
                                                [x for x in i['permitted'] if x not in senum])))
        sf = [f for f in s['facets'] if f[0] not in ('enumeration', 'annotation')]
        jf = [f for f in i.get('facets', []) if f[0] not in ('enumeration', 'annotation')]
        if sf != jf and not i.get('class_forced'):
            diffs.append(('simple-facets', name, (jf, sf)))
    if impl['schema_files'] != spec['schema_files']:
        diffs.append(('schema-copy', 'schema files', (impl['schema_files'], spec['schema_files'])))
    return diffs


def norm_tree(t):
    """structure modulo the order of choice branches"""
    if t['k'] == 'e':
        return ('e', t['name'], t['min'], t['max'])
    kids = [norm_tree(c) for c in t.get('ps', [])]
    if t['k'] == 'c':
        kids = sorted(kids, key=repr)
    return (t['k'], t.get('name') if t['k'] == 'g' else None, t['min'], t['max'], tuple(kids))


def spec_type_cls(spec, t, elem_name):
    if t == 'anonymous':
        return {'score-partwise': 'XSDComplexTypeScorePartwise', 'part': 'XSDComplexTypePart',
                'measure': 'XSDComplexTypeMeasure', 'directive': 'XSDComplexTypeDirective'}.get(elem_name, '?')
    if t.startswith('xs:'):
        return 'XSDSimpleType' + _camel(t[3:])
    if t in spec['complex_types']:
        return 'XSDComplexType' + _camel(t)
    return 'XSDSimpleType' + _camel(t)


def spec_attr_cls(t):
    if t is None:
        return '?none'
    if t.startswith('xs:'):
        return 'XSDSimpleType' + _camel(t[3:])
    if t.startswith('inline:') or t.startswith('external:'):
        return t
    return 'XSDSimpleType' + _camel(t)


# ------------------------------------------------------------------ failing-input search on the real code
def _accepts_in_order(cls, w):
    import lib
    (s, e), _ = lib.quiet(cls)
    if s != 'ok':
        return False
    for n in w:
        (s2, v), _ = lib.quiet(e.add_child, lib.mk(n))
        if s2 != 'ok':
            return False
    (s3, v), _ = lib.quiet(e.child_container_tree.get_required_element_names)
    return s3 == 'ok' and not v and [c.name for c in e.get_children()] == list(w)


def _shrink(w, cls, not_in_spec):
    changed = True
    while changed:
        changed = False
        for i in range(len(w)):
            u = w[:i] + w[i + 1:]
            if not_in_spec(u) and _accepts_in_order(cls, u):
                w = u; changed = True; break
    return w


def search(diff, impl, spec):
    """returns a replay dict when the real code violates C03 at a concrete input, else None"""
    import lib
    kind, key, det = diff
    if kind in ('template', 'template-missing', 'instance-template'):
        tkey = key if kind != 'instance-template' else (lib.ANON_CLS.get(det) or impl['complex_types'][det]['type_name'])
        st = spec['models'].get(tkey)
        if st is None or tkey not in lib.REP:
            return None
        alpha = []
        for n in lib.leaves_of(st) + lib.ALPHA.get(tkey, []):
            if n not in alpha:
                alpha.append(n)
        sym = {n: chr(0x4e00 + i) for i, n in enumerate(alpha)}
        rx = re.compile(to_regex(st, sym))
        classes = lib.CLASSES_OF.get(tkey, [lib.REP[tkey]]) if kind != 'instance-template' else [getattr(lib.XE, key)]
        itree = lib.TREE.get(tkey)
        rxi = re.compile(to_regex(itree, sym)) if itree is not None and all(n in sym for n in lib.leaves_of(itree)) else None
        # candidates: short words exhaustively, then words sampled from both particles at their
        # occurrence bounds (and one-symbol mutations of them), kept when impl and spec disagree
        import matcher
        rnd = random.Random(12345)
        cands = []
        seen = set()
        def consider(w):
            w = tuple(w)
            if w in seen or len(w) > 40:
                return
            seen.add(w)
            s_ = ''.join(sym[x] for x in w)
            a = rx.fullmatch(s_) is not None
            b = rxi.fullmatch(s_) is not None if rxi is not None else None
            if b is None or a != b:
                cands.append((len(w), w, a))
        for L in range(0, 3 if len(alpha) > 12 else 4):
            for w in itertools.product(alpha, repeat=L):
                consider(w)
        for tree in [t for t in (itree, st) if t is not None]:
            for _ in range(1500):
                w = matcher.sample_word(tree, rnd)
                consider(w)
                if w:
                    k = rnd.randrange(len(w))
                    consider(w[:k] + [w[k]] + w[k:])
                    consider(w[:k] + w[k + 1:])
        cands.sort(key=lambda c: (c[0], c[1]))
        for _, w, in_spec in cands[:60]:
            for cls in classes[:2]:
                (s, e), _ = lib.quiet(cls)
                if s != 'ok':
                    continue
                ok = True
                for n in w:
                    if n not in lib.BY_NAME:
                        ok = False; break
                    (s2, v), _ = lib.quiet(e.add_child, lib.mk(n))
                    if s2 != 'ok':
                        ok = False; break
                if ok:
                    (s3, v), _ = lib.quiet(e.child_container_tree.get_required_element_names)
                    ok = (s3 == 'ok' and not v and [c.name for c in e.get_children()] == list(w))
                if ok and not in_spec:
                    w = _shrink(list(w), cls, lambda u: rx.fullmatch(''.join(sym[x] for x in u)) is None)
                    return {'property': 'C03', 'kind': 'content-model', 'type': tkey, 'class': cls.__name__,
                            'word': list(w), 'schema_says_valid': False, 'library_accepts_in_order': True,
                            'diff': [kind, key]}
                if in_spec and not ok and lib.CLASS_OF_TYPE.get(tkey) != 'wild':
                    return {'property': 'C03', 'kind': 'content-model', 'type': tkey, 'class': cls.__name__,
                            'word': list(w), 'schema_says_valid': True, 'library_accepts_in_order': False,
                            'diff': [kind, key]}
        return None
    if kind == 'attr-table':
        cls, extra_impl, extra_spec = det
        elem = next((c for c in lib.ALL if c.TYPE.__name__ == cls), None)
        if elem is None:
            return None
        for (n, t, req) in extra_spec:
            # the schema declares attribute n: required flag / presence must show in behaviour
            (s, e), _ = lib.quiet(lambda: elem.__new__(elem))
            rows = {a.name: a for a in elem.TYPE.get_xsd_attributes()}
            if n not in rows:
                return {'property': 'C03', 'kind': 'attribute-missing', 'class': elem.__name__, 'attribute': n,
                        'schema_row': [n, t, req], 'diff': [kind, key]}
            if bool(rows[n].is_required) != req:
                return {'property': 'C03', 'kind': 'attribute-required-flag', 'class': elem.__name__, 'attribute': n,
                        'schema_required': req, 'library_required': bool(rows[n].is_required), 'diff': [kind, key]}
            if rows[n].type_.__name__ != t:
                return {'property': 'C03', 'kind': 'attribute-type', 'class': elem.__name__, 'attribute': n,
                        'schema_type': t, 'library_type': rows[n].type_.__name__, 'diff': [kind, key]}
        for (n, t, req) in extra_impl:
            if not any(n == r[0] for r in extra_spec):
                return {'property': 'C03', 'kind': 'attribute-undeclared', 'class': elem.__name__, 'attribute': n,
                        'library_row': [n, t, req], 'diff': [kind, key]}
        return None
    if kind in ('element-missing', 'element-extra', 'element-broken', 'name-rule', 'type-binding'):
        return {'property': 'C03', 'kind': kind, 'element': key, 'detail': det}
    if kind in ('simple-enum',):
        missing, extra = det
        cls = getattr(__import__('musicxml.xsd.xsdsimpletype', fromlist=['x']), 'XSDSimpleType' + _camel(key))
        for v in missing:
            (s, e), _ = lib.quiet(cls, v)
            if s != 'ok':
                return {'property': 'C03', 'kind': 'enumeration-literal-rejected', 'type': key, 'value': v}
        for v in extra:
            (s, e), _ = lib.quiet(cls, v)
            if s == 'ok':
                return {'property': 'C03', 'kind': 'non-literal-accepted', 'type': key, 'value': v}
        return None
    if kind in ('simple-missing', 'simple-broken', 'simple-facets', 'schema-copy', 'attr-table-broken',
                'complex-type-extra'):
        return {'property': 'C03', 'kind': kind, 'key': key, 'detail': det}
    return None


# ------------------------------------------------------------------ known findings (F9)
def replay_finding(f):
    """True when the recorded defect still reproduces on the real code"""
    import lib
    r = f['replay']
    if r['kind'] == 'attr_row_broken':
        import musicxml.xsd.xsdcomplextype as CT
        T = getattr(CT, r['type_cls'])
        try:
            for a in T.get_xsd_attributes():
                a.name, a.is_required, a.type_
            return False
        except Exception:
            return True
    return False


def run(ctx):
    import lib, findings
    impl, spec = lib.IMPL, lib.SPEC
    diffs = table_diffs(impl, spec)
    known_keys = set()
    known = []
    for f in findings.open_findings('C03'):
        if replay_finding(f):
            known.append('%s %s [%s]' % (f['id'], f['what'], f['site']))
            known_keys.add(f['replay'].get('type_key'))
    violations = []
    checked = 0
    for d in diffs:
        if d[0] == 'attr-table-broken' and d[1] in known_keys:
            continue
        checked += 1
        rep = search(d, impl, spec)
        if rep is not None:
            violations.append({'replay': rep})
        else:
            violations.append({'replay': {'property': 'C03', 'kind': 'table-row-differs', 'diff': list(d),
                                          'no_failing_input_found': True,
                                          'theorem': 'C03 table theorem over this row no longer checks'},
                               'suffix': ' no-failing-input-found'})
    od = getattr(ctx, 'order_diff', None)
    if od:
        # the same table extracted with the types used in the opposite order differs: for one of the two orders the
        # class is not the translation of its declaration
        violations.append({'replay': {'property': 'C03', 'kind': 'property-violated-on-real-code',
                                      'what_fails': 'the attribute table of %s depends on the order in which the types are first used: '
                                                    'in one of the two orders it is not the schema\'s' % od['type'],
                                      'order_dependence': od}})
    # "the set of child sequences it can ever accept is exactly the language": run-time tie of the
    # templates to the matcher (same correspondence engine as C01/C02)
    from props import matcher_common as mc
    mres = mc.generic_run(ctx, 'C02', ['word', 'worddup', 'worddel', 'addonly', 'perm', 'mixed', 'word', 'fwd'], n_quick=8, n_thorough=80)
    for v in mres['violations']:
        v['replay']['property'] = 'C03'
        violations.append(v)
    n_rows = (len(impl['elements']) + len(impl['templates']) + len(impl['instance_templates']) +
              sum(len(v.get('rows', [])) for v in impl['complex_types'].values()) + len(impl['simple_types']) +
              len(impl['attr_groups']) + len(impl['model_groups']))
    samples = [{'table': 'templates', 'key': 'pitch', 'impl': impl['templates']['XSDComplexTypePitch']['tree']},
               {'table': 'attributes', 'key': 'XSDComplexTypeNote', 'rows': impl['complex_types']['XSDComplexTypeNote']['rows'][:4]},
               {'table': 'elements', 'row': impl['elements'][0]}]
    return {'violations': violations, 'known': known, 'evaluations': n_rows + mres['evaluations'], 'distinct_nontrivial': n_rows,
            'rule': 'complete finite tables regenerated from the live library and the pinned schema: every element class, '
                    'container template (process-wide and per-instance), attribute row, simple type, model/attribute group; '
                    'each row is one case (all distinct by key); exhaustive',
            'samples': samples, 'disagreements': checked + mres['disagreements'],
            'coverage': {'exhaustive': True, 'matcher_correspondence': mres['coverage'], 'table_diffs_python_mirror': [list(map(str, d)) for d in diffs][:20],
                         'tables': {'elements': len(impl['elements']), 'templates': len(impl['templates']),
                                    'instance_templates': len(impl['instance_templates']),
                                    'complex_types': len(impl['complex_types']), 'simple_types': len(impl['simple_types']),
                                    'attr_groups': len(impl['attr_groups']), 'model_groups': len(impl['model_groups'])}},
            'search_note': 'python mirror of the table comparison found the differing rows; each was replayed on the real classes'}


def replay(ctx, payload):
    return run(ctx)
