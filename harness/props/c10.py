"""C10 — a failed operation changes nothing."""
from props import matcher_common as mc

NAMESPACE = 'C10'
LEAN_TARGETS = ['MxV.Props.C10', 'MxV.Props.Slotted']
THEOREMS = ['C10_tame', 'C10_then_supply', 'Slotted.C10_slotted']
TRUSTED_BASE = ['Lean 4.33.0 kernel', 'axioms: propext, Quot.sound, Classical.choice only (audited per theorem)',
                'translator extract/*.py (templates regenerated every run)',
                'correspondence harness (real library vs Mfull on all 94 types, vs Msimple on the 68 Tame types)']
ASSUMPTIONS = ['theorems are about Msimple (68 Tame types) and Mslot (78 Slotted types, a superset); the tie to the code is the correspondence run of this check', 'the remaining 16 content models (choices below repeated particles, repeated leaf names): no theorem; behaviour pinned by the Mfull correspondence and the open findings']
KINDS = ['mixed', 'worddup', 'fwd', 'mixed', 'worddup', 'addonly', 'fwd', 'mixed']


def run(ctx):
    return mc.generic_run(ctx, 'C10', KINDS, n_quick=40, n_thorough=400)


def replay(ctx, payload):
    return run(ctx)
