"""C20 — independent documents can be built concurrently from several threads."""
import os, json

NAMESPACE = 'C20'
LEAN_TARGETS = ['MxV.Props.C20']
THEOREMS = ['complex_publish_after_fill', 'group_publish_after_fill', 'attribute_tables_thread_safe', 'class_cells_known',
            'class_mutables_known', 'no_provisional_publication', 'stepTh_remaining', 'rem_run', 'attribute_tables_progress']
TRUSTED_BASE = ['Lean 4.33.0 kernel', 'axioms: propext, Quot.sound, Classical.choice only (audited per theorem)',
                'extract/shapes.py (AST -> statements of the two lazily filled get_xsd_attributes, inventory of class-level cells and mutable class attributes)',
                "CPython's GIL: pre-emption at line granularity as exercised through sys.settrace; list/dict primitives atomic",
                'fork-per-schedule harness (every schedule starts from the import-time state of the lazily initialised tables)']
ASSUMPTIONS = ['free-threaded CPython builds and pre-emption inside a bytecode are outside the model',
               'the dynamic sweep pre-empts thread A once per schedule (the theorem covers any number of pre-emptions and threads)']


def run(ctx):
    import sched, lib
    quick = ctx.tier == 'quick'
    n, bad, herr, jobs = sched.run(ctx.seed, n_classes=24 if quick else 120, max_points=96 if quick else 320, all_points=False)
    if herr and len(herr) > n // 5:
        raise RuntimeError('schedule harness errors: %r' % herr[0])
    violations = []
    for b in bad[:3]:
        violations.append({'replay': dict(b, property='C20', kind='thread-result-differs-from-solo-run')})
    shapes = json.load(open(os.path.join(lib.BUILD, 'shapes.json')))
    if not ctx.build_ok and not violations:
        violations.append({'replay': {'property': 'C20', 'kind': 'shape-theorem-broken', 'lazy_complex': shapes['lazy_complex'],
                                      'lazy_group': shapes['lazy_group'], 'class_level_writes': shapes['class_level_writes'],
                                      'class_mutables': shapes['class_mutables'], 'provisional_publications': shapes.get('provisional_publications'), 'no_failing_input_found': True,
                                      'searched': '%d two-thread schedules' % n},
                           'suffix': ' no-failing-input-found'})
    return {'violations': violations, 'known': [], 'evaluations': n, 'distinct_nontrivial': n, 'traces': n, 'disagreements': len(bad),
            'rule': 'two-thread schedules: thread A (first use of a class: build with an attribute, validate, serialise) is pre-empted '
                    'before its k-th executed library line, thread B (same class / another class) runs to completion in the gap, A '
                    'resumes; both results (value or exception type+message) must equal the solo results; every schedule in a '
                    'freshly forked child; k ranges over the lines of the lazily-initialising functions and an even spread over all '
                    'lines; each (classes, k) is a distinct schedule',
            'samples': [{'class_a': j[0], 'class_b': j[1], 'preemption_points': j[4][:12]} for j in jobs[:3]],
            'coverage': {'schedules': n, 'class_pairs': len(jobs), 'harness_errors': len(herr),
                         'lazy_complex': shapes['lazy_complex'], 'lazy_group': shapes['lazy_group'],
                         'class_level_cells': shapes['class_level_writes']}}


def replay(ctx, payload):
    return run(ctx)
