"""C01 — serialised child structure is always valid against the MusicXML 4.0 schema."""
from props import matcher_common as mc

NAMESPACE = 'C01'
LEAN_TARGETS = ['MxV.Props.C01', 'MxV.Props.Slotted', 'MxV.Tables.D_witnesses_C01']
THEOREMS = ['C01_tame', 'C01_reachable', 'C01_schema', 'C01_tree', 'Slotted.C01_slotted', 'Slotted.C01_slotted_schema', 'Slotted.slotted_count', 'Slotted.tame_subset_slotted', 'fails_on_wild_models']
TRUSTED_BASE = ['Lean 4.33.0 kernel', 'axioms: propext, Quot.sound, Classical.choice only (audited per theorem)',
                'translator extract/*.py (templates regenerated every run; C03.templates_lang_eq re-decided)',
                'correspondence harness (real library vs Mfull on all 94 types, vs Msimple on the 68 Tame types)',
                'pinned schema copy = MusicXML 4.0']
ASSUMPTIONS = ['theorems are about Msimple (Tame types); the tie to the code is the correspondence run of this check',
               'the remaining 16 content models (choices below repeated particles, repeated leaf names): no theorem; behaviour pinned by the Mfull correspondence and the open findings',
               'nested documents: the per-node statement is lifted by the recursion of _final_checks (every checked node is checked)']
KINDS = ['mixed', 'word', 'worddup', 'perm', 'fwd', 'worddel', 'addonly', 'mixed']


def _oracle(d):
    at = d.get('at', '')
    if at.startswith(('tostr', 'add', 'rm', 'repl', 'dotx', 'obs')):
        return 'child structure of the serialised document (C01) at %s: library %s, model %s' % (at, d.get('real'), d.get('model'))
    return None


def run(ctx):
    from props import combined
    return combined.run_both(ctx, 'C01', KINDS, {'depths': [0, 1, 2, 3], 'mixed': 0.25, 'copy': 0.1, 'dots': True}, _oracle)


def replay(ctx, payload):
    return run(ctx)
