"""C07 — add_child never accepts a child that makes the element impossible to complete."""
from props import matcher_common as mc

NAMESPACE = 'C07'
LEAN_TARGETS = ['MxV.Props.C07', 'MxV.Props.Slotted', 'MxV.Props.C07x']
THEOREMS = ['C07_reject_needed_flat', 'C07_reject_needed_rootChoice', 'C07_complete_rootChoice', 'templates_min_le_max', 'C07_complete_flat', 'Slotted.C07_complete_slotted', 'Slotted.C07_reject_needed_slotted', 'over_the_bound_is_hopeless', 'maxCount_bounds_every_word']
TRUSTED_BASE = ['Lean 4.33.0 kernel', 'axioms: propext, Quot.sound, Classical.choice only (audited per theorem)',
                'translator extract/*.py (templates regenerated every run)',
                'correspondence harness (real library vs Mfull on all 94 types, vs Msimple on the 68 Tame types)']
ASSUMPTIONS = ['theorems are about Msimple (68 Tame types) and Mslot (78 Slotted types, a superset); the tie to the code is the correspondence run of this check', 'the remaining 16 content models (choices below repeated particles, repeated leaf names): no theorem; behaviour pinned by the Mfull correspondence and the open findings']
KINDS = ['addonly', 'perm', 'addonly', 'worddel', 'worddup', 'perm', 'addonly', 'word']


def _oracle(d):
    at = d.get('at', '')
    if at.startswith(('tostr', 'add', 'rm', 'repl', 'dotx', 'obs')):
        return 'acceptance of a child / completability (C07) at %s: library %s, model %s' % (at, d.get('real'), d.get('model'))
    return None


def run(ctx):
    from props import combined
    return combined.run_both(ctx, 'C07', KINDS, {'depths': [0, 1, 2], 'mixed': 0.2, 'copy': 0.05, 'dots': True, 'reuse': 0.6, 'scratch': 0.3},
                             _oracle, e_quick=(24, 40), e_thorough=(96, 200))


def replay(ctx, payload):
    return run(ctx)
