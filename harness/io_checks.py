"""C17 correspondence: write() fault injection (every element failing its check in turn, any prior
state of the destination) and a subprocess locale matrix."""
import os, sys, tempfile, subprocess, json, hashlib
from lib import *
import elements

DECL = '<?xml version="1.0" encoding="UTF-8" standalone="no"?>\n'


def build_score(rnd, drv=None):
    """a valid score-partwise tree built through the public API (non-ASCII text included)"""
    XS = XE
    s = XS.XMLScorePartwise(version='4.0')
    w = s.add_child(XS.XMLWork())
    w.add_child(XS.XMLWorkTitle(rnd.choice(['Étude № 1', 'Füße & Hände <1>', 'Ｔｉｔｌｅ 𝄞', 'plain'])))
    pl = s.add_child(XS.XMLPartList())
    n_parts = rnd.randint(1, 2)
    for p in range(n_parts):
        sp = pl.add_child(XS.XMLScorePart(id='P%d' % (p + 1)))
        sp.add_child(XS.XMLPartName(rnd.choice(['Violine', 'Flöte', 'Part "A"'])))
    for p in range(n_parts):
        part = s.add_child(XS.XMLPart(id='P%d' % (p + 1)))
        for mnum in range(rnd.randint(1, 2)):
            m = part.add_child(XS.XMLMeasure(number=str(mnum + 1)))
            if mnum == 0:
                a = m.add_child(XS.XMLAttributes())
                a.add_child(XS.XMLDivisions(1))
                k = a.add_child(XS.XMLKey()); k.add_child(XS.XMLFifths(0))
                t = a.add_child(XS.XMLTime()); t.add_child(XS.XMLBeats('4')); t.add_child(XS.XMLBeatType('4'))
                c = a.add_child(XS.XMLClef()); c.add_child(XS.XMLSign('G')); c.add_child(XS.XMLLine(2))
            for _ in range(rnd.randint(1, 3)):
                n = m.add_child(XS.XMLNote())
                pi = n.add_child(XS.XMLPitch()); pi.add_child(XS.XMLStep(rnd.choice('CDEFGAB'))); pi.add_child(XS.XMLOctave(4))
                n.add_child(XS.XMLDuration(rnd.choice([1, 2, 4])))
                n.add_child(XS.XMLType(rnd.choice(['quarter', 'half', 'whole'])))
                if rnd.random() < 0.4:
                    ly = n.add_child(XS.XMLLyric(number='1'))
                    ly.add_child(XS.XMLText(rnd.choice(['la', 'Ähre', 'ß', '日本'])))
    return s


def all_nodes(e):
    out = [e]
    for c in e.get_children():
        out.extend(all_nodes(c))
    return out


def break_node(node):
    """make exactly this node fail its final check; returns an undo callable or None"""
    T = node.TYPE
    # 1. a required attribute
    try:
        if T.get_xsd_tree().is_complex_type:
            for a in T.get_xsd_attributes():
                if a.is_required and a.name in node.attributes:
                    v = node.attributes.pop(a.name)
                    return lambda: node.attributes.__setitem__(a.name, v)
    except Exception:
        pass
    # 2. a required child
    kids = node.get_children()
    for ch in list(kids):
        (s, r), _ = quiet(node.remove, ch)
        if s != 'ok':
            continue
        (s2, req), _ = quiet(node.child_container_tree.get_required_element_names)
        if s2 == 'ok' and req:
            def undo(ch=ch):
                quiet(node.add_child, ch)
            return undo
        quiet(node.add_child, ch)
    # 3. a simple-typed element without value
    if T.get_xsd_tree().is_simple_type:
        old = node._value
        node._value = None
        def undo2():
            node._value = old
        return undo2
    return None


def fault_injection(seed, n_trees):
    rnd = random.Random('io/%s' % seed)
    stats = {'trees': 0, 'nodes_broken': 0, 'writes_failed_as_expected': 0, 'writes_ok': 0}
    viol = []
    with tempfile.TemporaryDirectory() as td:
        for t in range(n_trees):
            s = build_score(rnd)
            stats['trees'] += 1
            (st, text), _ = quiet(s.to_string)
            if st != 'ok':
                viol.append({'kind': 'harness', 'what': 'generated score does not serialise: %r' % text})
                continue
            # success path, three prior states of the destination
            for prior in (None, b'', b'OLD CONTENT \xff\xfe'):
                p = os.path.join(td, 'out_%d.xml' % t)
                if os.path.exists(p):
                    os.remove(p)
                if prior is not None:
                    open(p, 'wb').write(prior)
                (st2, r), _ = quiet(s.write, p)
                if st2 != 'ok':
                    viol.append({'kind': 'write-raises-on-valid-tree', 'error': repr(r)})
                    continue
                got = open(p, 'rb').read()
                exp = (DECL + text).encode('utf-8')
                stats['writes_ok'] += 1
                if got != exp:
                    viol.append({'kind': 'content', 'prior': repr(prior), 'expected_sha': hashlib.sha1(exp).hexdigest(),
                                 'got_head': got[:120].decode('utf-8', 'replace')})
            # failure path: every node in turn
            nodes = all_nodes(s)
            for k, node in enumerate(nodes):
                undo = break_node(node)
                if undo is None:
                    continue
                (st3, _r), _ = quiet(s.to_string)
                if st3 == 'ok':
                    undo()
                    continue
                stats['nodes_broken'] += 1
                for prior in (None, b'PREVIOUS \xc3\xa9 bytes\n' * 3):
                    p = os.path.join(td, 'f_%d_%d.xml' % (t, k))
                    if os.path.exists(p):
                        os.remove(p)
                    if prior is not None:
                        open(p, 'wb').write(prior)
                    (st4, r4), _ = quiet(s.write, p)
                    after = open(p, 'rb').read() if os.path.exists(p) else None
                    if st4 == 'ok':
                        viol.append({'kind': 'write-succeeds-on-invalid-tree', 'node': type(node).__name__})
                    else:
                        stats['writes_failed_as_expected'] += 1
                        if after != prior:
                            viol.append({'kind': 'destination-changed-by-failing-write', 'node': type(node).__name__,
                                         'exception': type(r4).__name__, 'prior': repr(prior), 'after': repr(after)[:120]})
                undo()
                (st5, t5), _ = quiet(s.to_string)
                if st5 != 'ok' or t5 != text:
                    break   # could not restore exactly; stop breaking this tree
    return stats, viol


LOCALE_SCRIPT = r'''
import sys, os, hashlib, json, locale, tempfile
sys.path.insert(0, %(repo)r)
out = {'enc': locale.getpreferredencoding(False)}
try:
    from musicxml.xmlelement.xmlelement import *
    from musicxml.parser.parser import parse_musicxml
    s = XMLScorePartwise(version='4.0')
    w = s.add_child(XMLWork()); w.add_child(XMLWorkTitle('\u00c9tude \u2116 1 \U0001d11e \u65e5\u672c'))
    pl = s.add_child(XMLPartList()); sp = pl.add_child(XMLScorePart(id='P1')); sp.add_child(XMLPartName('Fl\u00f6te'))
    p = s.add_child(XMLPart(id='P1')); m = p.add_child(XMLMeasure(number='1'))
    n = m.add_child(XMLNote()); pi = n.add_child(XMLPitch()); pi.add_child(XMLStep('C')); pi.add_child(XMLOctave(4))
    n.add_child(XMLDuration(1))
    d = tempfile.mkdtemp()
    path = os.path.join(d, 'x.xml')
    s.write(path)
    b = open(path, 'rb').read()
    out['written_sha'] = hashlib.sha1(b).hexdigest()
    out['decodes_utf8'] = True
    b.decode('utf-8')
    t = parse_musicxml(path)
    out['reparsed_sha'] = hashlib.sha1(t.to_string().encode('utf-8')).hexdigest()
    # the same document over a destination that already exists: itself, and a longer unrelated file
    s.write(path)
    out['rewritten_sha'] = hashlib.sha1(open(path, 'rb').read()).hexdigest()
    other = os.path.join(d, 'y.xml')
    with open(other, 'wb') as f:
        f.write(b'\xff\xfe' + b'z' * (2 * len(b)))
    s.write(other)
    out['overwritten_sha'] = hashlib.sha1(open(other, 'rb').read()).hexdigest()
    out['leftovers'] = sorted(x for x in os.listdir(d) if x not in ('x.xml', 'y.xml'))
    out['status'] = 'ok'
except Exception as e:
    out['status'] = 'err:' + type(e).__name__ + ':' + str(e)[:120]
sys.stdout.buffer.write(json.dumps(out).encode('ascii'))
'''


def locale_matrix(thorough=False):
    configs = [
        {'LC_ALL': 'C.UTF-8', 'LANG': 'C.UTF-8'},
        {'LC_ALL': 'C', 'LANG': 'C', 'PYTHONCOERCECLOCALE': '0', 'PYTHONUTF8': '0'},
        {'LC_ALL': 'POSIX', 'LANG': 'POSIX', 'PYTHONCOERCECLOCALE': '0', 'PYTHONUTF8': '0'},
        {'LC_ALL': 'C', 'PYTHONCOERCECLOCALE': '0', 'PYTHONUTF8': '0', 'PYTHONIOENCODING': 'latin-1'},
        {'LC_ALL': 'C', 'PYTHONUTF8': '1'},
        {'LANG': '', 'LC_ALL': '', 'PYTHONCOERCECLOCALE': '0', 'PYTHONUTF8': '0'},
    ]
    if thorough:
        try:
            avail = subprocess.run(['locale', '-a'], capture_output=True, text=True).stdout.split()
        except Exception:
            avail = []
        for l in avail:
            if l not in ('C', 'POSIX', 'C.UTF-8', 'C.utf8'):
                configs.append({'LC_ALL': l, 'LANG': l, 'PYTHONCOERCECLOCALE': '0', 'PYTHONUTF8': '0'})
    repo = os.path.dirname(os.path.dirname(XE.__file__.rstrip('c')))
    repo = os.path.dirname(repo) if os.path.basename(repo) == 'musicxml' else repo
    results = []
    for cfg in configs:
        env = {k: v for k, v in os.environ.items() if not k.startswith('LC_') and k not in ('LANG', 'PYTHONUTF8', 'PYTHONIOENCODING', 'PYTHONCOERCECLOCALE')}
        env.update(cfg)
        env['PYTHONPATH'] = os.environ.get('PYTHONPATH', '')
        script = os.path.join(BUILD, 'locale_script.py')
        with open(script, 'w', encoding='ascii') as f:
            f.write(LOCALE_SCRIPT % {'repo': os.environ.get('MUSICXML_REPO', '/repo')})
        r = subprocess.run(['/venv/bin/python', '-W', 'ignore', script], env=env, capture_output=True, timeout=120)
        try:
            out = json.loads(r.stdout.decode('ascii', 'replace'))
        except Exception:
            out = {'status': 'err:subprocess', 'stderr': r.stderr.decode('utf-8', 'replace')[-300:]}
        out['config'] = cfg
        results.append(out)
    ref = results[0]
    viol = []
    for r in results:
        if r.get('status') != 'ok' or r.get('written_sha') != ref.get('written_sha') or r.get('reparsed_sha') != ref.get('reparsed_sha') \
                or r.get('rewritten_sha') != r.get('written_sha') or r.get('overwritten_sha') != r.get('written_sha') or r.get('leftovers'):
            viol.append({'kind': 'locale-dependent', 'config': r['config'], 'result': {k: v for k, v in r.items() if k != 'config'},
                         'reference': {k: v for k, v in ref.items() if k != 'config'}})
    return results, viol


if __name__ == '__main__':
    st, v = fault_injection(int(sys.argv[1]) if len(sys.argv) > 1 else 0, 5)
    print(st, v[:3])
    res, v2 = locale_matrix()
    for r in res:
        print(r)
    print(v2)
