"""C20 correspondence: systematic two-thread schedules at line granularity.
Thread A is pre-empted once, at the k-th executed library line of its first use of a class, thread B
runs to completion in the gap, A resumes; both results must equal the results each thread gets
running alone. Every schedule runs in a freshly forked child so that the lazily initialised
class-level tables are in their import-time state."""
import os, sys, threading, pickle, traceback, time, multiprocessing as mp
from lib import *

LIBDIR = os.path.dirname(os.path.dirname(XE.__file__))


def outcome(fn):
    try:
        return ('ok', fn())
    except Exception as e:
        return ('exc', type(e).__name__, str(e)[:300])


def mk_workload(cls_name, variant):
    """a closure that builds, validates and serialises an element of the class"""
    def work():
        import io, contextlib
        cls = getattr(XE, cls_name)
        buf = io.StringIO()
        with contextlib.redirect_stdout(buf):
            row = IMPL['complex_types'].get(cls.TYPE.__name__) or {}
            rows = [r for r in row.get('rows', []) if 'broken' not in r]
            kwargs = {}
            if rows:
                r = rows[variant % len(rows)]
                vals = {'XSDSimpleTypeYesNo': 'yes', 'XSDSimpleTypeTenths': 1.5, 'XSDSimpleTypeID': 'id%d' % variant,
                        'XSDSimpleTypeToken': 'tok', 'XSDSimpleTypeColor': '#FF0000', 'XSDSimpleTypeStartStop': 'start',
                        'XSDSimpleTypeNumberLevel': 1, 'XSDSimpleTypeAboveBelow': 'above', 'XSDSimpleTypeFontSize': 12,
                        'XSDSimpleTypeString': 's', 'XSDSimpleTypePositiveInteger': 2, 'XSDSimpleTypeDecimal': 0.5}
                v = vals.get(r['type_cls'], 'yes' if variant % 2 else 17)
                kwargs[r['name'].replace('-', '_')] = v
            try:
                e = cls(**kwargs)
            except (TypeError, ValueError):
                e = cls('yes' if variant % 2 else 1, **kwargs)
            return e.to_string()
    return work


def run_solo(cls_a, cls_b, va, vb, which):
    return outcome(mk_workload(cls_a, va) if which == 'A' else mk_workload(cls_b, vb))


def trace_events(cls_a, va):
    """number of line events thread A executes in library files (first use), and the indices of the
    events inside the lazily-initialising functions"""
    events = []
    def tr(frame, ev, arg):
        fn = frame.f_code.co_filename
        if not fn.startswith(LIBDIR):
            return None
        if ev == 'line':
            events.append((os.path.basename(fn), frame.f_lineno, frame.f_code.co_name))
        return tr
    res = {}
    def body():
        sys.settrace(tr)
        try:
            res['r'] = outcome(mk_workload(cls_a, va))
        finally:
            sys.settrace(None)
    t = threading.Thread(target=body)
    t.start(); t.join()
    return events, res.get('r')


def run_schedule(cls_a, cls_b, va, vb, k):
    """A pre-empted before its k-th library line; B runs to completion; A resumes"""
    reached = threading.Event()
    resume = threading.Event()
    count = [0]
    res = {}
    def tr(frame, ev, arg):
        fn = frame.f_code.co_filename
        if not fn.startswith(LIBDIR):
            return None
        if ev == 'line':
            if count[0] == k:
                reached.set()
                resume.wait(20)
            count[0] += 1
        return tr
    def body_a():
        sys.settrace(tr)
        try:
            res['A'] = outcome(mk_workload(cls_a, va))
        finally:
            sys.settrace(None)
            reached.set()
    ta = threading.Thread(target=body_a)
    ta.start()
    reached.wait(20)
    tb = threading.Thread(target=lambda: res.__setitem__('B', outcome(mk_workload(cls_b, vb))))
    tb.start(); tb.join(20)
    resume.set()
    ta.join(20)
    return res.get('A'), res.get('B')


def in_child(fn, *a):
    """run fn(*a) in a forked child (pristine lazily-initialised state) and return its result"""
    r, w = os.pipe()
    pid = os.fork()
    if pid == 0:
        try:
            os.close(r)
            try:
                out = ('ok', fn(*a))
            except BaseException as e:
                out = ('harness-exc', traceback.format_exc()[-800:])
            with os.fdopen(w, 'wb') as f:
                pickle.dump(out, f)
        finally:
            os._exit(0)
    os.close(w)
    with os.fdopen(r, 'rb') as f:
        data = f.read()
    os.waitpid(pid, 0)
    try:
        return pickle.loads(data)
    except Exception:
        return ('harness-exc', 'no result from child')


def job(args):
    cls_a, cls_b, va, vb, ks = args
    out = []
    soloA = in_child(run_solo, cls_a, cls_b, va, vb, 'A')
    soloB = in_child(run_solo, cls_a, cls_b, va, vb, 'B')
    for k in ks:
        r = in_child(run_schedule, cls_a, cls_b, va, vb, k)
        if r[0] != 'ok':
            out.append({'k': k, 'harness': r[1]})
            continue
        a, b = r[1]
        if soloA[0] == 'ok' and soloB[0] == 'ok' and (a != soloA[1] or b != soloB[1]):
            out.append({'k': k, 'class_a': cls_a, 'class_b': cls_b, 'variant_a': va, 'variant_b': vb,
                        'A_alone': soloA[1], 'B_alone': soloB[1], 'A_interleaved': a, 'B_interleaved': b})
    return {'args': [cls_a, cls_b, va, vb], 'n': len(ks), 'bad': out}


def plan(seed, n_classes, max_points, all_points=False):
    rnd = random.Random('sched/%s' % seed)
    cands = [c.__name__ for c in ALL if c.TYPE.__name__ in IMPL['complex_types'] and
             'broken' not in IMPL['complex_types'][c.TYPE.__name__] and
             not any('broken' in r for r in IMPL['complex_types'][c.TYPE.__name__]['rows']) and
             IMPL['complex_types'][c.TYPE.__name__]['rows']]
    rnd.shuffle(cands)
    # half of the classes: types with a required attribute (their workloads often omit it: the expected outcome is an exception)
    req = [c for c in cands if any(r.get('required') for r in IMPL['complex_types'][getattr(XE, c).TYPE.__name__]['rows'])]
    mixed = []
    for i in range(len(cands)):
        if i % 2 == 0 and req:
            mixed.append(req.pop(0))
        mixed.append(cands[i])
    seen = set()
    cands = [c for c in mixed if not (c in seen or seen.add(c))]
    jobs = []
    for cls_a in cands[:n_classes]:
        va = rnd.randint(0, 5)
        ev = in_child(trace_events, cls_a, va)
        if ev[0] != 'ok':
            continue
        events = ev[1][0]
        n = len(events)
        LAZY_FN = ('get_xsd_attributes', '_fill_xsd_tree', 'get_xsd_tree', '__init__', 'value_', '_check_attribute', 'type_',
                   '_populate_permitted', 'is_required', 'name', 'ref', 'xsd_tree', '_check_required_attributes', '_populate_pattern',
                   '_populate_forced_permitted')
        visits = {}
        lazy = []
        for i, e in enumerate(events):
            # every line of the attribute-table modules (first visits), and the lazily caching functions elsewhere
            if e[0] in ('xsdattribute.py', 'xsdcomplextype.py') or e[2] in LAZY_FN:
                visits[(e[0], e[1])] = visits.get((e[0], e[1]), 0) + 1
                if visits[(e[0], e[1])] <= 2:
                    lazy.append(i)
        if all_points:
            ks = list(range(n))
        else:
            rnd.shuffle(lazy)
            ks = sorted(set(lazy[:max_points * 3 // 4] + [int(i * n / max(1, max_points // 4)) for i in range(max_points // 4)]))
        # B: the same class with another value (shared tables of the same type), and a different class
        for cls_b, vb in ((cls_a, va + 1), (rnd.choice(cands), rnd.randint(0, 5))):
            jobs.append((cls_a, cls_b, va, vb, ks))
    return jobs


def run(seed, n_classes=12, max_points=40, all_points=False, nproc=None):
    jobs = plan(seed, n_classes, max_points, all_points)
    with mp.Pool(nproc or min(16, os.cpu_count() or 4)) as pool:
        res = pool.map(job, jobs, chunksize=1)
    n = sum(r['n'] for r in res)
    bad = [b for r in res for b in r['bad'] if 'harness' not in b]
    herr = [b for r in res for b in r['bad'] if 'harness' in b]
    return n, bad, herr, jobs


if __name__ == '__main__':
    t0 = time.time()
    n, bad, herr, jobs = run(int(sys.argv[1]) if len(sys.argv) > 1 else 0, int(sys.argv[2]) if len(sys.argv) > 2 else 8)
    print(n, 'schedules', len(bad), 'bad', len(herr), 'harness errors', '%.1fs' % (time.time() - t0))
    for b in bad[:3]:
        print(b)
    for h in herr[:2]:
        print(h)
