"""Correspondence engine for the child matcher: real XMLElement/XMLChildContainer vs. the Lean
models (Msimple on Tame types; Mfull on all types once ported), plus history generators."""
import itertools
from lib import *


# ---------------------------------------------------------------- generators
def sample_word(tree, rnd, extra=1):
    """a word of the content model: counts between min and max (unbounded: min..min+extra+1)"""
    def rep(mi, ma):
        hi = mi + extra + 1 if ma is None else ma
        r = rnd.random()
        if r < 0.35:
            return mi
        if r < 0.55:
            return min(hi, mi + 1)
        if r < 0.7:
            return hi if ma is not None and ma <= 4 else min(hi, mi + 2)
        return rnd.randint(mi, min(hi, mi + 3))
    k = tree['k']
    out = []
    n = rep(tree['min'], tree['max'])
    for _ in range(n):
        if k == 'e':
            out.append(tree['name'])
        elif k in ('s', 'g'):
            for c in tree['ps']:
                out.extend(sample_word(c, rnd, extra))
        elif k == 'c':
            out.extend(sample_word(rnd.choice(tree['ps']), rnd, extra))
    return out


def gen_history(rnd, tkey, kind, maxlen=10):
    a = ALPHA[tkey]
    hist = []
    live = []
    nid = 1
    if kind in ('word', 'perm', 'worddel', 'worddup'):
        w = sample_word(SPECTREE[tkey], rnd)
        if kind == 'perm':
            rnd.shuffle(w)
        if kind == 'worddel' and w:
            del w[rnd.randrange(len(w))]
        if kind == 'worddup' and w:
            i = rnd.randrange(len(w))
            w.insert(i, w[i] if rnd.random() < 0.6 else rnd.choice(a))
        for n in w[:40]:
            hist.append(('add', nid, n))
            nid += 1
        return hist
    if kind == 'dupfwd':
        # few names, many repetitions, explicit forward= indices, removals: the duplication / pruning machinery
        ls = leaves_of(TREE[tkey])
        rep_names = [n for n in a if ls.count(n) > 1]
        sub = []
        for _ in range(rnd.choice([1, 2, 2, 2, 3])):
            n = rnd.choice(rep_names) if rep_names and rnd.random() < 0.7 else rnd.choice(a)
            if n not in sub:
                sub.append(n)
        for _ in range(rnd.randint(3, 14)):
            r = rnd.random()
            if live and r < 0.2:
                i, n = rnd.choice(live)
                hist.append(('rm', i))
                live.remove((i, n))
            else:
                n = rnd.choice(sub)
                fwd = rnd.choice([0, 1, 1, 1, 2, -1]) if rnd.random() < 0.4 else None
                hist.append(('add', nid, n, fwd) if fwd is not None else ('add', nid, n))
                live.append((nid, n))
                nid += 1
        return hist
    L = rnd.randint(1, maxlen)
    for _ in range(L):
        r = rnd.random()
        if kind == 'addonly' or not live or r < 0.6:
            n = rnd.choice(a)
            fwd = None
            if kind == 'fwd' and rnd.random() < 0.3:
                fwd = rnd.choice([0, 0, 1, -1, 2])
            hist.append(('add', nid, n, fwd) if fwd is not None else ('add', nid, n))
            live.append((nid, n))     # optimistic; rm of a never-added id is a (valid) misuse case
            nid += 1
        elif r < 0.85:
            i, n = rnd.choice(live)
            hist.append(('rm', i))
            live.remove((i, n))
        elif r < 0.95:
            i, n = rnd.choice(live)
            m = n if rnd.random() < 0.8 else rnd.choice(a)
            hist.append(('repl', i, nid, m))
            live.remove((i, n))
            live.append((nid, m))
            nid += 1
        else:
            hist.append(('check', rnd.choice([0, 1])))
    return hist


SPECTREE = {}
for key, tree in SPEC['models'].items():
    SPECTREE[key] = tree


def enum_histories(tkey, maxlen, with_rm=True):
    """all add(/rm-last-k) histories up to maxlen over the alphabet (deterministic corpus)"""
    a = ALPHA[tkey]
    for L in range(0, maxlen + 1):
        for w in itertools.product(a, repeat=L):
            yield [('add', i + 1, n) for i, n in enumerate(w)]


# ---------------------------------------------------------------- execution
def model_lines(drv, inst_id, tkey, hist, chk=True, probe=True, obs_each=True):
    lines = ['new %d %d %d' % (inst_id, ix('T:' + tkey), 1 if chk else 0)]
    for op in hist:
        lines.append(op_line(inst_id, op))
        if obs_each and op[0] not in ('obs', 'check'):
            lines.append('obs %d' % inst_id)
    lines.append('obs %d' % inst_id)
    if probe:
        lines.append('probe %d' % inst_id)
    return lines


def real_lines(tkey, hist, chk=True, probe=True, obs_each=True, cls=None):
    inst = RealInst(tkey, chk, cls)
    out = ['ok']
    for op in hist:
        out.append(apply_real(inst, op))
        if obs_each and op[0] not in ('obs', 'check'):
            out.append(inst.obs())
    out.append(inst.obs())
    if probe:
        out.append(real_probe(tkey, hist, chk, cls))
    return out, inst


def norm_model(line, op_kind=None):
    return line


def op_kinds(hist, probe=True):
    ops = ['new']
    for op in hist:
        ops.append(op[0])
        if op[0] not in ('obs', 'check'):
            ops.append('obs')
    ops.append('obs')
    if probe:
        ops.append('probe')
    return ops


def compare_case(drv, tkey, hist, chk=True, probe=True, cls=None):
    """returns (status, detail). status: agree | disagree-full | disagree-simple.
    The driver answers `<Mfull>|<Msimple or ->`; the real library must equal Mfull on every type
    and Msimple wherever Msimple is defined (Tame types inside its envelope)."""
    ml = drv.ask_many(model_lines(drv, 1, tkey, hist, chk, probe))
    rl, inst = real_lines(tkey, hist, chk, probe, cls=cls)
    ops = op_kinds(hist, probe)
    simple_live = True
    n_simple = 0
    for k, (m, r) in enumerate(zip(ml, rl)):
        f, _, s_ = m.partition('|')
        if f != r:
            return 'disagree-full', (k, ops[k], f, r, ml, rl, inst)
        if s_ == '-':
            simple_live = False
        if simple_live and s_ != '':
            n_simple += 1
            if s_ != r:
                return 'disagree-simple', (k, ops[k], s_, r, ml, rl, inst)
    return 'agree', (ml, rl, inst, simple_live)


if __name__ == '__main__':
    import collections
    seed = int(sys.argv[1]) if len(sys.argv) > 1 else 0
    n = int(sys.argv[2]) if len(sys.argv) > 2 else 20
    types = sys.argv[3].split(',') if len(sys.argv) > 3 else sorted(TREE)
    rnd = random.Random(seed)
    drv = Driver()
    stats = collections.Counter()
    bad = []
    t0 = time.time()
    for tkey in types:
        for it in range(n):
            kind = rnd.choice(['addonly', 'mixed', 'mixed', 'word', 'perm', 'worddel', 'worddup', 'fwd'])
            hist = gen_history(rnd, tkey, kind)
            st, d = compare_case(drv, tkey, hist)
            stats[st] += 1
            if st != 'agree':
                bad.append((tkey, kind, hist, st, d[:4]))
    print(dict(stats), 'in %.1fs' % (time.time() - t0))
    seen = set()
    for b in bad:
        if b[0] in seen:
            continue
        seen.add(b[0])
        print(b)
    print(len(bad), sorted(collections.Counter(b[0] for b in bad).items()))
