"""Whole-element correspondence: real XMLElement trees (values, attributes, nested children,
to_string, deepcopy) vs. the Lean models (Element / Values / Serialize / Mfull) through mxdriver."""
import copy as _copy
from lib import *
from values import enc, SIMPLE, NUMS, STRS, sample_from_pattern, boundary_values
import matcher

ECLS = {c.__name__: c for c in ALL}
ATTRS = {}           # element class name -> list of (attr name, type class name, required) or None when the table is broken
for c in ALL:
    T = c.TYPE
    if T.__name__ in SIMPLE:
        ATTRS[c.__name__] = []
        continue
    row = IMPL['complex_types'].get(T.__name__)
    if not row or 'broken' in row or any('broken' in r for r in row['rows']):
        ATTRS[c.__name__] = None
    else:
        ATTRS[c.__name__] = [(r['name'], r['type_cls'], r['required']) for r in row['rows']]
RESERVED = set(IMPL['properties'])

TEXTS = ['a', 'Allegro', 'x < y & z > w', '"quoted" \'single\'', ' lead', 'trail ', 'two  spaces', 'tab\tin', 'line\nbreak',
         '\U0001d11e clef', 'café ǝ', ']]>', '&amp;', '<tag>', '  ', 'ｆｕｌｌ', 'a&#10;b', 'é', '0', '1.5']

_valid_pool = {}


def valid_values(tname, rnd, k=6):
    """a pool of values the REAL type accepts (found by trying candidates once per type)"""
    if tname in _valid_pool:
        return _valid_pool[tname]
    cls = SIMPLE.get(tname)
    row = IMPL['simple_types'].get(tname, {})
    cands = list(row.get('permitted') or [])[:8] + list(row.get('eff_forced') or [])
    cands += [v for v in boundary_values(row) if not isinstance(v, str)]
    pat = row.get('eff_pattern') or row.get('class_pattern')
    r2 = random.Random(tname)
    if pat:
        for _ in range(6):
            try:
                cands.append(sample_from_pattern(pat, r2))
            except Exception:
                break
    cands += [1, 2, 3, 0, 1.5, 0.25, 10, 4.0, -1, 100] + TEXTS + ['yes', 'no', 'en', 'P1', 'id1', '2000-01-01', '#FF0000']
    ok = []
    for v in cands:
        (s, e), _ = quiet(cls, v) if cls else (('exc', None), '')
        if s == 'ok' and v not in ok:
            ok.append(v)
        if len(ok) >= 14:
            break
    _valid_pool[tname] = ok
    return ok


def value_type_of(cls):
    T = cls.TYPE
    if T.__name__ in SIMPLE:
        return T.__name__
    sc = getattr(T, '_SIMPLE_CONTENT', None)
    return sc.__name__ if sc else None


def pick_value(cls, rnd, valid=True):
    vt = value_type_of(cls)
    if vt is None:
        return ''
    pool = valid_values(vt, rnd)
    if valid and pool:
        return rnd.choice(pool)
    return rnd.choice(NUMS + STRS + TEXTS)


def pick_attrs(cls, rnd, valid=True, n=None):
    tbl = ATTRS.get(cls.__name__)
    if not tbl:
        return []
    out = []
    req = [a for a in tbl if a[2]]
    others = [a for a in tbl if not a[2]]
    chosen = list(req) if valid else []
    chosen += rnd.sample(others, min(len(others), rnd.randint(0, 3) if n is None else n))
    for (an, tn, _) in chosen:
        pool = valid_values(tn, rnd)
        if valid and pool:
            v = rnd.choice(pool)
        else:
            v = rnd.choice(NUMS + STRS)
        key = an.replace('-', '_') if rnd.random() < 0.7 else an
        out.append((key, v))
    return out


def real_exc(e):
    n = type(e).__name__
    if n in DOCUMENTED:
        return 'err:' + DOCUMENTED[n]
    if n in ('TypeError', 'ValueError', 'AttributeError'):
        return 'err:' + n
    return 'err:internal:' + n


class World:
    """real elements addressed by instance ids, driven in lock-step with the model"""
    def __init__(self, drv):
        self.drv = drv
        self.objs = {}
        self.lines = []      # (model line, real result)
        self.printed = ''

    def _m(self, line):
        return self.drv.ask(line)

    def step(self, mline, real):
        m = self._m(mline)
        self.lines.append((mline, m, real))
        return m, real

    def newe(self, i, cls, chk, val, kwargs):
        kw = ' '.join('%s=%s' % (k.encode().hex(), enc(v)) for k, v in kwargs)
        mline = 'newe %d %d %d %s %s' % (i, ix('C:' + cls.__name__), 1 if chk else 0, enc(val), kw)
        (s, e), out = quiet(lambda: cls(val, xsd_check=chk, **dict(kwargs)))
        self.printed += out
        if s == 'ok':
            self.objs[i] = e
            r = 'ok'
        else:
            r = real_exc(e)
        return self.step(mline, r)

    def setval(self, i, val):
        def f():
            self.objs[i].value_ = val
        (s, e), out = quiet(f)
        self.printed += out
        return self.step('setval %d %s' % (i, enc(val)), 'ok' if s == 'ok' else real_exc(e))

    def attr(self, i, key, val):
        (s, e), out = quiet(setattr, self.objs[i], key, val)
        self.printed += out
        return self.step('attr %d %s %s' % (i, key.encode().hex(), enc(val)), 'ok' if s == 'ok' else real_exc(e))

    def getattr_(self, i, key):
        (s, e), out = quiet(getattr, self.objs[i], key)
        r = ('val:' + enc(e)) if s == 'ok' else real_exc(e)
        return self.step('getattr %d %s' % (i, key.encode().hex()), r)

    def attrs(self, i):
        o = self.objs[i]
        r = 'a=' + ';'.join('%s=%s' % (k.encode().hex(), enc(v)) for k, v in o.attributes.items()) + ' v=' + enc(o.value_)
        return self.step('attrs %d' % i, r)

    def add(self, i, j, fwd=None):
        p, c = self.objs[i], self.objs[j]
        (s, e), out = quiet(p.add_child, c) if fwd is None else quiet(p.add_child, c, fwd)
        self.printed += out
        r = 'ok' if s == 'ok' else exc_enum(e, 'add')
        m = self._m('add %d %d %d' % (i, j, ix(c.name)) + ('' if fwd is None else ' %d' % fwd))
        self.lines.append(('add %d %d' % (i, j), m.split('|')[0], r))
        return m.split('|')[0], r

    def rm(self, i, j):
        p, c = self.objs[i], self.objs[j]
        (s, e), out = quiet(p.remove, c)
        r = 'ok' if s == 'ok' else exc_enum(e, 'rm')
        m = self._m('rm %d %d' % (i, j))
        self.lines.append(('rm %d %d' % (i, j), m.split('|')[0], r))
        return m.split('|')[0], r

    def obs(self, i):
        """both child views (ids) and the required-children verdict, as the matcher engine observes them"""
        o = self.objs[i]
        inv = {id(x): k for k, x in self.objs.items()}
        def ids(l):
            return ','.join(str(inv.get(id(c), '?')) for c in l)
        (s, oc), out = quiet(o.get_children)
        if s != 'ok':
            r = 'o=' + exc_enum(oc, 'obs')
        else:
            u = o.get_children(ordered=False)
            if o.xsd_check and o.child_container_tree:
                (s2, rq), out2 = quiet(o.child_container_tree.get_required_element_names, False)
                rs = ','.join(str(x) for x in req_names(rq)) if s2 == 'ok' else exc_enum(rq, 'check')
            else:
                rs = ''
            r = 'o=%s u=%s r=%s' % (ids(oc), ids(u), rs)
        m = self._m('obs %d' % i)
        self.lines.append(('obs %d' % i, m.split('|')[0], r))
        return m.split('|')[0], r

    def repl(self, i, old, new):
        p, o, n = self.objs[i], self.objs[old], self.objs[new]
        (s, e), out = quiet(p.replace_child, o, n)
        r = 'ok' if s == 'ok' else exc_enum(e, 'repl')
        m = self._m('repl %d %d %d %d' % (i, old, new, ix(n.name)))
        self.lines.append(('repl %d %d %d' % (i, old, new), m.split('|')[0], r))
        return m.split('|')[0], r

    def dotx(self, i, key, nid, value=None, inst=None):
        """obj.xml_<x> = value | None | element instance"""
        o = self.objs[i]
        before = list(o.get_children(ordered=False))
        arg = self.objs[inst] if inst is not None else value
        (s, e), out = quiet(setattr, o, key, arg)
        self.printed += out
        if s == 'ok':
            r = 'ok'
            after = o.get_children(ordered=False)
            new = [c for c in after if not any(c is b for b in before)]
            if inst is None and new:
                self.objs[nid] = new[0]
        else:
            n = type(e).__name__
            r = exc_enum(e, 'add') if n in DOCUMENTED else ('err:notAChild' if n == 'ValueError' and False else real_exc(e))
        a = ('inst:%d' % inst) if inst is not None else enc(value)
        return self.step('dotx %d %s %d %s' % (i, key.encode().hex(), nid, a), r)

    def getx(self, i, key):
        (s, e), out = quiet(getattr, self.objs[i], key)
        if s == 'ok':
            if e is None:
                r = 'child:none'
            else:
                inv = {id(x): k for k, x in self.objs.items()}
                r = 'child:%s' % inv.get(id(e), '?')
        else:
            r = real_exc(e)
        return self.step('getx %d %s' % (i, key.encode().hex()), r)

    def tostr(self, i, ic=False):
        (s, e), out = quiet(self.objs[i].to_string, ic)
        self.printed += out
        if s == 'ok':
            r = 'ok:' + e.encode('utf-8', 'surrogatepass').hex()
        else:
            r = real_exc(e)
            if r == 'err:AttributeError':      # only an unknown *dot name* is a documented AttributeError
                r = 'err:internal:AttributeError'
        return self.step('tostr %d %d' % (i, 1 if ic else 0), r)

    def copy(self, i, off):
        (s, e), out = quiet(_copy.deepcopy, self.objs[i])
        self.printed += out
        if s == 'ok':
            inv = {id(o): k for k, o in self.objs.items()}
            def reg(orig, cp):
                self.objs[inv[id(orig)] + off] = cp
                for a, b in zip(orig.get_children(), cp.get_children()):
                    if id(a) in inv:
                        reg(a, b)
            reg(self.objs[i], e)
            r = 'ok'
        else:
            r = real_exc(e) if type(e).__name__ not in DOCUMENTED else 'err:' + DOCUMENTED[type(e).__name__]
        return self.step('copy %d %d' % (i, off), r)

    def disagreements(self):
        out = []
        for (l, m, r) in self.lines:
            if m in ('unmodelled', 'reserved'):
                break            # outside the model envelope: stop comparing this world
            if m != r:
                out.append((l, m, r))
        return out

    def unmodelled(self):
        return sum(1 for (l, m, r) in self.lines if m in ('unmodelled', 'reserved'))


def min_word(tree):
    k = tree['k']
    out = []
    for _ in range(tree['min']):
        if k == 'e':
            out.append(tree['name'])
        elif k in ('s', 'g'):
            for c in tree['ps']:
                out.extend(min_word(c))
        elif k == 'c' and tree['ps']:
            out.extend(min_word(tree['ps'][0]))
    return out


def build_tree(w, rnd, cls, depth, nid, chk=True, valid=True, mixed_chk=False):
    """create element `cls` with value/attributes, then children for a word of its content model,
    recursively. nid: mutable [next id]. Returns instance id or None when construction failed."""
    i = nid[0]; nid[0] += 1
    val = pick_value(cls, rnd, valid)
    kwargs = pick_attrs(cls, rnd, valid)
    this_chk = chk if not mixed_chk else (rnd.random() < 0.8)
    m, r = w.newe(i, cls, this_chk, val, kwargs)
    if r != 'ok':
        return None
    T = cls.TYPE
    if not this_chk and rnd.random() < 0.5:
        # an unchecked element takes any element as a child, in any number and order
        for _ in range(rnd.randint(1, 3)):
            ccls = rnd.choice(ALL)
            j = build_tree(w, rnd, ccls, 0, nid, chk, valid, False) if depth >= 0 else None
            if j is not None:
                w.add(i, j)
        return i
    if T.__name__ in containers:
        tkey = type_key(T)
        tree = matcher.SPECTREE.get(tkey)
        if tree is not None:
            word = matcher.sample_word(tree, rnd, extra=0) if depth > 0 else min_word(tree)
            for n in word[:6 if depth > 0 else 12]:
                if n not in BY_NAME:
                    continue
                j = build_tree(w, rnd, BY_NAME[n], depth - 1, nid, chk, valid, mixed_chk)
                if j is not None:
                    w.add(i, j)
    return i


def doc_case(drv, rnd, cls=None, depth=2, mixed_chk=False, mutate=True, copy=False, dots=True, roots=1):
    """one generated document + a few mutations + serialisations; returns the World"""
    w = World(drv)
    cls = cls or rnd.choice(ALL)
    nid = [1]
    root = build_tree(w, rnd, cls, depth, nid, True, True, mixed_chk)
    if root is None:
        return w
    w.tostr(root)
    others = []
    for _ in range(roots - 1):
        # further, independent documents in the same process: same class or another one; their
        # operations are interleaved with those on the first (isolation, C13)
        c2 = cls if rnd.random() < 0.5 else rnd.choice(ALL)
        r2 = build_tree(w, rnd, c2, max(0, depth - 1), nid, True, True, mixed_chk)
        if r2 is not None:
            others.append(r2)
    ids = list(w.objs)
    if mutate:
        for _ in range(rnd.randint(1, 6)):
            i = rnd.choice(ids)
            o = w.objs[i]
            r = rnd.random()
            if r < 0.35:
                tbl = ATTRS.get(type(o).__name__)
                if tbl:
                    an, tn, _ = rnd.choice(tbl)
                    pool = valid_values(tn, rnd)
                    v = rnd.choice([None] + (pool or [1]) + [rnd.choice(NUMS + STRS)])
                    w.attr(i, an.replace('-', '_'), v)
                else:
                    w.attr(i, rnd.choice(['font_size', 'id', 'foo', 'number']), rnd.choice([1, 'a', None]))
            elif r < 0.5:
                w.setval(i, pick_value(type(o), rnd, rnd.random() < 0.7))
            elif r < 0.6 and o.get_children(ordered=False):
                ch = rnd.choice(o.get_children(ordered=False))
                inv = {id(x): k for k, x in w.objs.items()}
                if id(ch) in inv:
                    w.rm(i, inv[id(ch)])
            elif r < 0.66 and o.get_children(ordered=False):
                ch = rnd.choice(o.get_children(ordered=False))
                inv = {id(x): k for k, x in w.objs.items()}
                if id(ch) in inv:
                    j = nid[0]; nid[0] += 1
                    ncls = type(ch) if rnd.random() < 0.85 else rnd.choice(ALL)
                    m0, r0 = w.newe(j, ncls, True, pick_value(ncls, rnd, True), pick_attrs(ncls, rnd, True, 0))
                    if r0 == 'ok' and m0 == 'ok':
                        w.repl(i, inv[id(ch)], j)
                        w.obs(i)
                        ids[:] = list(w.objs)
            elif r < 0.7:
                tbl = ATTRS.get(type(o).__name__)
                if tbl:
                    w.getattr_(i, rnd.choice(tbl)[0].replace('-', '_'))
            elif r < 0.85 and dots and type(o).TYPE.__name__ in containers:
                names = ALPHA[type_key(type(o).TYPE)]
                cn = rnd.choice(names + ['foo', 'level']) if rnd.random() < 0.9 else 'note'
                key = 'xml_' + cn.replace('-', '_')
                ccls = BY_NAME.get(cn)
                q = rnd.random()
                nid[0] += 2
                fresh1, fresh2 = nid[0] - 1, nid[0] - 2
                if q < 0.2:
                    w.dotx(i, key, fresh1, None)
                elif q < 0.5 and ccls is not None:
                    m0, r0 = w.newe(fresh2, ccls, True, pick_value(ccls, rnd, True), [])
                    if r0 == 'ok' and m0 == 'ok':
                        w.dotx(i, key, fresh1, inst=fresh2)
                elif q < 0.6:
                    w.getx(i, key)
                else:
                    v = pick_value(ccls, rnd, rnd.random() < 0.8) if ccls is not None else 1
                    w.dotx(i, key, fresh1, v)
                w.obs(i)
                ids[:] = list(w.objs)
            else:
                w.tostr(i, rnd.random() < 0.2)
        w.tostr(root)
        w.tostr(root)
        for r2 in others:
            w.tostr(r2)
        w.attrs(rnd.choice(ids))
    if copy:
        m, r = w.copy(root, 100000)
        if r == 'ok' and m == 'ok':
            w.tostr(root + 100000)
            both = [k for k in w.objs if k < 100000] + [k for k in w.objs if k >= 100000]
            for _ in range(rnd.randint(1, 4)):
                i = rnd.choice(both)
                o = w.objs[i]
                tbl = ATTRS.get(type(o).__name__)
                r0 = rnd.random()
                if tbl and r0 < 0.6:
                    an, tn, _ = rnd.choice(tbl)
                    pool = valid_values(tn, rnd)
                    w.attr(i, an.replace('-', '_'), rnd.choice([None, None] + (pool or [1])))
                elif r0 < 0.8:
                    w.setval(i, pick_value(type(o), rnd, True))
                elif o.get_children(ordered=False):
                    ch = rnd.choice(o.get_children(ordered=False))
                    inv = {id(x): k for k, x in w.objs.items()}
                    if id(ch) in inv:
                        w.rm(i, inv[id(ch)])
            w.tostr(root)
            w.tostr(root + 100000)
    return w


if __name__ == '__main__':
    seed = int(sys.argv[1]) if len(sys.argv) > 1 else 0
    n = int(sys.argv[2]) if len(sys.argv) > 2 else 100
    rnd = random.Random(seed)
    drv = Driver()
    tot = dis = unm = 0
    t0 = time.time()
    shown = 0
    import collections
    res = collections.Counter()
    for k in range(n):
        w = doc_case(drv, rnd, depth=rnd.choice([0, 1, 2]), mixed_chk=rnd.random() < 0.2)
        tot += len(w.lines); unm += w.unmodelled()
        for (l, m, r) in w.lines:
            res[r.split(':')[0] + (':' + r.split(':')[1] if r.startswith('err') else '')] += 1
        d = w.disagreements()
        if d:
            dis += 1
            if shown < 12:
                shown += 1
                print('DIS', [(l[:80], m[:120], r[:120]) for l, m, r in d[:2]])
    print(n, 'docs', tot, 'lines', dis, 'docs with disagreement', unm, 'unmodelled', dict(res), '%.1fs' % (time.time() - t0))
