"""Whole-element correspondence: real XMLElement trees (values, attributes, nested children,
to_string, deepcopy) vs. the Lean models (Element / Values / Serialize / Mfull) through mxdriver."""
import copy as _copy
from lib import *
from values import enc, SIMPLE, NUMS, STRS, sample_from_pattern, boundary_values
import matcher

ECLS = {c.__name__: c for c in ALL}
ATTRS = {}           # element class name -> list of (attr name, type class name, required) or None when the table is broken
for c in ALL:
    T = c.TYPE
    if T.__name__ in SIMPLE:
        ATTRS[c.__name__] = []
        continue
    row = IMPL['complex_types'].get(T.__name__)
    if not row or 'broken' in row or any('broken' in r for r in row['rows']):
        ATTRS[c.__name__] = None
    else:
        ATTRS[c.__name__] = [(r['name'], r['type_cls'], r['required']) for r in row['rows']]
RESERVED = set(IMPL['properties'])

TEXTS = ['a', 'Allegro', 'x < y & z > w', '"quoted" \'single\'', ' lead', 'trail ', 'two  spaces', 'tab\tin', 'line\nbreak',
         '\U0001d11e clef', 'café ǝ', ']]>', '&amp;', '<tag>', '  ', 'ｆｕｌｌ', 'a&#10;b', 'é', '0', '1.5',
         'ls\u2028sep', 'ps\u2029sep', 'nel\x85x', '\ufeffbom', 'zw\u200bsp', 'nb\u00a0sp', 'soft\xadhy', 'x\u2028', '\u2029',
         '\u00a0lead', 'trail\u2003', '\u3000both\u00a0', '\u00a0']

_valid_pool = {}


def valid_values(tname, rnd, k=6):
    """a pool of values the REAL type accepts (found by trying candidates once per type)"""
    if tname in _valid_pool:
        return _valid_pool[tname]
    cls = SIMPLE.get(tname)
    row = IMPL['simple_types'].get(tname, {})
    cands = list(row.get('permitted') or [])[:8] + list(row.get('eff_forced') or [])
    cands += [v for v in boundary_values(row) if not isinstance(v, str)]
    pat = row.get('eff_pattern') or row.get('class_pattern')
    r2 = random.Random(tname)
    if pat:
        for _ in range(6):
            try:
                cands.append(sample_from_pattern(pat, r2))
            except Exception:
                break
    cands += [1, 2, 3, 0, 1.5, 0.25, 10, 4.0, -1, 100] + TEXTS + ['yes', 'no', 'en', 'P1', 'id1', '2000-01-01', '#FF0000']
    ok = []
    for v in cands:
        (s, e), _ = quiet(cls, v) if cls else (('exc', None), '')
        if s == 'ok' and v not in ok:
            ok.append(v)
        if len(ok) >= 60:
            break
    _valid_pool[tname] = ok
    return ok


def value_type_of(cls):
    T = cls.TYPE
    if T.__name__ in SIMPLE:
        return T.__name__
    sc = getattr(T, '_SIMPLE_CONTENT', None)
    return sc.__name__ if sc else None


WS = ['\u00a0', '\x0b', '\x0c', '\u2003', '\u2009', '\u3000', '\x1f', '\x85', '\t', '\n', '\r', '  ']


def near(v, rnd):
    """a value one small edit away from an accepted one (where hand-written validators go wrong)"""
    if isinstance(v, bool):
        return rnd.choice([0, 1, 'true', str(v)])
    if isinstance(v, int):
        return rnd.choice([v + 1, v - 1, float(v), str(v), v + 0.5, -v, ' %d ' % v, v * 1000])
    if isinstance(v, float) and (v != v or abs(v) == float('inf')):
        return rnd.choice([0.0, str(v), -v])
    if isinstance(v, float):
        return rnd.choice([int(v), v + 1e-9, -v, str(v), v * 1e20, v / 1e9])
    if isinstance(v, str) and v:
        k = rnd.randrange(len(v))
        r = rnd.random()
        if r < 0.25 and ' ' in v:
            j = v.index(' ')
            return v[:j] + rnd.choice(WS) + v[j + 1:]
        if r < 0.45:
            return v[:k] + rnd.choice(WS) + v[k:]
        if r < 0.55:
            return rnd.choice(WS) + v + rnd.choice(WS)
        if r < 0.65:
            return v.upper() if v != v.upper() else v.lower()
        if r < 0.75:
            return v[:k] + v[k + 1:]
        if r < 0.85:
            return v + rnd.choice('0aZ-: ,')
        if r < 0.93:
            return '0' + v
        return v + v
    return v


def twin(v):
    """a value that compares equal to v but is of another Python type (1 / 1.0 / True), else None"""
    if isinstance(v, bool):
        return int(v)
    if isinstance(v, int) and abs(v) < 10 ** 15:
        return float(v)
    if isinstance(v, float) and v == v and abs(v) < 10 ** 15 and v == int(v):
        return int(v)
    return None


def pick_value(cls, rnd, valid=True):
    vt = value_type_of(cls)
    if vt is None:
        return ''
    pool = valid_values(vt, rnd)
    if valid and pool:
        return rnd.choice(pool)
    if pool and rnd.random() < 0.4:
        return near(rnd.choice(pool), rnd)
    return rnd.choice(NUMS + STRS + TEXTS)


def pick_attrs(cls, rnd, valid=True, n=None):
    tbl = ATTRS.get(cls.__name__)
    if not tbl:
        return []
    out = []
    req = [a for a in tbl if a[2]]
    others = [a for a in tbl if not a[2]]
    chosen = list(req) if valid else []
    chosen += rnd.sample(others, min(len(others), rnd.randint(0, 3) if n is None else n))
    for (an, tn, _) in chosen:
        pool = valid_values(tn, rnd)
        if valid and pool:
            v = rnd.choice(pool)
        elif pool and rnd.random() < 0.4:
            v = near(rnd.choice(pool), rnd)
        else:
            v = rnd.choice(NUMS + STRS)
        key = an.replace('-', '_') if rnd.random() < 0.7 else an
        out.append((key, v))
    return out


def real_exc(e):
    n = type(e).__name__
    if n in DOCUMENTED:
        return 'err:' + DOCUMENTED[n]
    if n in ('TypeError', 'ValueError', 'AttributeError'):
        return 'err:' + n
    return 'err:internal:' + n


class World:
    """real elements addressed by instance ids, driven in lock-step with the model"""
    def __init__(self, drv):
        self.drv = drv
        self.objs = {}
        self.lines = []      # (model line, real result)
        self.printed = ''

    def _m(self, line):
        # after the first disagreement the two sides are in different states: nothing further is sent to the
        # model (its state could even become cyclic), the rest of the document is not compared
        if getattr(self, 'dead', False):
            return 'dead'
        return self.drv.ask(line)

    def _note(self, m, r):
        if m != r and m not in ('unmodelled', 'reserved', 'dead'):
            self.dead = True

    def step(self, mline, real):
        m = self._m(mline)
        if m != 'dead':
            self.lines.append((mline, m, real))
            self._note(m, real)
        return m, real

    def newe(self, i, cls, chk, val, kwargs):
        kw = ' '.join('%s=%s' % (k.encode().hex(), enc(v)) for k, v in kwargs)
        mline = 'newe %d %d %d %s %s' % (i, ix('C:' + cls.__name__), 1 if chk else 0, enc(val), kw)
        (s, e), out = quiet(lambda: cls(val, xsd_check=chk, **dict(kwargs)))
        self.printed += out
        if s == 'ok':
            self.objs[i] = e
            r = 'ok'
        else:
            r = real_exc(e)
        return self.step(mline, r)

    def setval(self, i, val):
        def f():
            self.objs[i].value_ = val
        (s, e), out = quiet(f)
        self.printed += out
        return self.step('setval %d %s' % (i, enc(val)), 'ok' if s == 'ok' else real_exc(e))

    def attr(self, i, key, val):
        (s, e), out = quiet(setattr, self.objs[i], key, val)
        self.printed += out
        return self.step('attr %d %s %s' % (i, key.encode().hex(), enc(val)), 'ok' if s == 'ok' else real_exc(e))

    def getattr_(self, i, key):
        (s, e), out = quiet(getattr, self.objs[i], key)
        r = ('val:' + enc(e)) if s == 'ok' else real_exc(e)
        return self.step('getattr %d %s' % (i, key.encode().hex()), r)

    def attrs(self, i):
        o = self.objs[i]
        r = 'a=' + ';'.join('%s=%s' % (k.encode().hex(), enc(v)) for k, v in o.attributes.items()) + ' v=' + enc(o.value_)
        return self.step('attrs %d' % i, r)

    def add(self, i, j, fwd=None):
        p, c = self.objs[i], self.objs[j]
        (s, e), out = quiet(p.add_child, c) if fwd is None else quiet(p.add_child, c, fwd)
        self.printed += out
        r = 'ok' if s == 'ok' else exc_enum(e, 'add')
        m = self._m('add %d %d %d' % (i, j, ix(c.name)) + ('' if fwd is None else ' %d' % fwd))
        if m != 'dead':
            self.lines.append(('add %d %d' % (i, j), m.split('|')[0], r))
            self._note(m.split('|')[0], r)
        return m.split('|')[0], r

    def setchk(self, i, b):
        self.objs[i].xsd_check = b
        return self.step('setchk %d %d' % (i, 1 if b else 0), 'ok')

    def below(self, j):
        """ids of the objects reachable from j through either child list (cycle guard)"""
        inv = {id(x): k for k, x in self.objs.items()}
        seen, todo = set(), [self.objs[j]]
        while todo:
            o = todo.pop()
            if id(o) in seen:
                continue
            seen.add(id(o))
            todo += list(o._unordered_children)
            t = o._child_container_tree
            if t is not None:
                todo += [x for leaf in t.iterate_leaves() for x in (leaf.content.xml_elements or [])]
        return {inv[k] for k in seen if k in inv}

    def rm(self, i, j):
        p, c = self.objs[i], self.objs[j]
        (s, e), out = quiet(p.remove, c)
        r = 'ok' if s == 'ok' else exc_enum(e, 'rm')
        m = self._m('rm %d %d' % (i, j))
        if m != 'dead':
            self.lines.append(('rm %d %d' % (i, j), m.split('|')[0], r))
            self._note(m.split('|')[0], r)
        return m.split('|')[0], r

    def obs(self, i):
        """both child views (ids) and the required-children verdict, as the matcher engine observes them"""
        o = self.objs[i]
        inv = {id(x): k for k, x in self.objs.items()}
        def ids(l):
            return ','.join(str(inv.get(id(c), '?')) for c in l)
        (s, oc), out = quiet(o.get_children)
        if s != 'ok':
            r = 'o=' + exc_enum(oc, 'obs')
        else:
            u = o.get_children(ordered=False)
            if o.xsd_check and o.child_container_tree:
                (s2, rq), out2 = quiet(o.child_container_tree.get_required_element_names, False)
                rs = ','.join(str(x) for x in req_names(rq)) if s2 == 'ok' else exc_enum(rq, 'check')
            else:
                rs = ''
            r = 'o=%s u=%s r=%s' % (ids(oc), ids(u), rs)
        m = self._m('obs %d' % i)
        if m != 'dead':
            self.lines.append(('obs %d' % i, m.split('|')[0], r))
            self._note(m.split('|')[0], r)
        return m.split('|')[0], r

    def repl(self, i, old, new):
        p, o, n = self.objs[i], self.objs[old], self.objs[new]
        (s, e), out = quiet(p.replace_child, o, n)
        r = 'ok' if s == 'ok' else exc_enum(e, 'repl')
        m = self._m('repl %d %d %d %d' % (i, old, new, ix(n.name)))
        if m != 'dead':
            self.lines.append(('repl %d %d %d' % (i, old, new), m.split('|')[0], r))
            self._note(m.split('|')[0], r)
        return m.split('|')[0], r

    def replx(self, i, sel_name, index, new):
        """replace_child(callable, new, index): sel_name None = every child matches"""
        p, n = self.objs[i], self.objs[new]
        f = (lambda ch: True) if sel_name is None else (lambda ch: ch.name == sel_name)
        (s, e), out = quiet(p.replace_child, f, n, index)
        r = 'ok' if s == 'ok' else exc_enum(e, 'repl')
        m = self._m('replx %d %s %d %d %d' % (i, '*' if sel_name is None else str(ix(sel_name)), index, new, ix(n.name)))
        if m != 'dead':
            self.lines.append(('replx %d %s %d %d' % (i, sel_name, index, new), m, r))
            self._note(m, r)
        return m, r

    def dotx(self, i, key, nid, value=None, inst=None):
        """obj.xml_<x> = value | None | element instance"""
        o = self.objs[i]
        before = list(o.get_children(ordered=False))
        arg = self.objs[inst] if inst is not None else value
        (s, e), out = quiet(setattr, o, key, arg)
        self.printed += out
        if s == 'ok':
            r = 'ok'
            after = o.get_children(ordered=False)
            new = [c for c in after if not any(c is b for b in before)]
            if inst is None and new:
                self.objs[nid] = new[0]
        else:
            n = type(e).__name__
            import traceback as _tb
            frames = [f.name for f in _tb.extract_tb(e.__traceback__)]
            structural = n == 'ValueError' and frames and frames[-1] in ('replace_child', 'remove')
            r = exc_enum(e, 'add') if n in DOCUMENTED else ('err:notAChild' if structural else real_exc(e))
            if n == 'AttributeError' and ('remove' in frames or 'replace_child' in frames):
                r = 'err:internal:AttributeError'     # not the documented unknown-name error: a None leaf pointer
        a = ('inst:%d' % inst) if inst is not None else enc(value)
        return self.step('dotx %d %s %d %s' % (i, key.encode().hex(), nid, a), r)

    def getx(self, i, key):
        (s, e), out = quiet(getattr, self.objs[i], key)
        if s == 'ok':
            if e is None:
                r = 'child:none'
            else:
                inv = {id(x): k for k, x in self.objs.items()}
                r = 'child:%s' % inv.get(id(e), '?')
        else:
            r = real_exc(e)
        return self.step('getx %d %s' % (i, key.encode().hex()), r)

    def tostr(self, i, ic=False):
        (s, e), out = quiet(self.objs[i].to_string, ic)
        self.printed += out
        if s == 'ok':
            r = 'ok:' + e.encode('utf-8', 'surrogatepass').hex()
        else:
            r = real_exc(e)
            if r == 'err:AttributeError':      # only an unknown *dot name* is a documented AttributeError
                r = 'err:internal:AttributeError'
        return self.step('tostr %d %d' % (i, 1 if ic else 0), r)

    def copy(self, i, off):
        (s, e), out = quiet(_copy.deepcopy, self.objs[i])
        self.printed += out
        if s == 'ok':
            inv = {id(o): k for k, o in self.objs.items()}
            def reg(orig, cp):
                self.objs[inv[id(orig)] + off] = cp
                # __deepcopy__ re-adds the copies in the original's ordered view: the copy's insertion order is that order
                for a, b in zip(orig.get_children(), cp.get_children(ordered=False)):
                    if id(a) in inv:
                        reg(a, b)
            reg(self.objs[i], e)
            r = 'ok'
        else:
            r = real_exc(e) if type(e).__name__ not in DOCUMENTED else 'err:' + DOCUMENTED[type(e).__name__]
        return self.step('copy %d %d' % (i, off), r)

    def disagreements(self):
        out = []
        for (l, m, r) in self.lines:
            if m in ('unmodelled', 'reserved'):
                break            # outside the model envelope: stop comparing this world
            if m != r:
                out.append((l, m, r))
        return out

    def unmodelled(self):
        return sum(1 for (l, m, r) in self.lines if m in ('unmodelled', 'reserved'))


def min_word(tree):
    k = tree['k']
    out = []
    for _ in range(tree['min']):
        if k == 'e':
            out.append(tree['name'])
        elif k in ('s', 'g'):
            for c in tree['ps']:
                out.extend(min_word(c))
        elif k == 'c' and tree['ps']:
            out.extend(min_word(tree['ps'][0]))
    return out


def build_tree(w, rnd, cls, depth, nid, chk=True, valid=True, mixed_chk=False):
    """create element `cls` with value/attributes, then children for a word of its content model,
    recursively. nid: mutable [next id]. Returns instance id or None when construction failed."""
    i = nid[0]; nid[0] += 1
    val = pick_value(cls, rnd, valid)
    kwargs = pick_attrs(cls, rnd, valid)
    this_chk = chk if not mixed_chk else (rnd.random() < 0.8)
    m, r = w.newe(i, cls, this_chk, val, kwargs)
    if r != 'ok':
        return None
    T = cls.TYPE
    if not this_chk and rnd.random() < 0.5:
        # an unchecked element takes any element as a child, in any number and order
        for _ in range(rnd.randint(1, 3)):
            ccls = rnd.choice(ALL)
            j = build_tree(w, rnd, ccls, 0, nid, chk, valid, False) if depth >= 0 else None
            if j is not None:
                w.add(i, j)
        return i
    if T.__name__ in containers:
        tkey = type_key(T)
        tree = matcher.SPECTREE.get(tkey)
        if tree is not None:
            word = matcher.sample_word(tree, rnd, extra=0) if depth > 0 else min_word(tree)
            for n in word[:6 if depth > 0 else 12]:
                if n not in BY_NAME:
                    continue
                j = build_tree(w, rnd, BY_NAME[n], depth - 1, nid, chk, valid, mixed_chk)
                if j is not None:
                    w.add(i, j, rnd.choice([0, 1, 1, -1, 2]) if rnd.random() < 0.06 else None)
    return i


def _repeated(k):
    ls = leaves_of(TREE[k])
    return [n for n in ALPHA[k] if ls.count(n) > 1]


REPEATED = {k: _repeated(k) for k in TREE}
# element classes whose content model is outside the Slotted class or repeats a leaf name: the
# histories that matter (forward=, intelligent choice, duplication) only exist there
HARD = [c for k in TREE if k in CLASSES_OF and (CLASS_OF_TYPE[k] == 'wild' or REPEATED[k]) for c in CLASSES_OF[k]]


# ---- twin documents: the same element class twice in one document, holding values of different kinds
def _leaf_flags(tree, rep=False, out=None):
    out = [] if out is None else out
    r = rep or tree.get('max') is None or (tree.get('max') or 1) > 1
    if tree['k'] == 'e':
        out.append((tree['name'], r))
    else:
        for c in tree.get('ps', []):
            _leaf_flags(c, r, out)
    return out


PARENTS_OF = {}      # child element name -> [(parent class, the child can occur more than once in it)]
for _k, _t in TREE.items():
    for _n, _r in _leaf_flags(_t):
        for _c in CLASSES_OF.get(_k, []):
            PARENTS_OF.setdefault(_n, []).append((_c, _r))
_twin_memo = {}


def twin_context(cls, depth=3):
    """(ancestor class A, chain of classes from A's child down to cls) such that the chain's head can occur
    twice under A; None when there is none within `depth` levels"""
    key = (cls, depth)
    if key in _twin_memo:
        return _twin_memo[key]
    res = None
    frontier = [[cls]]
    for _ in range(depth):
        nxt = []
        for chain in frontier:
            for (P, rep) in PARENTS_OF.get(chain[0].XSD_TREE.name, []):
                if rep:
                    res = (P, chain)
                    break
                if P not in chain:
                    nxt.append([P] + chain)
            if res:
                break
        if res:
            break
        frontier = nxt[:200]
    _twin_memo[key] = res
    return res


def value_kind(v):
    return 'empty' if v == '' else type(v).__name__


VALUE_CLASSES = [c for c in ALL if value_type_of(c)]


def twin_case(w, rnd, nid):
    """returns the id of a document in which one simple-content class occurs twice with values of different
    kinds ('' / str / int / float), or None"""
    for _ in range(6):
        cls = rnd.choice(VALUE_CLASSES)
        pool = valid_values(value_type_of(cls), rnd)
        kinds = {}
        for v in pool:
            kinds.setdefault(value_kind(v), []).append(v)
        ctx = twin_context(cls)
        if ctx and len(kinds) >= 2:
            break
    else:
        return None
    A, chain = ctx
    k1, k2 = rnd.sample(sorted(kinds), 2)
    vals = [rnd.choice(kinds[k1]), rnd.choice(kinds[k2])]
    if rnd.random() < 0.3:
        vals.append(rnd.choice(kinds[k1]))
    a = build_tree(w, rnd, A, 0, nid, True, True, False)
    if a is None:
        return None
    for v in vals:
        ids = []
        for c in chain[:-1]:
            j = build_tree(w, rnd, c, 0, nid, True, True, False)
            if j is None:
                return a
            ids.append(j)
        j = nid[0]; nid[0] += 1
        m, r = w.newe(j, chain[-1], True, v, pick_attrs(chain[-1], rnd, True, 0))
        if r != 'ok':
            return a
        ids.append(j)
        for x, y in zip(reversed(ids[:-1]), reversed(ids[1:])):
            w.add(x, y)
        w.add(a, ids[0])
    return a


REPEATED_CLASSES = [c for k in TREE if k in CLASSES_OF and REPEATED[k] for c in CLASSES_OF[k]]


def scratch_case(w, rnd, nid):
    """an empty element of a hard content model, a few same-name adds (explicit forward= indices included),
    then the shortcut surface on one of those names, compared with the explicit one through the model"""
    cls = rnd.choice(REPEATED_CLASSES if REPEATED_CLASSES and rnd.random() < 0.6 else HARD)
    k = type_key(cls.TYPE)
    i = nid[0]; nid[0] += 1
    m, r = w.newe(i, cls, True, pick_value(cls, rnd, True), pick_attrs(cls, rnd, True))
    if r != 'ok' or m != 'ok':
        return
    names = REPEATED.get(k) or ALPHA[k]
    sub = [rnd.choice(names) for _ in range(rnd.choice([1, 1, 2]))]
    for _ in range(rnd.randint(2, 5)):
        cn = rnd.choice(sub)
        ccls = BY_NAME.get(cn)
        if ccls is None:
            continue
        j = nid[0]; nid[0] += 1
        m0, r0 = w.newe(j, ccls, True, pick_value(ccls, rnd, True), pick_attrs(ccls, rnd, True, 0))
        if r0 == 'ok' and m0 == 'ok':
            w.add(i, j, rnd.choice([None, None, 0, 1, 1, 2, -1]))
    w.obs(i)
    for _ in range(rnd.randint(1, 3)):
        cn = rnd.choice(sub)
        ccls = BY_NAME.get(cn)
        if ccls is None:
            continue
        key = 'xml_' + cn.replace('-', '_')
        nid[0] += 2
        q = rnd.random()
        if q < 0.45:
            v = pick_value(ccls, rnd, True)
            w.dotx(i, key, nid[0] - 1, v)
            if twin(v) is not None and rnd.random() < 0.5:
                nid[0] += 1
                w.dotx(i, key, nid[0] - 1, twin(v))
        elif q < 0.7:
            m1, r1 = w.newe(nid[0] - 2, ccls, True, pick_value(ccls, rnd, True), [])
            if r1 == 'ok' and m1 == 'ok':
                w.dotx(i, key, nid[0] - 1, inst=nid[0] - 2)
        elif q < 0.85:
            w.dotx(i, key, nid[0] - 1, None)
        w.getx(i, key)
        w.obs(i)
        w.tostr(i, rnd.random() < 0.3)


def doc_case(drv, rnd, cls=None, depth=2, mixed_chk=False, mutate=True, copy=False, dots=True, roots=1, reuse=False, sandwich=False, scratch=False, twins=False):
    """one generated document + a few mutations + serialisations; returns the World"""
    w = World(drv)
    cls = cls or rnd.choice(ALL)
    nid = [1]
    if scratch:
        nid = [50000]
        scratch_case(w, rnd, nid)
        nid = [1]
    root = build_tree(w, rnd, cls, depth, nid, True, True, mixed_chk)
    if root is None:
        return w
    w.tostr(root)
    if sandwich and type(w.objs[root]).TYPE.__name__ in containers:
        # checked root > unchecked middle > checked element of a hard content model holding a short word:
        # the unchecked node must be transparent for the final checks (with and without intelligent choice)
        k = type_key(type(w.objs[root]).TYPE)
        mcls = BY_NAME.get(rnd.choice(ALPHA[k]))
        bcls = rnd.choice(HARD)
        if mcls is not None:
            mid = nid[0]; nid[0] += 1
            m0, r0 = w.newe(mid, mcls, False, pick_value(mcls, rnd, True), pick_attrs(mcls, rnd, True, 0))
            bot = nid[0]; nid[0] += 1
            m1, r1 = w.newe(bot, bcls, True, pick_value(bcls, rnd, True), pick_attrs(bcls, rnd, True))
            if r0 == 'ok' and r1 == 'ok':
                word = matcher.sample_word(matcher.SPECTREE[type_key(bcls.TYPE)], rnd, extra=0)[:4]
                if rnd.random() < 0.3 and word:
                    del word[rnd.randrange(len(word))]
                for n in word:
                    if n in BY_NAME:
                        j = build_tree(w, rnd, BY_NAME[n], 0, nid, True, True, False)
                        if j is not None:
                            w.add(bot, j)
                w.add(mid, bot)
                w.add(root, mid)
                ic = rnd.random() < 0.7
                w.tostr(bot, ic)
                w.tostr(root, ic)
                w.tostr(root, not ic)
    others = []
    for _ in range(roots - 1):
        # further, independent documents in the same process: same class or another one; their
        # operations are interleaved with those on the first (isolation, C13)
        c2 = cls if rnd.random() < 0.5 else rnd.choice(ALL)
        r2 = build_tree(w, rnd, c2, max(0, depth - 1), nid, True, True, mixed_chk)
        if r2 is not None:
            others.append(r2)
    if twins:
        nid2 = [max(nid[0], 20000)]
        t = twin_case(w, rnd, nid2)
        if t is not None:
            w.tostr(t)
            others.append(t)
    ids = list(w.objs)
    detached = []
    if mutate:
        for _ in range(rnd.randint(1, 6) if not reuse else rnd.randint(3, 10)):
            i = rnd.choice(ids)
            o = w.objs[i]
            r = rnd.random()
            if r < 0.1 and o.attributes:
                # an attribute that is already set: same number in the other numeric type, removed and set again, near value
                an = rnd.choice(list(o.attributes))
                v = o.attributes[an]
                q = rnd.random()
                if q < 0.35 and isinstance(v, (int, float)) and not isinstance(v, bool) and v == v and abs(v) < 1e15:
                    w.attr(i, an.replace('-', '_'), float(v) if isinstance(v, int) else (int(v) if v == int(v) else v))
                elif q < 0.7:
                    w.attr(i, an.replace('-', '_'), None)
                    w.attr(i, an.replace('-', '_'), v)
                else:
                    w.attr(i, an.replace('-', '_'), near(v, rnd))
            elif r < 0.35:
                tbl = ATTRS.get(type(o).__name__)
                if tbl and rnd.random() < 0.15:
                    # a name declared for some other element class: must be refused here (tables do not leak into each other)
                    other = ATTRS.get(rnd.choice(ALL).__name__) or tbl
                    an, tn, _ = rnd.choice(other)
                    pool = valid_values(tn, rnd)
                    w.attr(i, an.replace('-', '_'), rnd.choice(pool) if pool else 'x')
                    w.getattr_(i, an.replace('-', '_'))
                elif tbl:
                    an, tn, _ = rnd.choice(tbl)
                    pool = valid_values(tn, rnd)
                    v = rnd.choice([None] + (pool or [1]) + [rnd.choice(NUMS + STRS)] + ([near(rnd.choice(pool), rnd)] * 3 if pool else []))
                    w.attr(i, an.replace('-', '_'), v)
                else:
                    w.attr(i, rnd.choice(['font_size', 'id', 'foo', 'number']), rnd.choice([1, 'a', None]))
            elif r < 0.5:
                v = pick_value(type(o), rnd, rnd.random() < 0.7)
                w.setval(i, v)
                if twin(v) is not None and rnd.random() < 0.4:
                    w.setval(i, twin(v))
                    w.tostr(i)
            elif r < 0.6 and o.get_children(ordered=False):
                ch = rnd.choice(o.get_children(ordered=False))
                inv = {id(x): k for k, x in w.objs.items()}
                if id(ch) in inv:
                    m0, r0 = w.rm(i, inv[id(ch)])
                    if r0 == 'ok':
                        detached.append(inv[id(ch)])
            elif r < 0.66 and o.get_children(ordered=False):
                ch = rnd.choice(o.get_children(ordered=False))
                inv = {id(x): k for k, x in w.objs.items()}
                if id(ch) in inv and rnd.random() < 0.12:
                    # replaced by itself (what `e.xml_x = e.xml_x` does), then used further
                    w.repl(i, inv[id(ch)], inv[id(ch)])
                    w.obs(i)
                    if rnd.random() < 0.6:
                        w.rm(i, inv[id(ch)])
                        w.obs(i)
                elif id(ch) in inv and rnd.random() < 0.3:
                    # the selector form: replace_child(callable, new, index)
                    j = nid[0]; nid[0] += 1
                    kids = o.get_children(ordered=False)
                    ncls = type(rnd.choice(kids)) if rnd.random() < 0.9 else rnd.choice(ALL)
                    m0, r0 = w.newe(j, ncls, True, pick_value(ncls, rnd, True), pick_attrs(ncls, rnd, True, 0))
                    if r0 == 'ok' and m0 == 'ok':
                        w.replx(i, None if rnd.random() < 0.6 else rnd.choice(kids).name, rnd.choice([0, 0, 1, 1, 2, 3, -1, -2, 7]), j)
                        w.obs(i)
                        w.tostr(i)
                        ids[:] = list(w.objs)
                elif id(ch) in inv:
                    j = nid[0]; nid[0] += 1
                    ncls = type(ch) if rnd.random() < 0.85 else rnd.choice(ALL)
                    m0, r0 = w.newe(j, ncls, True, pick_value(ncls, rnd, True), pick_attrs(ncls, rnd, True, 0))
                    if r0 == 'ok' and m0 == 'ok':
                        m1, r1 = w.repl(i, inv[id(ch)], j)
                        if r1 == 'ok':
                            detached.append(inv[id(ch)])
                        w.obs(i)
                        ids[:] = list(w.objs)
            elif r < 0.7:
                tbl = ATTRS.get(type(o).__name__)
                if tbl:
                    w.getattr_(i, rnd.choice(tbl)[0].replace('-', '_'))
            elif r < 0.85 and dots and type(o).TYPE.__name__ in containers:
                names = ALPHA[type_key(type(o).TYPE)]
                cn = rnd.choice(names + ['foo', 'level']) if rnd.random() < 0.9 else 'note'
                key = 'xml_' + cn.replace('-', '_')
                if rnd.random() < 0.08:
                    # malformed shortcut names: empty parts, doubled prefix, case
                    base = cn.replace('-', '_')
                    key = rnd.choice(['xml_', 'xml__', 'xml_' + base + '_', 'xml__' + base, 'xml_xml_' + base, 'xml_' + base.upper(),
                                      'xml_' + base.replace('_', '__', 1), 'xml_' + base + 'xml_', 'xml_x_', 'xml_-', 'xml_' + cn])
                ccls = BY_NAME.get(cn)
                q = rnd.random()
                nid[0] += 2
                fresh1, fresh2 = nid[0] - 1, nid[0] - 2
                if q < 0.2:
                    w.dotx(i, key, fresh1, None)
                elif q < 0.5 and ccls is not None:
                    m0, r0 = w.newe(fresh2, ccls, True, pick_value(ccls, rnd, True), [])
                    if r0 == 'ok' and m0 == 'ok':
                        w.dotx(i, key, fresh1, inst=fresh2)
                elif q < 0.6:
                    w.getx(i, key)
                else:
                    v = pick_value(ccls, rnd, rnd.random() < 0.8) if ccls is not None else 1
                    w.dotx(i, key, fresh1, v)
                    if twin(v) is not None and rnd.random() < 0.5:
                        # the same number in the other numeric type: must be validated and stored like any new value
                        nid[0] += 1
                        w.dotx(i, key, nid[0] - 1, twin(v))
                        w.tostr(i)
                w.obs(i)
                ids[:] = list(w.objs)
            elif r < 0.87 and type(o).TYPE.__name__ in containers and o.xsd_check:
                # a fresh child by name, now and then with an explicit forward= index
                k = type_key(type(o).TYPE)
                names = REPEATED.get(k) if REPEATED.get(k) and rnd.random() < 0.7 else ALPHA[k]
                cn = rnd.choice(names)
                ccls = BY_NAME.get(cn)
                if ccls is not None:
                    j = nid[0]; nid[0] += 1
                    m0, r0 = w.newe(j, ccls, True, pick_value(ccls, rnd, True), pick_attrs(ccls, rnd, True, 0))
                    if r0 == 'ok' and m0 == 'ok':
                        w.add(i, j, rnd.choice([None, None, 0, 1, 1, 2, -1, 3]) if REPEATED.get(k) or rnd.random() < 0.3 else None)
                        w.obs(i)
                        if dots and rnd.random() < 0.5:
                            # the shortcut on a name that now may sit in several leaves: which child does it address?
                            key = 'xml_' + cn.replace('-', '_')
                            nid[0] += 2
                            q = rnd.random()
                            if q < 0.5:
                                w.dotx(i, key, nid[0] - 1, pick_value(ccls, rnd, True))
                            elif q < 0.75:
                                m1, r1 = w.newe(nid[0] - 2, ccls, True, pick_value(ccls, rnd, True), [])
                                if r1 == 'ok' and m1 == 'ok':
                                    w.dotx(i, key, nid[0] - 1, inst=nid[0] - 2)
                            else:
                                w.dotx(i, key, nid[0] - 1, None)
                            w.getx(i, key)
                            w.obs(i)
                            w.tostr(i)
                        ids[:] = list(w.objs)
            elif r < 0.89 and reuse:
                # an existing instance (detached earlier, or still attached elsewhere) is added to another element
                own = [k for k, x in w.objs.items() if any(x is c for c in o.get_children(ordered=False))]
                if own and rnd.random() < 0.25:
                    j = rnd.choice(own)       # a child that is already attached here is offered again (often refused)
                else:
                    j = rnd.choice(detached) if detached and rnd.random() < 0.7 else rnd.choice(ids)
                up, chain = w.objs[i], []
                while up is not None and len(chain) < 100:
                    chain.append(up)
                    up = up._parent
                # no cycles, neither through the child lists nor through (possibly stale) parent pointers
                if i not in w.below(j) and not any(x is w.objs[j] for x in chain):
                    w.add(i, j, rnd.choice([None, None, None, 0, 1, 2]))
                    w.obs(i)
                    w.tostr(i)
            elif r < 0.92 and reuse:
                w.setchk(i, not o.xsd_check)
                w.obs(i)
                w.tostr(i)
            else:
                w.tostr(i, rnd.random() < 0.35)
        w.tostr(root, mixed_chk or rnd.random() < 0.3)
        w.tostr(root)
        for r2 in others:
            w.tostr(r2)
        w.attrs(rnd.choice(ids))
    if copy:
        m, r = w.copy(root, 100000)
        if r == 'ok' and m == 'ok':
            w.tostr(root + 100000)
            both = [k for k in w.objs if k < 100000] + [k for k in w.objs if k >= 100000]
            for _ in range(rnd.randint(1, 4)):
                i = rnd.choice(both)
                o = w.objs[i]
                tbl = ATTRS.get(type(o).__name__)
                r0 = rnd.random()
                if tbl and r0 < 0.6:
                    an, tn, _ = rnd.choice(tbl)
                    pool = valid_values(tn, rnd)
                    w.attr(i, an.replace('-', '_'), rnd.choice([None, None] + (pool or [1])))
                elif r0 < 0.8:
                    w.setval(i, pick_value(type(o), rnd, True))
                elif o.get_children(ordered=False):
                    ch = rnd.choice(o.get_children(ordered=False))
                    inv = {id(x): k for k, x in w.objs.items()}
                    if id(ch) in inv:
                        w.rm(i, inv[id(ch)])
            w.tostr(root)
            w.tostr(root + 100000)
    return w


if __name__ == '__main__':
    seed = int(sys.argv[1]) if len(sys.argv) > 1 else 0
    n = int(sys.argv[2]) if len(sys.argv) > 2 else 100
    rnd = random.Random(seed)
    drv = Driver()
    tot = dis = unm = 0
    t0 = time.time()
    shown = 0
    import collections
    res = collections.Counter()
    for k in range(n):
        w = doc_case(drv, rnd, depth=rnd.choice([0, 1, 2]), mixed_chk=rnd.random() < 0.2)
        tot += len(w.lines); unm += w.unmodelled()
        for (l, m, r) in w.lines:
            res[r.split(':')[0] + (':' + r.split(':')[1] if r.startswith('err') else '')] += 1
        d = w.disagreements()
        if d:
            dis += 1
            if shown < 12:
                shown += 1
                print('DIS', [(l[:80], m[:120], r[:120]) for l, m, r in d[:2]])
    print(n, 'docs', tot, 'lines', dis, 'docs with disagreement', unm, 'unmodelled', dict(res), '%.1fs' % (time.time() - t0))
