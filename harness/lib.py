"""Shared harness pieces: runs under /venv/bin/python with PYTHONPATH=/repo (the real library is
called in-process), talks to the Lean model through the compiled `mxdriver` line protocol."""
import sys, os, io, json, contextlib, subprocess, random, warnings, time, hashlib, traceback

warnings.simplefilter('ignore')
VERIF = os.path.dirname(os.path.dirname(os.path.abspath(__file__)))
BUILD = os.path.join(VERIF, 'build')
DRIVER = os.path.join(VERIF, 'lean', '.lake', 'build', 'bin', 'mxdriver')

_out = io.StringIO()
with contextlib.redirect_stdout(_out), contextlib.redirect_stderr(io.StringIO()):
    from musicxml.xmlelement import xmlelement as XE
    from musicxml.xmlelement.xmlelement import XMLElement
    from musicxml.xmlelement.containers import containers
    from musicxml.util.core import convert_to_xml_class_name

STRS = json.load(open(os.path.join(BUILD, 'strs.json')))
_IX = {s: i for i, s in enumerate(STRS['strs'])}
IMPL = json.load(open(os.path.join(BUILD, 'impl.json')))
SPEC = json.load(open(os.path.join(BUILD, 'spec.json')))


def ix(s):
    return _IX[s]


def name_of(i):
    return STRS['strs'][i]


ANON_CLS = {'XSDComplexTypeScorePartwise': '@score-partwise', 'XSDComplexTypePart': '@part',
            'XSDComplexTypeMeasure': '@measure', 'XSDComplexTypeDirective': '@directive'}


def type_key(T):
    """schema key of a complex type class, as used by Gen tables ('T:<key>')"""
    if T.__name__ in ANON_CLS:
        return ANON_CLS[T.__name__]
    return T.get_xsd_tree().name


ALL = [c for n, c in vars(XE).items() if isinstance(c, type) and issubclass(c, XMLElement) and c is not XMLElement]
BY_NAME = {}
for c in ALL:
    try:
        BY_NAME[c.XSD_TREE.name if c.XSD_TREE is not None else None] = c
    except Exception:
        pass
REP = {}      # type key -> representative element class (first in class order)
CLASSES_OF = {}
for c in ALL:
    if c.TYPE.__name__ in containers:
        k = type_key(c.TYPE)
        REP.setdefault(k, c)
        CLASSES_OF.setdefault(k, []).append(c)


def leaves_of(tree, acc=None):
    acc = [] if acc is None else acc
    if tree['k'] == 'e':
        acc.append(tree['name'])
    else:
        for c in tree.get('ps', []):
            leaves_of(c, acc)
    return acc


ALPHA = {}    # type key -> alphabet (distinct leaf names in leaf order), from the live templates
TREE = {}
for cls, row in IMPL['templates'].items():
    k = ANON_CLS.get(cls) or IMPL['complex_types'][cls]['type_name']
    TREE[k] = row['tree']
    a = []
    for n in leaves_of(row['tree']):
        if n not in a:
            a.append(n)
    ALPHA[k] = a


def classify(tree):
    def flat(t):
        if t['k'] == 'e':
            return True
        if t['k'] == 'c':
            return False
        return t['min'] <= 1 and t['max'] == 1 and all(flat(c) for c in t['ps'])
    ls = leaves_of(tree)
    nod = len(set(ls)) == len(ls)
    if flat(tree) and nod:
        return 'flat'
    def is_slot(t):
        return (t['k'] == 'c' and t['min'] <= 1 and t['max'] in (None, 1) and t['ps'] and
                all(c['k'] == 'e' and c['min'] == 1 and c['max'] == 1 for c in t['ps']))
    if is_slot(tree) and nod:
        return 'rootchoice'
    def slotted(t):
        if t['k'] == 'e':
            return True
        if t['k'] == 'c':
            return is_slot(t)
        return t['min'] <= 1 and t['max'] == 1 and all(slotted(c) for c in t['ps'])
    if slotted(tree) and nod:
        return 'slotted'
    return 'wild'


CLASS_OF_TYPE = {k: classify(t) for k, t in TREE.items()}
TAME = sorted(k for k, c in CLASS_OF_TYPE.items() if c != 'wild')
WILD = sorted(k for k, c in CLASS_OF_TYPE.items() if c == 'wild')

CANDS = ['', 'a', 1, 1.5, 'yes', 'start', 'C', '2000-01-01', 'above', 'major', 'sharp', 'quarter', 'up', 'G',
         'begin', 'single', 'explicit', 'regular', 'normal', 'light-heavy', 'whole', 'other', 'none', 'brace',
         'actual', 'down', 'solid', 'text', 'chord']
_vcache = {}


def quiet(f, *a, **k):
    """run f, capture stdout/stderr; returns (('ok', value) | ('exc', exception), printed_text)"""
    buf = io.StringIO()
    with contextlib.redirect_stdout(buf), contextlib.redirect_stderr(buf):
        try:
            r = ('ok', f(*a, **k))
        except Exception as e:  # noqa
            r = ('exc', e)
    return r, buf.getvalue()


def mk(name, xsd_check=True):
    """a fresh, valid child element for the element name"""
    cls = BY_NAME[name]
    if cls in _vcache:
        v = _vcache[cls]
        return cls(v, xsd_check=xsd_check) if v is not NotImplemented else cls(xsd_check=xsd_check)
    T = cls.TYPE
    cands = list(CANDS)
    try:
        st = T._SIMPLE_CONTENT if getattr(T, '_SIMPLE_CONTENT', None) else (T if 'SimpleType' in T.__name__ else None)
        if st is not None:
            perm = st.get_xsd_tree().get_permitted()
            if perm:
                cands = perm[:1] + cands
    except Exception:
        pass
    for v in cands:
        (s, e), _ = quiet(cls, v, xsd_check=xsd_check)
        if s == 'ok':
            _vcache[cls] = v
            return e
    raise RuntimeError('no value for ' + name)


DOCUMENTED = {
    'XMLChildContainerWrongElementError': 'wrongElement',
    'XMLChildContainerMaxOccursError': 'maxOccurs',
    'XMLChildContainerChoiceHasAnotherChosenChild': 'anotherChosen',
    'XMLElementCannotHaveChildrenError': 'cannotHaveChildren',
    'XMLElementChildrenRequired': 'childrenRequired',
    'XSDAttributeRequiredException': 'attrRequired',
    'XSDWrongAttribute': 'wrongAttribute',
}


def exc_enum(e, op=None):
    n = type(e).__name__
    if n in DOCUMENTED:
        return 'err:' + DOCUMENTED[n]
    if n == 'ValueError' and op in ('rm', 'repl'):
        return 'err:notAChild'
    if n in ('TypeError', 'ValueError', 'AttributeError') and op in ('value', 'attr', 'dot'):
        return 'err:' + n
    return 'err:internal:' + n


class Driver:
    """pipe to the compiled Lean model; lines are queued and flushed in batches"""
    def __init__(self):
        self.p = subprocess.Popen([DRIVER], stdin=subprocess.PIPE, stdout=subprocess.PIPE, text=True, bufsize=1 << 20)
        self.n = 0

    def ask_many(self, lines):
        if not lines:
            return []
        self.p.stdin.write('\n'.join(lines) + '\nflush\n')
        self.p.stdin.flush()
        out = [self.p.stdout.readline().rstrip('\n') for _ in range(len(lines) + 1)]
        self.n += len(lines)
        if out[-1] != 'bad-op':
            raise RuntimeError('driver protocol out of sync: %r' % out[-3:])
        return out[:-1]

    def ask(self, line):
        return self.ask_many([line])[0]

    def close(self):
        try:
            self.p.stdin.close()
            self.p.wait(timeout=5)
        except Exception:
            self.p.kill()


def flatten_req(v):
    """flattened list of required class names reported by get_required_element_names"""
    out = []
    def rec(x):
        if x is None:
            return
        if isinstance(x, (list, tuple)):
            for y in x:
                rec(y)
        else:
            out.append(x)
    rec(v)
    return out


_CLS2NAME = {c.__name__: n for n, c in BY_NAME.items()}


def req_names(v):
    return [ix(_CLS2NAME[c]) for c in flatten_req(v)]


class RealInst:
    """a real element under test, children addressed by harness ids"""
    def __init__(self, tkey, chk=True, cls=None):
        self.tkey = tkey
        self.cls = cls or REP[tkey]
        (s, e), out = quiet(self.cls, xsd_check=chk)
        if s != 'ok':
            raise e
        self.e = e
        self.chk = chk
        self.kids = {}      # cid -> object (successfully added and not removed)
        self.gone = {}      # cid -> object (removed / replaced)
        self.printed = out

    def add(self, cid, name, fwd=None, obj=None):
        c = obj if obj is not None else mk(name)
        (s, v), out = quiet(self.e.add_child, c) if fwd is None else quiet(self.e.add_child, c, fwd)
        self.printed += out
        if s == 'ok':
            self.kids[cid] = c
            return 'ok'
        self.failed = getattr(self, 'failed', {})
        self.failed[cid] = c
        return exc_enum(v, 'add')

    def rm(self, cid):
        c = self.kids.get(cid)
        if c is None:
            c = self.gone.get(cid) or mk(ALPHA[self.tkey][0])   # not a child
        (s, v), out = quiet(self.e.remove, c)
        self.printed += out
        if s == 'ok':
            self.gone[cid] = self.kids.pop(cid)
            return 'ok'
        return exc_enum(v, 'rm')

    def repl(self, old, new, name):
        c = self.kids.get(old)
        if c is None:
            c = self.gone.get(old) or mk(ALPHA[self.tkey][0])
        n = mk(name)
        (s, v), out = quiet(self.e.replace_child, c, n)
        self.printed += out
        if s == 'ok':
            self.gone[old] = self.kids.pop(old)
            self.kids[new] = n
            return 'ok'
        return exc_enum(v, 'repl')

    def required(self, ic=False):
        if not self.chk:
            return 'r='
        (s, v), out = quiet(self.e.child_container_tree.get_required_element_names, ic)
        self.printed += out
        if s == 'exc':
            return 'r=' + exc_enum(v, 'check')
        return 'r=' + ','.join(str(x) for x in req_names(v))

    def idof(self, c):
        for d in (self.kids, self.gone, getattr(self, 'failed', {})):
            for i, o in d.items():
                if o is c:
                    return str(i)
        return '?'

    def obs(self):
        (s, o), out = quiet(self.e.get_children)
        self.printed += out
        if s == 'exc':
            return 'o=' + exc_enum(o, 'obs')
        u = self.e.get_children(ordered=False)
        return 'o=%s u=%s %s' % (','.join(self.idof(c) for c in o), ','.join(self.idof(c) for c in u), self.required())

    def zombies(self):
        """children in either view that the ledger (successful adds minus removes) does not hold"""
        live = {id(c) for c in self.kids.values()}
        o = self.e.get_children() if self.chk else []
        u = self.e.get_children(ordered=False)
        return [self.idof(c) for c in o if id(c) not in live], [self.idof(c) for c in u if id(c) not in live]

    def parents_ok(self):
        bad = [i for i, c in self.kids.items() if c.get_parent() is not self.e]
        bad += [i for i, c in self.gone.items() if c.get_parent() is not None]
        return bad


def apply_real(inst, op):
    k = op[0]
    if k == 'add':
        return inst.add(op[1], op[2], op[3] if len(op) > 3 else None)
    if k == 'rm':
        return inst.rm(op[1])
    if k == 'repl':
        return inst.repl(op[1], op[2], op[3])
    if k == 'obs':
        return inst.obs()
    if k == 'check':
        return inst.required(bool(op[1]))
    raise ValueError(op)


def op_line(i, op):
    k = op[0]
    if k == 'add':
        return 'add %d %d %d' % (i, op[1], ix(op[2])) + ('' if len(op) < 4 or op[3] is None else ' %d' % op[3])
    if k == 'rm':
        return 'rm %d %d' % (i, op[1])
    if k == 'repl':
        return 'repl %d %d %d %d' % (i, op[1], op[2], ix(op[3]))
    if k == 'obs':
        return 'obs %d' % i
    if k == 'check':
        return 'check %d %d' % (i, op[1])
    raise ValueError(op)


def replay_real(tkey, hist, chk=True, cls=None):
    inst = RealInst(tkey, chk, cls)
    res = [apply_real(inst, op) for op in hist]
    return inst, res


def real_probe(tkey, hist, chk=True, cls=None, obs_each=True):
    """acceptance of one more child of every symbol, each on a fresh replay of the same call
    sequence (including the observation calls, which rewrite flags) -- the subject is not touched"""
    parts = []
    for n in ALPHA[tkey]:
        inst = RealInst(tkey, chk, cls)
        for op in hist:
            apply_real(inst, op)
            if obs_each and op[0] not in ('obs', 'check'):
                inst.obs()
        inst.obs()
        r = inst.add(10 ** 6, n)
        if r == 'ok':
            parts.append('%d:ok:%s' % (ix(n), inst.obs().split(' ')[-1][2:]))
        else:
            parts.append('%d:%s:' % (ix(n), r))
    return 'p=' + ';'.join(parts)


def word_accepts(drv, tkey, names):
    """verified content-model oracle (pinned schema particle, evaluated by the Lean driver)"""
    return drv.ask('accepts %d %s' % (ix('T:' + tkey), ','.join(str(ix(n)) for n in names) or '-')) == 'yes'
