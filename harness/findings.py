"""known_findings.json loader (the file is committed and never written at run time)."""
import json, os
VERIF = os.path.dirname(os.path.dirname(os.path.abspath(__file__)))
_P = os.path.join(VERIF, 'known_findings.json')


def load():
    try:
        return json.load(open(_P))
    except FileNotFoundError:
        return {'findings': [], 'fixed': []}


def open_findings(pid):
    return [f for f in load()['findings'] if pid in f['property'] and f.get('status') == 'open']


def fixed_findings(pid):
    return [f for f in load().get('fixed_witnesses', []) if pid in f['property']]
