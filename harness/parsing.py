"""Parser correspondence (C08 / C09): real parse_musicxml on a file vs. the Lean model of the
typing ladders + Element/Values/Mfull/Serialize, driven node by node in the parser's own order."""
import tempfile, os, xml.etree.ElementTree as ET
from lib import *
from values import enc
import elements
from musicxml.parser.parser import parse_musicxml


def oracle(text):
    """what CPython's float()/int() make of the text (trusted built-ins)"""
    try:
        f = enc(float(text))
    except ValueError:
        f = 'x'
    try:
        z = enc(int(text))
    except ValueError:
        z = 'x'
    return f, z


def hx(s):
    return s.encode('utf-8', 'surrogatepass').hex() or '00'[:0] or ''


class ModelParse:
    def __init__(self, drv):
        self.drv = drv
        self.nid = 0
        self.status = 'ok'
        self.unmodelled = False

    def parse_node(self, node):
        """returns instance id or None (error recorded in self.status)"""
        cname = convert_to_xml_class_name(node.tag)
        if 'C:' + cname not in lib_ix():
            self.status = 'err:internal:NameError'
            return None
        self.nid += 1
        i = self.nid
        text = node.text or ''
        st = text.strip(' \t\n\r')
        f, z = oracle(st)
        r = self.drv.ask('parsee %d %d %s %s %s' % (i, ix('C:' + cname), 's:' + hx(text) if False else (hx(text) or '-'), f, z))
        if r != 'ok':
            self.status = r
            return None
        for k, v in node.attrib.items():
            f, z = oracle(v)
            r = self.drv.ask('pattr %d %s %s %s %s' % (i, hx(k) or '-', hx(v) or '-', f, z))
            if r in ('reserved', 'unmodelled'):
                self.unmodelled = True
                return None
            if r != 'ok':
                self.status = r
                return None
        for ch in node:
            j = self.parse_node(ch)
            if j is None:
                return None
            r = self.drv.ask('add %d %d %d' % (i, j, ix(ch.tag) if ch.tag in lib_ix() else 0)).split('|')[0]
            if r != 'ok':
                self.status = r
                return None
        return i


_LIX = None


def lib_ix():
    global _LIX
    if _LIX is None:
        import lib
        _LIX = lib._IX
    return _LIX


def real_parse(path):
    (s, e), out = quiet(parse_musicxml, path)
    if s == 'ok':
        (s2, t), out2 = quiet(e.to_string)
        if s2 == 'ok':
            return 'ok', t, e
        return 'tostr-' + elements.real_exc(t), None, e
    n = type(e).__name__
    r = exc_enum(e, 'add') if n in DOCUMENTED else ('err:' + n if n in ('TypeError', 'ValueError', 'AttributeError') else 'err:internal:' + n)
    return r, None, None


def compare_file(drv, path):
    """returns dict(status agree|disagree|unmodelled, detail)"""
    rs, rtext, robj = real_parse(path)
    try:
        root = ET.parse(path).getroot()
    except Exception as e:
        return {'status': 'agree' if rs.startswith('err') else 'disagree', 'detail': 'not well-formed: %r vs %s' % (e, rs)}
    mp = ModelParse(drv)
    i = mp.parse_node(root)
    if mp.unmodelled:
        return {'status': 'unmodelled', 'real': rs}
    if i is None:
        ok = (mp.status == rs)
        return {'status': 'agree' if ok else 'disagree', 'model': mp.status, 'real': rs}
    m = drv.ask('tostr %d 0' % i)
    if m == 'unmodelled':
        return {'status': 'unmodelled', 'real': rs}
    if rs == 'ok':
        r = 'ok:' + rtext.encode('utf-8', 'surrogatepass').hex()
    elif rs.startswith('tostr-'):
        r = rs[6:]
        if r == 'err:AttributeError':
            r = 'err:internal:AttributeError'
    else:
        r = rs
    return {'status': 'agree' if m == r else 'disagree', 'model': m[:300], 'real': r[:300], 'real_text': rtext}


# ---------------------------------------------------------------------------- infoset comparison (oracle of C08/C09)
def infoset(elem, numeric_loose=True):
    def norm_text(t):
        t = (t or '').strip(' \t\n\r')      # XML white space only: anything else is content
        return t
    def norm_num(s):
        try:
            return ('num', float(s)) if numeric_loose and s.strip() and s.strip().lower() not in ('nan', 'inf', '-inf', 'infinity') else ('str', s)
        except ValueError:
            return ('str', s)
    return (elem.tag, tuple(sorted((k, norm_num(v)) for k, v in elem.attrib.items())), norm_num(norm_text(elem.text)),
            tuple(infoset(c, numeric_loose) for c in elem))


def roundtrip_oracle(xml_in, xml_out):
    """None when the re-serialised output has the same elements, order, attributes and text as the input
    (numeric spelling aside), else a description of the first difference"""
    a = infoset(ET.fromstring(xml_in)); b = infoset(ET.fromstring(xml_out))
    if a == b:
        return None
    def diff(x, y, path):
        if x[0] != y[0]:
            return '%s: tag %s vs %s' % (path, x[0], y[0])
        if x[1] != y[1]:
            return '%s/%s: attributes %s vs %s' % (path, x[0], x[1], y[1])
        if x[2] != y[2]:
            return '%s/%s: text %r vs %r' % (path, x[0], x[2], y[2])
        if len(x[3]) != len(y[3]):
            return '%s/%s: children %s vs %s' % (path, x[0], [c[0] for c in x[3]], [c[0] for c in y[3]])
        for c, d in zip(x[3], y[3]):
            r = diff(c, d, path + '/' + x[0])
            if r:
                return r
        return None
    return diff(a, b, '')


def foreign_variant(xml, rnd):
    """the same document as another tool might write it: attribute order, quoting, whitespace around
    simple text, numeric spellings"""
    root = ET.fromstring(xml)
    for el in root.iter():
        items = list(el.attrib.items())
        rnd.shuffle(items)
        el.attrib.clear()
        for k, v in items:
            if rnd.random() < 0.15:
                try:
                    if float(v) == int(float(v)) and 'e' not in v.lower() and 'n' not in v.lower():
                        v = rnd.choice([str(int(float(v))), '%.1f' % float(v), '0' + v if v.isdigit() else v])
                except (ValueError, OverflowError):
                    pass
            el.attrib[k] = v
        if el.text and len(el) == 0 and rnd.random() < 0.2:
            el.text = rnd.choice(['\n    ', ' ']) + el.text + rnd.choice(['\n  ', ' ', ''])
    return ET.tostring(root, encoding='unicode')


def mutate_xml(xml, rnd):
    """an invalid / unusual variant of a document (for the no-silent-loss half of C09)"""
    root = ET.fromstring(xml)
    els = list(root.iter())
    for _ in range(rnd.randint(1, 2)):
        el = rnd.choice(els)
        r = rnd.random()
        if r < 0.25:
            el.set(rnd.choice(['content', 'level', 'xsd_check', '_x', 'foo', 'name', 'type', 'number', 'id']), rnd.choice(['1', 'x', 'yes', '']))
        elif r < 0.4 and el.attrib:
            k = rnd.choice(list(el.attrib))
            el.set(k, rnd.choice(['', 'zzz', '-1', '1e3', '01', ' 1 ', 'NaN']))
        elif r < 0.55:
            ET.SubElement(el, rnd.choice(['foo', 'note', 'level', 'pitch', 'step', 'offset']))
        elif r < 0.7 and len(el) == 0:
            el.text = rnd.choice(['', 'zzz', '1_0', '١', '1e3', 'inf', ' 7 ', '0x10'])
        elif r < 0.8 and len(el) > 1:
            kids = list(el)
            rnd.shuffle(kids)
            for k in list(el):
                el.remove(k)
            for k in kids:
                el.append(k)
        elif r < 0.9 and len(el) > 0:
            el.remove(rnd.choice(list(el)))
        else:
            el.set('font-size', rnd.choice(['12', '12.5', 'large', 'huge']))
    return ET.tostring(root, encoding='unicode')


def run_docs(drv, seed, n, tmpdir):
    """library-emitted documents (and foreign spellings of them) parsed back; returns stats + disagreements + oracle failures"""
    import collections
    rnd = random.Random('parse/%s' % seed)
    big = [c for c in ALL if c.TYPE.__name__ in containers]
    stats = collections.Counter()
    dis = []
    viol = []
    samples = []
    for k in range(n):
        w = elements.World(drv)
        cls = rnd.choice(big if k % 4 else ALL)
        nid = [1000 * (k + 1)]
        if k % 2 == 1:
            root = elements.twin_case(w, rnd, nid)     # one class twice, values of different kinds: per-tag / per-class state
        else:
            root = elements.build_tree(w, rnd, cls, rnd.choice([1, 2, 3]), nid, True, True, False)
        if root is None:
            stats['build-failed'] += 1
            continue
        (s, text), _ = quiet(w.objs[root].to_string)
        if s != 'ok':
            stats['not-serialisable'] += 1
            continue
        for variant in (0, 1, 2):
            xml = text if variant == 0 else foreign_variant(text, rnd) if variant == 1 else mutate_xml(text, rnd)
            p = os.path.join(tmpdir, 'doc.xml')
            with open(p, 'w', encoding='utf-8') as f:
                f.write('<?xml version="1.0" encoding="UTF-8"?>\n' + xml)
            c = compare_file(drv, p)
            stats[('emitted' if variant == 0 else 'foreign' if variant == 1 else 'mutated') + ':' + c['status']] += 1
            if c['status'] == 'disagree':
                dis.append({'engine': 'parser', 'xml': xml[:2000], 'model': c.get('model'), 'real': c.get('real')})
            rt = c.get('real_text')
            if variant == 0 and len(samples) < 3:
                samples.append(xml[:300])
            if variant == 2:
                continue
            if rt is not None:
                d = roundtrip_oracle(xml, rt)
                stats['roundtrip-ok' if d is None else 'roundtrip-diff'] += 1
                if d is not None:
                    viol.append({'xml': xml[:2000], 'reparsed': rt[:2000], 'difference': d, 'variant': variant})
                elif variant == 0:
                    # second round trip must be byte-identical to the first
                    with open(p, 'w', encoding='utf-8') as f:
                        f.write(rt)
                    rs2, rt2, _ = real_parse(p)
                    if rt2 != rt:
                        viol.append({'xml': rt[:2000], 'reparsed': (rt2 or rs2)[:2000], 'difference': 'second round trip differs from the first', 'variant': 2})
            elif variant == 0 and c.get('real', '').startswith('err'):
                stats['own-output-rejected'] += 1
                viol.append({'xml': xml[:2000], 'reparsed': None, 'difference': 'library output is rejected by its own parser: ' + str(c.get('real')), 'variant': 0})
    return stats, dis, viol, samples


if __name__ == '__main__':
    seed = int(sys.argv[1]) if len(sys.argv) > 1 else 0
    n = int(sys.argv[2]) if len(sys.argv) > 2 else 100
    drv = Driver()
    with tempfile.TemporaryDirectory() as td:
        t0 = time.time()
        stats, dis, viol, samples = run_docs(drv, seed, n, td)
    print(dict(stats), len(dis), len(viol), '%.1fs' % (time.time() - t0))
    for d in dis[:5]:
        print('DIS', d['model'], '||', d['real'], '||', d['xml'][:200].replace('\n', ' '))
    import collections
    kinds = collections.Counter(v['difference'].split(':')[-1][:60] if 'rejected' not in v['difference'] else v['difference'][:90] for v in viol)
    print(kinds.most_common(10))
    for v in viol[:5]:
        print('VIOL', v['difference'], '||', v['xml'][:160].replace('\n', ' '))
