"""Correspondence engine for value validation: real XSDSimpleType* classes / XMLElement.value_
vs. the Lean Values model (validator generic in the regenerated table)."""
import decimal, math, itertools
from lib import *
import musicxml.xsd.xsdsimpletype as ST
import musicxml.xsd.xsdcomplextype as CT
try:
    import re._parser as sre_parse, re._constants as sre_c
except ImportError:
    import sre_parse, sre_constants as sre_c

SIMPLE = {n: c for n, c in vars(ST).items() if isinstance(c, type) and issubclass(c, ST.XSDSimpleType) and c is not ST.XSDSimpleType}


def enc(v):
    if v is None:
        return 'none'
    if isinstance(v, bool):
        return 'b:%d' % int(v)
    if isinstance(v, int):
        return 'i:%d' % v
    if isinstance(v, float):
        if math.isnan(v):
            return 'nan'
        if math.isinf(v):
            return 'inf' if v > 0 else '-inf'
        r = repr(v)
        d = decimal.Decimal(r).as_tuple()
        m = int(''.join(map(str, d.digits)))
        return 'f:%s:%d:%d:%s' % ('-' if d.sign else '+', m, d.exponent, r.encode().hex())
    if isinstance(v, str):
        return 's:' + v.encode('utf-8', 'surrogatepass').hex() if v else 's:'
    raise TypeError(v)


def real_validate(cls, v):
    (s, e), out = quiet(cls, v)
    if s == 'ok':
        return 'ok:' + str(v).encode('utf-8', 'surrogatepass').hex()
    n = type(e).__name__
    return 'err:' + n if n in ('TypeError', 'ValueError') else 'err:internal:' + n


def real_elem_value(cls, v):
    (s, e), out = quiet(cls, v)
    if s == 'ok':
        return 'ok:' + str(v).encode('utf-8', 'surrogatepass').hex()
    n = type(e).__name__
    return 'err:' + n if n in ('TypeError', 'ValueError') else 'err:internal:' + n


# ------------------------------------------------------------------ generators
def sample_from_pattern(pat, rnd, depth=0):
    def gen(items):
        return ''.join(gen1(op, arg) for op, arg in items)
    def pick_in(arg):
        neg = any(str(o) == 'NEGATE' for o, a in arg)
        rs = []
        for o, a in arg:
            on = str(o)
            if on == 'LITERAL':
                rs.append((a, a))
            elif on == 'RANGE':
                rs.append(a)
            elif on == 'CATEGORY':
                rs.append((48, 57)); rs.append((0x660, 0x669))
        if neg:
            for _ in range(50):
                c = rnd.choice([rnd.randint(33, 126), rnd.randint(0xa1, 0x2ff), 0x4e2d, 32])
                if not any(a <= c <= b for a, b in rs):
                    return chr(c)
            return 'x'
        a, b = rnd.choice(rs)
        c = rnd.randint(a, min(b, a + 40)) if rnd.random() < 0.8 else rnd.randint(a, b)
        if 0xd800 <= c <= 0xdfff:
            c = a
        return chr(c)
    def gen1(op, arg):
        n = str(op)
        if n == 'LITERAL':
            return chr(arg)
        if n == 'NOT_LITERAL':
            return 'x' if arg != ord('x') else 'y'
        if n == 'ANY':
            return rnd.choice('a1 ')
        if n == 'IN':
            return pick_in(arg)
        if n == 'BRANCH':
            return gen(rnd.choice(arg[1]))
        if n == 'SUBPATTERN':
            return gen(arg[3])
        if n in ('MAX_REPEAT', 'MIN_REPEAT'):
            lo, hi, sub = arg
            hi = lo + 3 if hi == sre_c.MAXREPEAT else hi
            return ''.join(gen(sub) for _ in range(rnd.randint(lo, hi)))
        if n == 'AT':
            return ''
        return ''
    return gen(list(sre_parse.parse(pat)))


NUMS = [0, 1, -1, 2, 3, 7, 8, 9, 10, 16, 17, 100, 101, 128, 129, 180, 181, -180, -181, 16384, 16385, 10 ** 20,
        0.0, -0.0, 0.5, 1.5, -0.5, 1e-9, -1e-9, 1e-05, 1.5e-07, 1e16, 1.2e+17, 123456789.125, 0.1 + 0.2, 100.0, 100.00000001,
        179.99999, 180.0, 180.0000001, 2.0, 1.9999999, float('nan'), float('inf'), float('-inf'), True, False]
STRS = ['', ' ', 'a', ' a ', 'a  b', '\ta\nb ', 'yes', 'no', 'normal', '#FF00FF', '#ff00ff', '#1234567', '#12345678',
        '1', '1, 2', '1,2', '1 ,2', ' ', '   ', '0', '2000-01-01', '2000-13-01', '2000-01-01Z', 'abc:def', ':a', 'a:b',
        '-a', 'a-b.c_d', 'en', 'en-US', 'x-klingon', 'i-x', 'toolongsubtag1', 'e', 'wiggleTrill', 'guitarVibratoStroke',
        'coda', 'codaSquare', 'segno', 'lyricsElision', 'pictBeaterHard', 'accSagittal', 'Arial, Helvetica', 'a,b', ',a',
        '١٢', 'café', '\U0001d11e', 'quarter', 'eighth', 'up', 'xx-large', 'medium', 'whole', '16th', 'start',
        '1,\u00a02', 'a\u00a0b', '\u2003x', 'x\x0b', '1,\x0c2', 'Arial,\u00a0Helvetica', '\u00a01', '1\u3000', 'a\x1fb', '1,\u20092',
        '1, 2 ', '1,  2', ' 1', '#FF00FF\n', 'yes ', ' no', 'a\rb', '\r\n', 'x\u0085y']


def boundary_values(row):
    out = []
    for f in row.get('facets', []):
        if f[0] in ('minInclusive', 'maxInclusive', 'minExclusive'):
            b = int(f[1])
            out += [b - 1, b, b + 1, b - 0.5, b + 0.5, b - 1e-9, b + 1e-9, float(b)]
        if f[0] == 'minLength':
            out += ['', 'a', ' ']
    return out


def cases_for_type(cls_name, row, rnd, all_enums, n_extra=6):
    vals = []
    vals += boundary_values(row)
    vals += list(row.get('permitted') or [])[:40]
    vals += list(row.get('eff_forced') or [])
    # literals of the types this one derives from (a wider enumeration must not leak into a narrower one)
    for base in (row.get('mro') or [])[1:]:
        b = IMPL['simple_types'].get(base)
        if b and b.get('permitted'):
            vals += list(b['permitted'])[:60]
    pat = row.get('eff_pattern') or row.get('class_pattern')
    if pat:
        for _ in range(6):
            try:
                s = sample_from_pattern(pat, rnd)
            except Exception:
                break
            vals.append(s)
            if s:
                k = rnd.randrange(len(s))
                vals.append(s[:k] + rnd.choice(['!', ' ', 'Z', ':', ',', '']) + s[k + 1:])
                if ' ' in s:
                    j = s.index(' ')
                    vals.append(s[:j] + rnd.choice(['\u00a0', '\x0b', '\u2003', '\t', '\n', '  ']) + s[j + 1:])
                vals.append(s[:k] + rnd.choice(['\u00a0', '\x0b', '\x0c', '\u3000']) + s[k:])
                vals.append('0' + s)
                vals.append(s[:1] + '0' + s[1:])
                vals.append(s[:1] + '00' + s[1:])
                vals.append(s[:k] + s[k] + s[k:])
                vals.append(s[:k] + s[k + 1:])
                vals.append(s.upper() if s != s.upper() else s.lower())
                vals.append(' ' + s + '  ')
                vals.append(s + s)
    if cls_name in ('XSDSimpleTypeDate', 'XSDSimpleTypeYyyyMmDd'):
        # the calendar: ends of months, leap years (also year 0, negative and 5-digit years), zones at the limit
        for y in ['2000', '1900', '2100', '2024', '2023', '0000', '-0004', '-0001', '-0100', '-0400', '0100', '0400', '12344', '12300', '12400', '12345']:
            for md in ['02-28', '02-29', '02-30', '04-30', '04-31', '06-31', '09-31', '11-31', '01-31', '12-31', '12-32', '00-10', '13-01', '01-00']:
                vals.append('%s-%s' % (y, md))
        for _ in range(40 + 4 * n_extra):
            y = rnd.choice(['2000', '1900', '2024', '2023', '0000', '-0004', '-0001', '12344', '12345', '0400', '0100', '-0100', '-0400',
                            '%04d' % rnd.randint(1, 9999)])
            vals.append('%s-%02d-%02d%s' % (y, rnd.randint(1, 12), rnd.choice([27, 28, 29, 30, 31, rnd.randint(1, 31)]),
                                          rnd.choice(['', '', '', 'Z', '+14:00', '-13:59', '+14:01', '+02:00'])))
    vals += rnd.sample(NUMS, min(len(NUMS), 6 + n_extra))
    vals += rnd.sample(STRS, min(len(STRS), 6 + n_extra))
    vals += rnd.sample(all_enums, min(len(all_enums), 4 + n_extra))
    vals.append(None)
    return vals


def all_enum_literals():
    s = []
    for r in IMPL['simple_types'].values():
        for x in (r.get('permitted') or []):
            if x not in s:
                s.append(x)
    return s


def run(seed, thorough=False, drv=None):
    """returns (n_cases, disagreements, stats)"""
    import collections
    rnd = random.Random('values/%s' % seed)
    own = drv is None
    drv = drv or Driver()
    enums = all_enum_literals()
    dis = []
    stats = collections.Counter()
    n = 0
    names = sorted(IMPL['simple_types'])
    if seed % 2:
        names = list(reversed(names))     # class-level caching bugs depend on the order types are used in
    try:
        for cls_name in names:
            row = IMPL['simple_types'][cls_name]
            if 'broken' in row or cls_name not in SIMPLE:
                continue
            cls = SIMPLE[cls_name]
            vals = cases_for_type(cls_name, row, rnd, enums, 30 if thorough else 6)
            if thorough:
                vals += NUMS + STRS + enums
            lines = ['val %d %s' % (ix('K:' + cls_name), enc(v)) for v in vals]
            ml = drv.ask_many(lines)
            for v, m in zip(vals, ml):
                r = real_validate(cls, v)
                n += 1
                stats[r.split(':')[0] + (':' + r.split(':')[1] if r.startswith('err') else '')] += 1
                if r != m:
                    dis.append({'engine': 'values', 'type': cls_name, 'value': repr(v), 'enc': enc(v), 'model': m, 'real': r})
        # element level: every element class with a value type
        for c in ALL:
            row = None
            T = c.TYPE
            st = T if T.__name__ in SIMPLE else getattr(T, '_SIMPLE_CONTENT', None)
            vals = rnd.sample(NUMS, 5) + rnd.sample(STRS, 5) + ['', 'abc', 1, 1.5]
            if st is not None and st.__name__ in IMPL['simple_types']:
                r0 = IMPL['simple_types'][st.__name__]
                vals += list(r0.get('permitted') or [])[:3] + boundary_values(r0)[:6]
                for base in (r0.get('mro') or [])[1:]:
                    b = IMPL['simple_types'].get(base)
                    if b and b.get('permitted'):
                        vals += list(b['permitted'])[:30]
            lines = ['elemval %d %s' % (ix('C:' + c.__name__), enc(v)) for v in vals]
            ml = drv.ask_many(lines)
            for v, m in zip(vals, ml):
                r = real_elem_value(c, v)
                n += 1
                stats['elem:' + r.split(':')[0]] += 1
                if r != m:
                    dis.append({'engine': 'elemval', 'class': c.__name__, 'value': repr(v), 'enc': enc(v), 'model': m, 'real': r})
    finally:
        if own:
            drv.close()
    return n, dis, stats


if __name__ == '__main__':
    seed = int(sys.argv[1]) if len(sys.argv) > 1 else 0
    t0 = time.time()
    n, dis, stats = run(seed, thorough=len(sys.argv) > 2)
    print(n, 'cases', len(dis), 'disagreements', dict(stats), '%.1fs' % (time.time() - t0))
    seen = set()
    for d in dis:
        k = (d.get('type') or d.get('class'), d['model'], d['real'].split(':')[0])
        if k in seen:
            continue
        seen.add(k)
        print(d)
        if len(seen) > 40:
            break
