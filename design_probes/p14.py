import sys, threading, warnings; warnings.simplefilter('ignore')
from musicxml.xmlelement.xmlelement import *
import musicxml.xsd.xsdcomplextype as CT
res={}
gate=threading.Event(); done=threading.Event()
target_line=None
def tracer(frame,event,arg):
    if frame.f_code.co_name=='get_xsd_attributes' and frame.f_code.co_filename.endswith('xsdcomplextype.py'):
        def local(frame,event,arg):
            if event=='line' and frame.f_lineno==49 and not gate.is_set():  # after publishing []
                gate.set(); done.wait(10)
            return local
        return local
    return None
def A():
    sys.settrace(tracer)
    try: res['A']=XMLNote(default_x=1).to_string.__self__.attributes
    except Exception as e: res['A']=repr(e)[:80]
    sys.settrace(None)
def B():
    gate.wait(10)
    try: res['B']=XMLNote(default_x=1).attributes
    except Exception as e: res['B']=repr(e)[:120]
    done.set()
ta=threading.Thread(target=A); tb=threading.Thread(target=B); ta.start(); tb.start(); ta.join(); tb.join()
print(res)
