import Flat
/-! feasibility: the proof-friendly matcher model on Flat templates and C02 / C12 / C01 on it -/

mutual
def Particle.specs : Particle → List (Nat × Nat × Option Nat)
  | .elem n mi ma => [(n, mi, ma)]
  | .seq _ _ ps => Particle.specsL ps
  | .choice _ _ ps => Particle.specsL ps
  | .group _ _ _ p => p.specs
def Particle.specsL : List Particle → List (Nat × Nat × Option Nat)
  | [] => []
  | p :: ps => p.specs ++ Particle.specsL ps
end

mutual
theorem Particle.specs_names : (p : Particle) → p.specs.map (·.1) = p.leaves
  | .elem _ _ _ => rfl
  | .seq _ _ ps => by simpa [Particle.specs, Particle.leaves] using Particle.specsL_names ps
  | .choice _ _ ps => by simpa [Particle.specs, Particle.leaves] using Particle.specsL_names ps
  | .group _ _ _ p => by simpa [Particle.specs, Particle.leaves] using Particle.specs_names p
theorem Particle.specsL_names : (ps : List Particle) → (Particle.specsL ps).map (·.1) = Particle.leavesL ps
  | [] => rfl
  | p :: ps => by simp [Particle.specsL, Particle.leavesL, Particle.specs_names p, Particle.specsL_names ps]
end

theorem leMax_mono {k k' : Nat} {ma : Option Nat} (h : k ≤ k') (h' : leMax k' ma = true) : leMax k ma = true := by
  cases ma with
  | none => rfl
  | some m => simp [leMax] at *; omega

-- admissible counts never exceed a leaf maxOccurs
mutual
theorem Particle.ok_le_max (c : Nat → Nat) : (p : Particle) → p.flat = true → p.ok c = true →
    ∀ s ∈ p.specs, leMax (c s.1) s.2.2 = true
  | .elem n mi ma, _, h => by
    simp only [Particle.ok, Bool.and_eq_true] at h
    intro s hs; simp [Particle.specs] at hs; subst hs; exact h.2
  | .seq mi ma ps, hf, h => by
    simp only [Particle.flat, Bool.and_eq_true] at hf
    simp only [Particle.ok, Bool.or_eq_true, Bool.and_eq_true] at h
    rcases h with ⟨_, he⟩ | h
    · exact Particle.empL_le_max c ps he
    · exact Particle.okL_le_max c ps hf.2 h
  | .choice _ _ _, hf, _ => by simp [Particle.flat] at hf
  | .group _ mi ma p, hf, h => by
    simp only [Particle.flat, Bool.and_eq_true] at hf
    simp only [Particle.ok, Bool.or_eq_true, Bool.and_eq_true] at h
    rcases h with ⟨_, he⟩ | h
    · exact Particle.emp_le_max c p he
    · exact Particle.ok_le_max c p hf.2 h
theorem Particle.okL_le_max (c : Nat → Nat) : (ps : List Particle) → Particle.flatL ps = true → Particle.okL c ps = true →
    ∀ s ∈ Particle.specsL ps, leMax (c s.1) s.2.2 = true
  | [], _, _ => by intro s hs; simp [Particle.specsL] at hs
  | p :: ps, hf, h => by
    simp only [Particle.flatL, Bool.and_eq_true] at hf
    simp only [Particle.okL, Bool.and_eq_true] at h
    intro s hs
    simp only [Particle.specsL, List.mem_append] at hs
    rcases hs with hs | hs
    · exact Particle.ok_le_max c p hf.1 h.1 s hs
    · exact Particle.okL_le_max c ps hf.2 h.2 s hs
theorem Particle.emp_le_max (c : Nat → Nat) : (p : Particle) → p.emp c = true →
    ∀ s ∈ p.specs, leMax (c s.1) s.2.2 = true
  | .elem n mi ma, h => by
    simp only [Particle.emp, beq_iff_eq] at h
    intro s hs; simp [Particle.specs] at hs; subst hs
    simp only [h]; cases ma <;> simp [leMax]
  | .seq _ _ ps, h => Particle.empL_le_max c ps (by simpa [Particle.emp] using h)
  | .choice _ _ ps, h => Particle.empL_le_max c ps (by simpa [Particle.emp] using h)
  | .group _ _ _ p, h => Particle.emp_le_max c p (by simpa [Particle.emp] using h)
theorem Particle.empL_le_max (c : Nat → Nat) : (ps : List Particle) → Particle.empL c ps = true →
    ∀ s ∈ Particle.specsL ps, leMax (c s.1) s.2.2 = true
  | [], _ => by intro s hs; simp [Particle.specsL] at hs
  | p :: ps, h => by
    simp only [Particle.empL, Bool.and_eq_true] at h
    intro s hs
    simp only [Particle.specsL, List.mem_append] at hs
    rcases hs with hs | hs
    · exact Particle.emp_le_max c p h.1 s hs
    · exact Particle.empL_le_max c ps h.2 s hs
end

/-! ### the model (add-only fragment; ids omitted in this experiment) -/
inductive Err | wrongElement | maxOccurs
  deriving DecidableEq, Repr

def maxOf (p : Particle) (n : Nat) : Option (Option Nat) :=
  (p.specs.find? (fun s => s.1 == n)).map (·.2.2)

def addF (p : Particle) (acc : List Nat) (n : Nat) : Except Err (List Nat) :=
  match maxOf p n with
  | none => .error .wrongElement
  | some ma => if leMax (acc.count n + 1) ma then .ok (acc ++ [n]) else .error .maxOccurs

def runAdds (p : Particle) : List Nat → List Nat → Option (List Nat)
  | acc, [] => some acc
  | acc, n :: w => match addF p acc n with
    | .ok acc' => runAdds p acc' w
    | .error _ => none

def ordered (p : Particle) (acc : List Nat) : List Nat := p.render (cnt acc)
def verdict (p : Particle) (acc : List Nat) : Bool := p.ok (cnt acc)

theorem maxOf_mem {p : Particle} (hnd : p.leaves.Nodup) {s : Nat × Nat × Option Nat} (hs : s ∈ p.specs) :
    maxOf p s.1 = some s.2.2 := by
  unfold maxOf
  have hnd' : (p.specs.map (·.1)).Nodup := by rw [Particle.specs_names]; exact hnd
  generalize p.specs = l at hs hnd'
  induction l with
  | nil => cases hs
  | cons t l ih =>
    simp only [List.map_cons, List.nodup_cons] at hnd'
    rcases List.mem_cons.1 hs with rfl | hs'
    · simp [List.find?]
    · have hne : (t.1 == s.1) = false := by
        apply beq_false_of_ne
        intro heq; exact hnd'.1 (heq ▸ List.mem_map_of_mem (f := (·.1)) hs')
      simp only [List.find?, hne]
      exact ih hs' hnd'.2

theorem mem_leaves_specs {p : Particle} {n : Nat} (h : n ∈ p.leaves) : ∃ s ∈ p.specs, s.1 = n := by
  rw [← Particle.specs_names] at h
  obtain ⟨s, hs, rfl⟩ := List.mem_map.1 h
  exact ⟨s, hs, rfl⟩

/-- any sequence of children whose total counts respect every maxOccurs is accepted, in any order -/
theorem runAdds_all (p : Particle) (hnd : p.leaves.Nodup) (acc w : List Nat)
    (hsub : ∀ x ∈ w, x ∈ p.leaves)
    (hmax : ∀ s ∈ p.specs, leMax (cnt (acc ++ w) s.1) s.2.2 = true) :
    runAdds p acc w = some (acc ++ w) := by
  induction w generalizing acc with
  | nil => simp [runAdds]
  | cons n w ih =>
    obtain ⟨s, hs, rfl⟩ := mem_leaves_specs (hsub n (by simp))
    have hm := hmax s hs
    have hstep : addF p acc s.1 = .ok (acc ++ [s.1]) := by
      unfold addF; rw [maxOf_mem hnd hs]
      have : leMax (acc.count s.1 + 1) s.2.2 = true := by
        apply leMax_mono _ hm
        simp [cnt, List.count_append]
      simp [this]
    simp only [runAdds, hstep]
    have := ih (acc ++ [s.1]) (fun x hx => hsub x (by simp [hx])) (by simpa using hmax)
    simpa using this

/-- C02 on Flat templates: every word of the language, supplied in document order, is accepted,
    passes the final check and is serialised exactly as supplied. -/
theorem C02_flat (p : Particle) (hf : p.flat = true) (hnd : p.leaves.Nodup) (w : List Nat)
    (hw : p.Lang w) :
    runAdds p [] w = some w ∧ verdict p w = true ∧ ordered p w = w := by
  have h := (Particle.flat_iff p hf hnd w).1 hw
  refine ⟨?_, h.1, h.2.symm⟩
  simpa using runAdds_all p hnd [] w (Particle.Lang_subset p w hw)
    (by simpa using Particle.ok_le_max _ p hf h.1)

/-- C12 on Flat templates: any permutation of a valid word is accepted and serialises as the
    (unique) valid arrangement. -/
theorem C12_flat (p : Particle) (hf : p.flat = true) (hnd : p.leaves.Nodup) (w w' : List Nat)
    (hw : p.Lang w) (hp : w'.Perm w) :
    runAdds p [] w' = some w' ∧ verdict p w' = true ∧ ordered p w' = w := by
  have hc : cnt w' = cnt w := by funext n; exact hp.count_eq n
  have h := (Particle.flat_iff p hf hnd w).1 hw
  refine ⟨?_, by simpa [verdict, hc] using h.1, by simpa [ordered, hc] using h.2.symm⟩
  have := runAdds_all p hnd [] w' (fun x hx => Particle.Lang_subset p w hw x (hp.mem_iff.1 hx))
    (by simpa [hc] using Particle.ok_le_max _ p hf h.1)
  simpa using this

#print axioms C02_flat
#print axioms C12_flat

-- non-vacuity on a concrete flat template: pitch = step, alter?, octave  (names 0,1,2)
def pitchT : Particle := .seq 1 (some 1) [.elem 0 1 (some 1), .elem 1 0 (some 1), .elem 2 1 (some 1)]
example : pitchT.flat = true ∧ pitchT.leaves.Nodup ∧ pitchT.accepts [0, 1, 2] = true := by decide
example : runAdds pitchT [] [2, 0, 1] = some [2, 0, 1] ∧ ordered pitchT [2, 0, 1] = [0, 1, 2] := by decide
