"""Independent content-model oracle from the XSD (scratch probe)."""
import xml.etree.ElementTree as ET, re, sys
XS='{http://www.w3.org/2001/XMLSchema}'
root=ET.parse('/repo/musicxml/generate_classes/musicxml_4_0.xsd').getroot()
groups={g.get('name'):g for g in root.findall(XS+'group')}
ctypes={c.get('name'):c for c in root.findall(XS+'complexType')}
def occ(n):
    mi=int(n.get('minOccurs','1')); ma=n.get('maxOccurs','1'); ma=None if ma=='unbounded' else int(ma)
    return mi,ma
def particle(n):
    t=n.tag[len(XS):]
    mi,ma=occ(n)
    if t=='element': return ('e',n.get('name'),mi,ma)
    if t in('sequence','choice'):
        return (t[0], [particle(c) for c in n if c.tag[len(XS):] in ('element','sequence','choice','group')], mi,ma)
    if t=='group':
        g=groups[n.get('ref')]
        inner=[c for c in g if c.tag[len(XS):] in('sequence','choice')][0]
        p=particle(inner)
        return ('s',[p],mi,ma)
    raise Exception(t)
def content_of(ct):
    for c in ct:
        t=c.tag[len(XS):]
        if t in('sequence','choice','group'): return particle(c)
        if t=='complexContent':
            ext=c[0]; base=ctypes[ext.get('base')]
            bp=content_of(base)
            extra=[particle(x) for x in ext if x.tag[len(XS):] in('sequence','choice','group')]
            if extra: return ('s',[bp]+extra,1,1)
            return bp
    return None
def names(p,acc=None):
    acc=[] if acc is None else acc
    if p[0]=='e':
        if p[1] not in acc: acc.append(p[1])
    else:
        for c in p[1]: names(c,acc)
    return acc
def to_regex(p,sym):
    mi,ma=p[2],p[3]
    if p[0]=='e': body=re.escape(sym[p[1]])
    elif p[0]=='s': body='(?:'+''.join(to_regex(c,sym) for c in p[1])+')'
    else: body='(?:'+'|'.join(to_regex(c,sym) for c in p[1])+')'
    if (mi,ma)==(1,1): return body
    q='{%d,%s}'%(mi,'' if ma is None else ma)
    return '(?:'+body+')'+q
class Model:
    def __init__(self,p):
        self.p=p; self.alpha=names(p)
        self.sym={n:chr(0x4e00+i) for i,n in enumerate(self.alpha)}
        self.rx=re.compile(to_regex(p,self.sym))
    def accepts(self,word):
        try: s=''.join(self.sym[w] for w in word)
        except KeyError: return False
        return self.rx.fullmatch(s) is not None
models={}
for n,ct in ctypes.items():
    p=content_of(ct)
    if p: models[n]=Model(p)
# anonymous: score-partwise, part, measure
sp=root.find(XS+"element[@name='score-partwise']")
ct=sp.find(XS+'complexType'); models['score-partwise']=Model(content_of(ct))
pt=ct.find('.//'+XS+"element[@name='part']/"+XS+'complexType'); models['part']=Model(content_of(pt))
ms=pt.find('.//'+XS+"element[@name='measure']/"+XS+'complexType'); models['measure']=Model(content_of(ms))
if __name__=='__main__':
    print(len(models))
    print(models['note'].rx.pattern)
