from lib import *
import copy, tempfile, os
def t(label,f):
    (s,v),out=quiet(f)
    print(label,'->',s, (type(v).__name__+': '+str(v)[:200]) if s=='exc' else repr(v)[:300], ('STDOUT:'+out[:80]) if out else '')
# C14
def f():
    w=XMLWords('x'); w.font_size=12; c=copy.deepcopy(w); return (w.to_string(), c.to_string())
t('deepcopy late attr', f)
def f():
    w=XMLWords('x',font_size=12); w.font_size=None; c=copy.deepcopy(w); return (w.to_string(), c.to_string())
t('deepcopy removed attr', f)
def f():
    w=XMLWords('x',font_size=12); w.font_size=13; c=copy.deepcopy(w); return (w.to_string(), c.to_string())
t('deepcopy changed attr', f)
def f():
    p=XMLPitch(); p.xml_step='C'; p.xml_octave=4; c=copy.deepcopy(p); c.xml_step='D'; return (p.to_string(), c.to_string())
t('deepcopy children', f)
def f():
    p=XMLPartList(xsd_check=False); p.add_child(XMLPartGroup(type='start')); p.add_child(XMLScorePart(id='a')) ; c=copy.deepcopy(p); return (p.to_string()==c.to_string(), c.xsd_check)
t('deepcopy unchecked', f)
# C15
def f():
    p=XMLPitch(); return (p.xml_step, p.xml_alter, )
t('read unset child', f)
def f():
    p=XMLWords('x'); return (p.font_size, p.lang, p.xml_lang if False else None)
t('read unset attr', f)
def f():
    n=XMLNote(); return n.xml_level
t('note.xml_level', f)
def f():
    n=XMLNote(); n.xml_level='2'; return [c.name for c in n.get_children()]
t('note.xml_level set', f)
def f():
    n=XMLNote(); return n.level
t('note.level', f)
def f():
    n=XMLMeasure(number='1'); n.xml_barline=XMLBarline(); n.xml_barline=XMLBarline(location='left');  return [c.attributes for c in n.get_children()]
t('replace via dot', f)
# C16
def f():
    n=XMLNote(); n.xml_rest=XMLRest(); n.xml_duration=1
    a=n.to_string(); b=n.to_string(); r=n.xml_rest.to_string(); return a==b, r, a
t('to_string twice', f)
def f():
    n=XMLNote(); n.xml_rest=XMLRest(); 
    (s,v),_=quiet(n.to_string)
    n.xml_duration=1
    return n.to_string()
t('to_string fail then complete', f)
t('illegal char', lambda: XMLWords('a\x00b').to_string())
t('CR', lambda: ET.fromstring(XMLWords('a\rb').to_string()).text)
t('ws value on parent', lambda: XMLPitch('  x ').to_string())
# C17
def f():
    p=tempfile.mktemp(); open(p,'w').write('OLD')
    s=XMLScorePartwise(version='4.0')
    (r,v),_=quiet(s.write,p)
    return r, open(p).read()
t('write failing', f)
# C18
def f():
    p=XMLPitch(xsd_check=False); p.add_child(XMLOctave(4)); p.add_child(XMLStep('C')); p.add_child(XMLNote()); return p.to_string()
t('unchecked', f)
def f():
    p=XMLMeasure(number='1',xsd_check=False); n=p.add_child(XMLNote()); (r,v),_=quiet(n.add_child,XMLStep('C')); (r2,v2),_=quiet(p.to_string); (r3,v3),_=quiet(n.to_string); return type(v).__name__, r2, r3
t('checked in unchecked', f)
def f():
    p=XMLMeasure(number='1'); n=p.add_child(XMLNote(xsd_check=False)); (r2,v2),_=quiet(p.to_string); return r2,v2
t('unchecked in checked', f)
def f():
    p=XMLPitch(xsd_check=False); s=p.add_child(XMLStep('C')); p.remove(s); p.xml_step='D'; p.replace_child(p.xml_step, XMLOctave(3)); return p.to_string()
t('unchecked ops', f)
