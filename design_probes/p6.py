from obs import *
import collections
rnd=random.Random(3)
c10=collections.defaultdict(list); c11=collections.defaultdict(list)
for k,m in oracle.models.items():
  for it in range(25):
    hist=[]; nid=0; live=[]
    for step in range(rnd.randint(1,6)):
        if rnd.random()<0.8 or not live:
            hist.append(('add',rnd.choice(m.alpha),nid)); live.append(nid); nid+=1
        else:
            i=rnd.choice(live); hist.append(('rm',i))
    o,res=observe(k,hist)
    # twin: only successful adds not removed, in same relative order
    _,ids,_=replay(k,hist)
    removed={op[1] for op in hist if op[0]=='rm' and op[1] in range(nid)}
    succ=[op for op,r in zip(hist,res) if op[0]=='add' and r=='ok']
    twin=[op for op in succ if op[2] in ids]
    had_fail=any(r not in('ok','noop') for r in res)
    had_rm=any(op[0]=='rm' and r=='ok' for op,r in zip(hist,res))
    # C10: history without failed ops
    clean=[op for op,r in zip(hist,res) if r in('ok',)]
    if had_fail:
        o2,_=observe(k,clean)
        if o2!=o: c10[k].append((hist,res))
    if had_rm and not had_fail:
        o3,r3=observe(k,twin)
        if o3!=o: c11[k].append((hist,res,[x for x in o if o[x]!=o3[x]]))
print('C10 fails',{k:len(v) for k,v in c10.items()})
for k,v in c10.items():
    v.sort(key=lambda x:len(x[0])); print('  ',k,v[0])
print('C11 fails',{k:len(v) for k,v in c11.items()})
for k,v in c11.items():
    v.sort(key=lambda x:len(x[0])); print('  ',k,v[0])
