import time, io, contextlib, warnings; warnings.simplefilter('ignore')
from musicxml.parser.parser import parse_musicxml
import xml.etree.ElementTree as ET
for f in ['/repo/musicxml/parser/test_hello_world.xml','/repo/musicxml/parser/test_bach_partita_3.xml']:
    t=time.time()
    buf=io.StringIO()
    try:
        with contextlib.redirect_stdout(buf):
            s=parse_musicxml(f)
            out=s.to_string()
        print(f, 'ok', round(time.time()-t,1),'s', len(out), 'stdout', len(buf.getvalue()))
        a=ET.parse(f).getroot(); b=ET.fromstring(out)
        def canon(e): return (e.tag, sorted(e.attrib.items()), (e.text or '').strip(), [canon(c) for c in e])
        ca,cb=canon(a),canon(b)
        print('same infoset (exact text):', ca==cb)
        if ca!=cb:
            def diff(x,y,path=''):
                if x[0]!=y[0] or x[1]!=y[1] or x[2]!=y[2]: return (path,x[:3],y[:3])
                if len(x[3])!=len(y[3]): return (path,'nchildren',[c[0] for c in x[3]],[c[0] for c in y[3]])
                for i,(c,d) in enumerate(zip(x[3],y[3])):
                    r=diff(c,d,path+'/'+c[0]+str(i))
                    if r: return r
            print(diff(ca,cb))
    except Exception as e:
        print(f,'EXC',type(e).__name__,str(e)[:200], round(time.time()-t,1))
