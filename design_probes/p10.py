# Is the reversed-path cache staleness observable? Compare behaviours with caching disabled.
from obs import *
from verysimpletree.tree import Tree
import collections
orig=Tree.get_reversed_path_to_root
def nocache(self): return list(self._raw_reversed_path_to_root())
rnd=random.Random(5)
hists=[]
for k,m in oracle.models.items():
    n=400 if k in('credit','lyric','metronome','note','part-list','harmony','sound','score-part','key','time','ornaments','direction-type','measure','notations','attributes') else 60
    for it in range(n):
        hist=[]; nid=0; live=[]
        for step in range(rnd.randint(2,12)):
            if rnd.random()<0.8 or not live:
                hist.append(('add',rnd.choice(m.alpha),nid)); live.append(nid); nid+=1
            else: hist.append(('rm',rnd.choice(live)))
        hists.append((k,hist))
def run():
    out=[]
    for k,h in hists:
        e,ids,res=replay(k,h)
        out.append((res,[c.name for c in e.get_children()],verdict(e)))
    return out
a=run()
Tree.get_reversed_path_to_root=nocache
b=run()
diff=[(hists[i],a[i],b[i]) for i in range(len(a)) if a[i]!=b[i]]
print(len(hists),'diffs',len(diff))
for d in diff[:5]: print(d)
