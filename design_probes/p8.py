from lib import *
import copy, tempfile, os
from musicxml.parser.parser import parse_musicxml
def t(label,f):
    (s,v),out=quiet(f)
    print(label,'->',s, (type(v).__name__+': '+str(v)[:200]) if s=='exc' else repr(v)[:300], ('STDOUT:'+out[:80]) if out else '')
def parse_str(s):
    p=tempfile.mktemp(suffix='.xml'); open(p,'w',encoding='utf-8').write(s)
    try: return parse_musicxml(p).to_string()
    finally: os.remove(p)
mini='''<score-partwise version="4.0"><part-list><score-part id="P1"><part-name>M</part-name></score-part></part-list><part id="P1"><measure number="1">%s</measure></part></score-partwise>'''
t('mini', lambda: parse_str(mini%''))
t('note', lambda: parse_str(mini%'<note><pitch><step>C</step><octave>4</octave></pitch><duration>4</duration><type>whole</type></note>'))
t('lang', lambda: parse_str(mini%'<direction><direction-type><words xml:lang="en">hi</words></direction-type></direction>'))
t('tail', lambda: parse_str(mini%'<note>junk<rest/>tail<duration>4</duration></note>'))
t('font-size attr', lambda: parse_str(mini%'<direction><direction-type><words font-size="12" default-x="3">hi</words></direction-type></direction>'))
t('font-size css', lambda: parse_str(mini%'<direction><direction-type><words font-size="large">hi</words></direction-type></direction>'))
t('misc', lambda: parse_str('''<score-partwise version="4.0"><identification><miscellaneous><miscellaneous-field name="a">b</miscellaneous-field></miscellaneous></identification><part-list><score-part id="P1"><part-name>M</part-name></score-part></part-list><part id="P1"><measure number="1"/></part></score-partwise>'''))
t('lyric extend', lambda: parse_str(mini%'<note><rest/><duration>4</duration><lyric><extend/></lyric></note>'))
t('int in decimal', lambda: parse_str(mini%'<note><rest/><duration>4</duration></note>'))
t('staff int', lambda: parse_str(mini%'<note><rest/><duration>4.5</duration><staff>1</staff></note>'))
t('bad staff', lambda: parse_str(mini%'<note><rest/><duration>4.5</duration><staff>x</staff></note>'))
t('words ws', lambda: parse_str(mini%'<direction><direction-type><words>  hi  there </words></direction-type></direction>'))
t('unknown el', lambda: parse_str(mini%'<foo/>'))
t('content attr', lambda: parse_str(mini%'<note content="zzz"><rest/><duration>4</duration></note>'))
t('level attr', lambda: parse_str(mini%'<note level="zzz" _x="1"><rest/><duration>4</duration></note>'))
t('xsd_check attr', lambda: parse_str(mini%'<note xsd_check=""><duration>4</duration></note>'))
t('measure number int', lambda: parse_str(mini%'<print new-page="yes" page-number="2"/>'))
t('harmony2', lambda: parse_str(mini%'<harmony><root><root-step>C</root-step></root><kind>major</kind><function>x</function><kind>minor</kind></harmony>'))
