from obs import *
import collections, itertools
from feats import feats
rnd=random.Random(7)
def gen(p,rep=2):
    mi,ma=p[2],p[3]
    hi = mi+rep if ma is None else min(ma,mi+rep)
    n=rnd.choice([mi,hi,rnd.randint(mi,hi)])
    out=[]
    for _ in range(n):
        if p[0]=='e': out.append(p[1])
        elif p[0]=='s':
            for c in p[1]: out+=gen(c,rep)
        else: out+=gen(rnd.choice(p[1]),rep)
    return out
def cls_of(m):
    f=feats(m.p)
    if f['c']==0 and f['s_unb']==0 and f['s_multi']==0 and f['dupnames']==0: return 'FLAT'
    if m.p[0]=='c' and f['c']==1 and f['choice_nonleaf_branch']==0 and f['dupnames']==0 and f['s']==0: return 'ROOTCHOICE'
    return 'OTHER'
bad=collections.defaultdict(list); n=0
for k,m in oracle.models.items():
    c=cls_of(m)
    for it in range(40):
        w=gen(m.p)
        if len(w)>10: continue
        # unique arrangement? for FLAT: yes up to same-name swaps. 
        sh=list(enumerate(w)); rnd.shuffle(sh)
        e=REP[k](); ok=True
        kids=[]
        for i,nm in sh:
            ch=mk(nm); kids.append((i,nm,ch))
            (s,v),_=quiet(e.add_child,ch)
            if s=='exc': ok=False; bad[(c,k)].append(('reject',w,[x[1] for x in sh],nm,type(v).__name__)); break
        n+=1
        if ok:
            vd=verdict(e); on=ordered_names(e)
            if vd!='OK' or not m.accepts(on): bad[(c,k)].append(('final',w,[x[1] for x in sh],vd,on))
            elif c!='OTHER' and sorted(on)!=sorted(w): bad[(c,k)].append(('lost',))
print(n)
for kk,v in sorted(bad.items()):
    print(kk,len(v),v[0])
