from obs import *
from feats import feats
rnd=random.Random(10)
def leaf_order(p,acc=None):
    acc=[] if acc is None else acc
    if p[0]=='e': acc.append(p[1])
    else:
        for c in p[1]: leaf_order(c,acc)
    return acc
bad=[]; n=0
for k,m in oracle.models.items():
    f=feats(m.p)
    if not (f['c']==0 and f['s_unb']==0 and f['s_multi']==0 and f['dupnames']==0): continue
    lo={nm:i for i,nm in enumerate(leaf_order(m.p))}
    for it in range(120):
        e=REP[k](); live=[]
        for step in range(rnd.randint(1,10)):
            if rnd.random()<0.75 or not live:
                c=mk(rnd.choice(m.alpha)); (s,v),_=quiet(e.add_child,c)
                if s=='ok': live.append(c)
                elif type(v).__name__ not in OKEXC: bad.append((k,'internal',type(v).__name__))
            else:
                c=rnd.choice(live); (s,v),_=quiet(e.remove,c)
                if s=='ok': live.remove(c)
                else: bad.append((k,'rm',type(v).__name__))
            n+=1
            o=e.get_children(); u=e.get_children(ordered=False)
            exp=sorted(live,key=lambda x:lo[x.name])  # stable
            if [id(x) for x in u]!=[id(x) for x in live] or [id(x) for x in o]!=[id(x) for x in exp]:
                bad.append((k,'order',[x.name for x in o],[x.name for x in live])); break
            if any(x.get_parent() is not e for x in live): bad.append((k,'parent'))
print(n,len(bad)); print(bad[:5])
