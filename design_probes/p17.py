# C11 twin test on Tame types (remove), optionally against patched repo
from obs import *
from feats import feats
import collections, sys
import musicxml; print(musicxml.__file__ if hasattr(musicxml,'__file__') else musicxml.__path__)
def cls_of(m):
    f=feats(m.p)
    if f['c']==0 and f['s_unb']==0 and f['s_multi']==0 and f['dupnames']==0: return 'FLAT'
    if m.p[0]=='c' and f['c']==1 and f['choice_nonleaf_branch']==0 and f['dupnames']==0 and f['s']==0: return 'ROOTCHOICE'
    return 'OTHER'
rnd=random.Random(4)
bad=collections.defaultdict(list); n=0
only=sys.argv[1] if len(sys.argv)>1 else 'TAME'
for k,m in oracle.models.items():
    c=cls_of(m)
    if (only=='TAME') != (c!='OTHER'): continue
    for it in range(40):
        hist=[]; nid=0; live=[]
        for step in range(rnd.randint(2,7)):
            if rnd.random()<0.7 or not live:
                hist.append(('add',rnd.choice(m.alpha),nid)); live.append(nid); nid+=1
            else:
                i=rnd.choice(live); hist.append(('rm',i)); 
        o,res=observe(k,hist)
        if not any(op[0]=='rm' and r=='ok' for op,r in zip(hist,res)): continue
        _,ids,_=replay(k,hist)
        twin=[op for op,r in zip(hist,res) if op[0]=='add' and r=='ok' and op[2] in ids]
        o3,r3=observe(k,twin); n+=1
        if o3!=o: bad[(c,k)].append((hist,res,[x for x in o if o[x]!=o3[x]]))
print(n,'C11 fails',{k:len(v) for k,v in bad.items()})
for k,v in list(bad.items())[:8]:
    v.sort(key=lambda x:len(x[0])); print('  ',k,v[0])
