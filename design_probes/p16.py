from obs import *
import collections, itertools
from feats import feats
def cls_of(m):
    f=feats(m.p)
    if f['c']==0 and f['s_unb']==0 and f['s_multi']==0 and f['dupnames']==0: return 'FLAT'
    if m.p[0]=='c' and f['c']==1 and f['choice_nonleaf_branch']==0 and f['dupnames']==0 and f['s']==0: return 'ROOTCHOICE'
    return 'OTHER'
rnd=random.Random(21)
bad=collections.defaultdict(list); n=0
for k,m in oracle.models.items():
    c=cls_of(m)
    if c=='OTHER': continue
    al=m.alpha
    # exhaustive up to len L if small alphabet else random
    L=4 if len(al)<=6 else (3 if len(al)<=12 else 2)
    seqs=[s for l in range(L+1) for s in itertools.product(al,repeat=l)]
    for _ in range(150):
        seqs.append(tuple(rnd.choice(al) for _ in range(rnd.randint(3,9))))
    for w in seqs:
        e=REP[k](); acc=[]
        for nm in w:
            (s,v),_=quiet(e.add_child,mk(nm))
            if s=='ok': acc.append(nm)
            elif type(v).__name__ not in OKEXC: bad[k].append(('internal',w,type(v).__name__))
        n+=1
        vd=verdict(e); on=ordered_names(e)
        if sorted(on)!=sorted(acc): bad[k].append(('lost',w)); continue
        if (vd=='OK')!=m.accepts(on): bad[k].append(('verdict',w,vd,on)); 
        # second check idempotent
        if verdict(e)!=vd: bad[k].append(('idem',w))
print(n, {k:len(v) for k,v in bad.items()})
for k,v in bad.items(): print(k,v[:2])
