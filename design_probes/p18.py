from lib import *
import xml.etree.ElementTree as ET, collections, math
from musicxml.xsd import xsdsimpletype as ST
XS='{http://www.w3.org/2001/XMLSchema}'
root=ET.parse('/repo/musicxml/generate_classes/musicxml_4_0.xsd').getroot()
sts={s.get('name'):s for s in root.findall(XS+'simpleType')}
def facets(name, acc=None):
    acc=acc if acc is not None else {}
    s=sts.get(name)
    if s is None: return acc, name
    r=s.find(XS+'restriction')
    if r is None: return acc,'union'
    for f in r:
        t=f.tag[len(XS):]
        if t in('minInclusive','maxInclusive','minExclusive','maxExclusive'): acc.setdefault(t,f.get('value'))
    b=r.get('base')
    if b.startswith('xs:'): return acc,b
    return facets(b,acc)
def spec_ok(fs,base,v):
    if base in('xs:positiveInteger',) and v<1: return False
    if base in('xs:nonNegativeInteger',) and v<0: return False
    if base in ('xs:integer','xs:positiveInteger','xs:nonNegativeInteger') and v!=int(v): return False
    for k,val in fs.items():
        val=float(val)
        if k=='minInclusive' and v<val: return False
        if k=='maxInclusive' and v>val: return False
        if k=='minExclusive' and v<=val: return False
        if k=='maxExclusive' and v>=val: return False
    return True
from musicxml.util.core import convert_to_xsd_class_name
bad=[]
n=0
for name in sts:
    fs,base=facets(name)
    if base not in('xs:decimal','xs:integer','xs:positiveInteger','xs:nonNegativeInteger'): continue
    cls=getattr(ST,convert_to_xsd_class_name(name))
    pts=set([0,1,-1,0.5,-0.5,1.5])
    for val in fs.values():
        x=float(val); pts|={x,x-1,x+1,x-0.5,x+0.5,x+1e-9,x-1e-9}
    isint=base!='xs:decimal'
    for v in sorted(pts):
        cands=[v] if not float(v).is_integer() else [int(v), float(v)]
        for pv in cands:
            n+=1
            try: cls(pv); acc=True
            except (TypeError,ValueError) as e: acc=False
            exp=spec_ok(fs,base,pv) and (not isint or isinstance(pv,int))
            if isint and isinstance(pv,float) and float(pv).is_integer(): continue  # 1.0 for integer: lexical '1.0' invalid; library rejects floats (fine)
            if acc!=exp: bad.append((name,base,fs,pv,'lib accepts' if acc else 'lib rejects'))
print(n,len(bad))
for b in bad[:40]: print(b)
