from lib import *
import collections
def feats(p, top=True):
    f=collections.Counter()
    def walk(p,depth,under_choice,under_unb):
        mi,ma=p[2],p[3]
        if p[0]=='e':
            f['leaf']+=1; return
        f[p[0]]+=1
        if ma is None: f[p[0]+'_unb']+=1
        if ma is not None and ma>1: f[p[0]+'_multi']+=1
        if p[0]=='c' and depth>0: f['inner_choice']+=1
        if p[0]=='c':
            for c in p[1]:
                if c[0]!='e': f['choice_nonleaf_branch']+=1
                elif (c[2],c[3])!=(1,1): f['choice_leaf_occ']+=1
        for c in p[1]: walk(c,depth+1,under_choice or p[0]=='c', under_unb or ma is None)
    walk(p,0,False,False)
    al=[]; 
    def leaves(p):
        if p[0]=='e': al.append(p[1])
        else:
            for c in p[1]: leaves(c)
    leaves(p)
    f['dupnames']=len(al)-len(set(al))
    return f
classes=collections.defaultdict(list)
for k,m in sorted(oracle.models.items()):
    f=feats(m.p)
    if f['c']==0 and f['s_unb']==0 and f['s_multi']==0 and f['dupnames']==0: cl='FLATSEQ'
    elif m.p[0]=='c' and f['c']==1 and f['choice_nonleaf_branch']==0 and f['dupnames']==0 and f['s']==0: cl='ROOTCHOICE(%s,%s)'%(m.p[2],m.p[3])
    elif f['dupnames']==0: cl='NODUP'
    else: cl='DUP'
    classes[cl].append(k)
for cl,v in classes.items(): print(cl,len(v),v)
