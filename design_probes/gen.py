import sys; sys.path.insert(0,__import__('os').path.dirname(__file__))
import oracle
names=sorted({n for m in oracle.models.values() for n in m.alpha})
idx={n:i for i,n in enumerate(names)}
def mx(m): return 'none' if m is None else f'(some {m})'
def lp(p):
    if p[0]=='e': return f'.elem {idx[p[1]]} {p[2]} {mx(p[3])}'
    k='.seq' if p[0]=='s' else '.choice'
    return f'{k} {p[2]} {mx(p[3])} [' + ', '.join(lp(c) for c in p[1]) + ']'
out=['import Re','inductive P where','  | elem (n : Nat) (min : Nat) (max : Option Nat)','  | seq (min : Nat) (max : Option Nat) (ps : List P)','  | choice (min : Nat) (max : Option Nat) (ps : List P)','deriving Repr, DecidableEq, BEq','']
out.append('def nameTable : Array String := #['+', '.join('"%s"'%n for n in names)+']')
for i,(k,m) in enumerate(sorted(oracle.models.items())):
    out.append(f'def t{i} : P := {lp(m.p)}')
out.append('def templates : List (String × P) := ['+', '.join(f'("{k}", t{i})' for i,(k,m) in enumerate(sorted(oracle.models.items())))+']')
open('Tables.lean','w').write('\n'.join(out)+'\n')
print(len(names))
