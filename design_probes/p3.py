from lib import *
import collections
rnd=random.Random(1)
def gen(p,rep=3):
    mi,ma=p[2],p[3]
    hi = mi+rep if ma is None else min(ma,mi+rep)
    n=rnd.choice([mi,mi,hi,rnd.randint(mi,hi)])
    out=[]
    for _ in range(n):
        if p[0]=='e': out.append(p[1])
        elif p[0]=='s':
            for c in p[1]: out+=gen(c,rep)
        else: out+=gen(rnd.choice(p[1]),rep)
    return out
fails=collections.defaultdict(list)
tot=0
for k,m in oracle.models.items():
    seen=set()
    for i in range(300):
        w=tuple(gen(m.p))
        if w in seen or len(w)>25: continue
        seen.add(w); tot+=1
        assert m.accepts(w),(k,w)
        e=REP[k]()
        st=None
        for idx,n in enumerate(w):
            (r,val),out=quiet(e.add_child,mk(n))
            if r=='exc': st=('add',idx,type(val).__name__); break
            if out: st=('print',idx,out[:40])
        if st is None or st[0]=='print':
            (r,val),out=quiet(e._final_checks)
            # only this element's own check: children may be incomplete -> use container directly
            (r,val),out=quiet(e.child_container_tree.get_required_element_names)
            if r=='exc': st=('final',type(val).__name__,str(val)[:50])
            elif val: st=('required',str(val)[:60])
            elif ordered_names(e)!=list(w): st=('order',ordered_names(e))
        if st: fails[k].append((w,st))
print('total words',tot,'types with failures',len(fails))
for k,v in fails.items():
    print('==',k,len(v))
    kinds=collections.Counter(s[0]+':'+str(s[-1] if s[0] in('add','final') else '') for w,s in v)
    print('  ',dict(kinds))
    v.sort(key=lambda x:len(x[0]))
    for w,s in v[:2]: print('   ',w,s)
