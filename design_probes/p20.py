from lib import *
from musicxml.xsd.xsdindicator import XSDSequence, XSDChoice, XSDGroup
from musicxml.xsd.xsdelement import XSDElement
def impl_tree(c):
    k=c.content
    mi=c.min_occurrences; ma=None if c.max_occurrences=='unbounded' else c.max_occurrences
    if isinstance(k,XSDElement): return ('e',k.name,mi,ma)
    kids=[impl_tree(ch) for ch in c.get_children()]
    if isinstance(k,XSDGroup): return ('s',kids,mi,ma)   # group node wraps its sequence child
    if isinstance(k,XSDSequence): return ('s',kids,mi,ma)
    if isinstance(k,XSDChoice): return ('c',kids,mi,ma)
    raise Exception(k)
def norm(p):
    # drop seq(1,1) wrappers with single child (group inlining differences), sort choice branches
    if p[0]=='e': return p
    kids=[norm(x) for x in p[1]]
    if p[0]=='c': kids=sorted(kids,key=repr)
    return (p[0],kids,p[2],p[3])
diff=[]; exact=0
for k,m in oracle.models.items():
    T=REP[k].TYPE
    it=impl_tree(containers[T.__name__])
    if it==m.p: exact+=1
    elif norm(it)==norm(m.p): diff.append((k,'equal modulo choice order'))
    else: diff.append((k,'DIFFERENT'))
print('exact',exact,diff)
