import sys, io, contextlib, random, itertools
sys.path.insert(0,__import__('os').path.dirname(__file__))
import warnings; warnings.simplefilter('ignore')
from musicxml.xmlelement.xmlelement import *
from musicxml.xmlelement.xmlelement import XMLElement
from musicxml.xmlelement import xmlelement as XE
from musicxml.xmlelement.containers import containers
from musicxml.util.core import convert_to_xml_class_name
import oracle
ALL=[c for n,c in vars(XE).items() if isinstance(c,type) and issubclass(c,XMLElement) and c is not XMLElement]
def tname(cls):
    T=cls.TYPE
    n=T.__name__
    return n
# map complex type class name -> oracle model key
def key_of_type(T):
    t=T.get_xsd_tree()
    nm=t.name
    if nm: return nm
    return {'XSDComplexTypeScorePartwise':'score-partwise','XSDComplexTypePart':'part','XSDComplexTypeMeasure':'measure'}.get(T.__name__)
REP={}  # type key -> representative element class
for c in ALL:
    if c.TYPE.__name__ in containers:
        k=key_of_type(c.TYPE)
        REP.setdefault(k,c)
CANDS=['', 'a', 1, 1.5, 'yes','start','C','2000-01-01','above','major','sharp','quarter','up','G','begin','single','explicit','regular','normal','light-heavy', 'whole','other','none','brace','actual', 'down','solid', 'text','chord']
_vcache={}
def mk(name):
    cls=getattr(XE,convert_to_xml_class_name(name))
    if cls in _vcache:
        v=_vcache[cls]
        return cls(v) if v is not NotImplemented else cls()
    T=cls.TYPE
    cands=list(CANDS)
    try:
        st=T._SIMPLE_CONTENT if hasattr(T,'_SIMPLE_CONTENT') and T._SIMPLE_CONTENT else (T if 'SimpleType' in T.__name__ else None)
        if st is not None:
            perm=st.get_xsd_tree().get_permitted()
            if perm: cands=perm[:1]+cands
    except Exception as e: pass
    for v in cands:
        try:
            e=cls(v); _vcache[cls]=v; return e
        except (TypeError,ValueError): pass
    raise Exception('no value for '+name)
def quiet(f,*a,**k):
    buf=io.StringIO()
    with contextlib.redirect_stdout(buf):
        try: r=('ok',f(*a,**k))
        except Exception as e: r=('exc',e)
    return r,buf.getvalue()
def ordered_names(e): return [c.name for c in e.get_children()]
