from lib import *
import collections
props=XMLElement._PROPERTIES
names=collections.defaultdict(set); broken=collections.defaultdict(list)
nattr=0
for c in ALL:
    T=c.TYPE
    if not T.get_xsd_tree().is_complex_type: continue
    try:
        for a in T.get_xsd_attributes():
            try:
                names[a.name].add(c.__name__); nattr+=1
                a.type_
            except Exception as e:
                broken[type(e).__name__+':'+str(e)[:50]].append(c.__name__)
    except Exception as e: broken['TABLE '+repr(e)[:60]].append(c.__name__)
print(len(names),nattr)
print('collide', {n:sorted(v)[:6] for n,v in names.items() if n in props or n.startswith('_') or n.startswith('xml') or '_' in n})
for k,v in broken.items(): print(k, sorted(set(v)))
# simple-content union types used for element content
from musicxml.xsd import xsdsimpletype as ST
for c in ALL:
    T=c.TYPE
    st=T if T.get_xsd_tree().is_simple_type else getattr(T,'_SIMPLE_CONTENT',None)
    if st is not None and (getattr(st,'_UNION',None) or getattr(st,'_FORCED_PERMITTED',None)): print('union content', c.__name__, st.__name__)
