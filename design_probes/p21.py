from obs import *
rnd=random.Random(9)
RC=['articulations','dynamics','encoding','technical','listen','measure-style','percussion']
bad=[]; n=0
for k in RC:
    m=oracle.models[k]
    for it in range(400):
        e=REP[k](); live=[]
        for step in range(rnd.randint(1,10)):
            if rnd.random()<0.75 or not live:
                c=mk(rnd.choice(m.alpha)); (s,v),_=quiet(e.add_child,c)
                if s=='ok': live.append(c)
                elif type(v).__name__ not in OKEXC: bad.append((k,'internal',type(v).__name__))
            else:
                c=rnd.choice(live); (s,v),_=quiet(e.remove,c)
                if s=='ok': live.remove(c)
                else: bad.append((k,'rm',type(v).__name__))
            n+=1
            o=e.get_children(); u=e.get_children(ordered=False)
            if [id(x) for x in o]!=[id(x) for x in u] or [id(x) for x in u]!=[id(x) for x in live]:
                bad.append((k,'order',[x.name for x in o],[x.name for x in u])); break
print(n,len(bad)); print(bad[:5])
