from lib import *
OKEXC=('XMLChildContainerWrongElementError','XMLChildContainerChoiceHasAnotherChosenChild','XMLChildContainerMaxOccursError')
def replay(k,hist):
    """hist: list of ('add',name,id) / ('rm',id) ; returns element, dict id->child, results"""
    e=REP[k](); ids={}; res=[]
    for op in hist:
        if op[0]=='add':
            c=mk(op[1]); (s,v),out=quiet(e.add_child,c)
            if s=='ok': ids[op[2]]=c
            res.append('ok' if s=='ok' else type(v).__name__)
        elif op[0]=='rm':
            c=ids.get(op[1])
            if c is None: res.append('noop'); continue
            (s,v),out=quiet(e.remove,c); res.append('ok' if s=='ok' else type(v).__name__)
            if s=='ok': del ids[op[1]]
    return e,ids,res
def verdict(e,ic=False):
    (s,v),out=quiet(e.child_container_tree.get_required_element_names,ic)
    return 'EXC:'+type(v).__name__ if s=='exc' else ('REQ' if v else 'OK')
def observe(k,hist,deep=True):
    e,ids,res=replay(k,hist)
    inv={id(c):i for i,c in ids.items()}
    o={'ordered':[ (c.name) for c in e.get_children()], 'unordered':[c.name for c in e.get_children(ordered=False)]}
    o['verdict']=verdict(e)
    if deep:
        acc={}
        for n in oracle.models[k].alpha:
            e2,_,r2=replay(k,hist+[('add',n,-1)])
            acc[n]=(r2[-1], [c.name for c in e2.get_children()], verdict(e2))
        o['next']=acc
    return o,res
