from lib import *
print(len(ALL), len(REP), sorted(set(oracle.models)-set(REP)), sorted(set(REP)-set(oracle.models)))
# check all alphabet children constructible
bad=[]
for k,m in oracle.models.items():
    for n in m.alpha:
        try: mk(n)
        except Exception as e: bad.append((k,n,repr(e)))
print(bad)
