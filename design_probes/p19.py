from lib import *
import tempfile, os
from musicxml.parser.parser import parse_musicxml, _parse_node
import xml.etree.ElementTree as ET
def t(label,f):
    (s,v),out=quiet(f)
    print(label,'->',s, (type(v).__name__+': '+str(v)[:160]) if s=='exc' else repr(v)[:200], ('STDOUT:'+out[:60]) if out else '')
def ps(s): return _parse_node(ET.fromstring(s)).to_string()
# C18 negatives
def f():
    p=XMLPitch(xsd_check=False); p.remove(XMLStep('C'))
t('unchecked remove non-child', f)
def f():
    p=XMLPitch(); p.remove(XMLStep('C'))
t('checked remove non-child', f)
def f():
    p=XMLPitch(xsd_check=False); p.replace_child(XMLStep('C'),XMLStep('D'))
t('unchecked replace non-child', f)
def f():
    p=XMLPitch(xsd_check=False); p.add_child('notanelement'); return p.to_string()
t('unchecked add non-element', f)
def f():
    p=XMLPitch(); p.add_child('notanelement')
t('checked add non-element', f)
def f():
    p=XMLStep('C',xsd_check=False); p.add_child(XMLOctave(1)); return p.to_string()
t('unchecked simple-type parent', f)
def f():
    p=XMLStep('C'); p.add_child(XMLOctave(1))
t('checked simple-type parent', f)
# C08 union content
t('ensemble empty', lambda: ps('<ensemble></ensemble>'))
t('ensemble 3', lambda: ps('<ensemble>3</ensemble>'))
t('ensemble x', lambda: ps('<ensemble>x</ensemble>'))
t('measure-repeat', lambda: ps('<measure-repeat type="start">2</measure-repeat>'))
t('words font-size float', lambda: ps('<words font-size="12.5" letter-spacing="normal" line-height="1.5">a</words>'))
t('pan', lambda: ps('<pan>-90</pan>'))
t('pan bad', lambda: ps('<pan>abc</pan>'))
t('octave 4.0', lambda: ps('<octave>4.0</octave>'))
t('duration 1e3', lambda: ps('<duration>1e3</duration>'))
t('duration big', lambda: ps('<duration>123456789012345678901234567890</duration>'))
t('fifths +1', lambda: ps('<fifths>+1</fifths>'))
t('fifths " 1 "', lambda: ps('<fifths> 1 </fifths>'))
t('tenths 1_0', lambda: ps('<tenths>1_0</tenths>'))
t('staff ١', lambda: ps('<staff>١</staff>'))
t('duration inf', lambda: ps('<duration>inf</duration>'))
t('number attr', lambda: ps('<slur type="start" number="01"/>'))
t('attr yes-no-number', lambda: ps('<sound pizzicato="yes" dynamics="80"/>'))
t('attr bool-ish', lambda: ps('<sound dynamics="1e2"/>'))
t('measure number', lambda: ps('<measure number="12"/>'))
t('measure width', lambda: ps('<measure number="1" width="100"/>'))
t('text str digits', lambda: ps('<words>123</words>'))
t('part-name', lambda: ps('<part-name>007</part-name>'))
