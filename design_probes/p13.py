from obs import *
import collections
rnd=random.Random(11)
def rand_hist(m,n):
    hist=[]; nid=0; live=[]
    for step in range(n):
        if rnd.random()<0.8 or not live:
            hist.append(('add',rnd.choice(m.alpha),nid)); live.append(nid); nid+=1
        else: hist.append(('rm',rnd.choice(live)))
    return hist
def snap(e):
    return ([c.name for c in e.get_children()],[c.name for c in e.get_children(ordered=False)],verdict(e))
# C13: isolation between same-class instances
iso=collections.Counter(); idem=collections.defaultdict(list)
for k,m in oracle.models.items():
    for it in range(30):
        h1=rand_hist(m,rnd.randint(1,6)); h2=rand_hist(m,rnd.randint(1,8))
        a,_,_=replay(k,h1); s1=snap(a)
        b,_,_=replay(k,h2); verdict(b,True); 
        s2=snap(a)
        if s1!=s2: iso[k]+=1
        # C16-ish: does calling the check (with/without ic) change later acceptance?
        for ic in (False,True):
            base={}
            for n in m.alpha:
                e,_,_=replay(k,h1); (s,v),_=quiet(e.add_child,mk(n)); base[n]=(s=='ok',[c.name for c in e.get_children()])
            aft={}
            for n in m.alpha:
                e,_,_=replay(k,h1); verdict(e,ic); verdict(e,ic); (s,v),_=quiet(e.add_child,mk(n)); aft[n]=(s=='ok',[c.name for c in e.get_children()])
            if base!=aft: idem[(k,ic)].append((h1,[n for n in base if base[n]!=aft[n]][:3]))
print('isolation diffs',dict(iso))
print('check-changes-later', {k:len(v) for k,v in idem.items()})
for k,v in list(idem.items())[:6]:
    v.sort(key=lambda x:len(x[0])); print(k,v[0])
