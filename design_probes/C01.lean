import Msimple
/-! feasibility: C01 on Flat templates (verdict ok ⇒ serialised word ∈ language) -/

mutual
theorem Particle.cnt_render (c : Nat → Nat) : (p : Particle) → p.flat = true → p.leaves.Nodup →
    ∀ n ∈ p.leaves, cnt (p.render c) n = c n
  | .elem m _ _, _, _ => by
    intro n hn; simp [Particle.leaves] at hn; subst hn; simp [Particle.render, cnt]
  | .seq _ _ ps, hf, hnd => by
    simp only [Particle.flat, Bool.and_eq_true] at hf
    simpa [Particle.render, Particle.leaves] using
      Particle.cnt_renderL c ps hf.2 (by simpa [Particle.leaves] using hnd)
  | .choice _ _ _, hf, _ => by simp [Particle.flat] at hf
  | .group _ _ _ p, hf, hnd => by
    simp only [Particle.flat, Bool.and_eq_true] at hf
    simpa [Particle.render, Particle.leaves] using
      Particle.cnt_render c p hf.2 (by simpa [Particle.leaves] using hnd)
theorem Particle.cnt_renderL (c : Nat → Nat) : (ps : List Particle) → Particle.flatL ps = true →
    (Particle.leavesL ps).Nodup → ∀ n ∈ Particle.leavesL ps, cnt (Particle.renderL c ps) n = c n
  | [], _, _ => by intro n hn; simp [Particle.leavesL] at hn
  | p :: ps, hf, hnd => by
    simp only [Particle.flatL, Bool.and_eq_true] at hf
    simp only [Particle.leavesL, List.nodup_append] at hnd
    obtain ⟨hn1, hn2, hdisj⟩ := hnd
    intro n hn
    simp only [Particle.leavesL, List.mem_append] at hn
    simp only [Particle.renderL]
    rcases hn with hn | hn
    · rw [cnt_append_left (fun h' => hdisj n hn n (Particle.renderL_subset c ps n h') rfl)]
      exact Particle.cnt_render c p hf.1 hn1 n hn
    · rw [cnt_append_right (fun h' => hdisj n (Particle.render_subset c p n h') n hn rfl)]
      exact Particle.cnt_renderL c ps hf.2 hn2 n hn
end

/-- C01 on Flat templates: if the final check passes, the schema-ordered child word is a word of
    the content model — for every multiset of accepted children, however it was reached. -/
theorem C01_flat (p : Particle) (hf : p.flat = true) (hnd : p.leaves.Nodup) (acc : List Nat)
    (hv : verdict p acc = true) : p.Lang (ordered p acc) := by
  have hc := Particle.cnt_render (cnt acc) p hf hnd
  refine (Particle.flat_iff p hf hnd _).2 ⟨?_, ?_⟩
  · unfold ordered; rw [Particle.ok_congr _ _ p hc]; exact hv
  · unfold ordered; exact (Particle.render_congr _ _ p hc).symm

/-- and the verified matcher agrees -/
theorem C01_flat_accepts (p : Particle) (hf : p.flat = true) (hnd : p.leaves.Nodup) (acc : List Nat)
    (hv : verdict p acc = true) : p.accepts (ordered p acc) = true :=
  (Particle.accepts_iff _ _).2 (C01_flat p hf hnd acc hv)

#print axioms C01_flat
