from lib import *
import collections
rnd=random.Random(2)
viol=collections.defaultdict(list); N=0
internal=collections.Counter()
for k,m in oracle.models.items():
  for it in range(150):
    e=REP[k](); hist=[]
    for step in range(rnd.randint(1,8)):
        r=rnd.random()
        ch=e.get_children(ordered=False)
        if r<0.75 or not ch:
            n=rnd.choice(m.alpha); c=mk(n)
            (s,v),out=quiet(e.add_child,c); hist.append(('add',n,s if s=='ok' else type(v).__name__))
        elif r<2:
            c=rnd.choice(ch); (s,v),out=quiet(e.remove,c); hist.append(('rm',c.name,s if s=='ok' else type(v).__name__))
        else:
            c=rnd.choice(ch); (s,v),out=quiet(e.add_child,mk(c.name),0); hist.append(('addfw0',c.name,s if s=='ok' else type(v).__name__))
        if s=='exc' and type(v).__name__ not in('XMLChildContainerWrongElementError','XMLChildContainerChoiceHasAnotherChosenChild','XMLChildContainerMaxOccursError'):
            internal[(k,type(v).__name__)]+=1
        if out: internal[(k,'print')]+=1
        ic=rnd.random()<0.3
        (s,v),out=quiet(e.child_container_tree.get_required_element_names,ic)
        N+=1
        if s=='exc': internal[(k,'final:'+type(v).__name__)]+=1; continue
        if not v:
            w=ordered_names(e)
            un=sorted(c.name for c in e.get_children(ordered=False))
            if sorted(w)!=un: viol[k].append(('LOST',list(hist),w,un))
            elif not m.accepts(w): viol[k].append(('INVALID',list(hist),w))
print(N)
for k,v in viol.items():
    c=collections.Counter(x[0] for x in v); v.sort(key=lambda x:len(x[1]))
    print('==',k,dict(c)); 
    for x in v[:2]: print('    ',x)
print(internal)
