import Std.Data.HashMap
import MxV.Model.Msimple
import MxV.Model.Mslot
import MxV.Model.Mfull
import MxV.Model.MfullWitness
import MxV.Model.Element
import MxV.Model.Serialize
import MxV.Model.Parser
import MxV.Gen.Strs
import MxV.Gen.Templates
import MxV.Gen.Attrs
import MxV.Gen.Elements
import MxV.Gen.Values
/-! Line-protocol driver for the executable models (Mathlib-free; built as `lean_exe mxdriver`).
    One operation per input line, one canonical observation line per operation.
    Matcher answers have the form `<Mfull>|<Msimple or ->`. -/
open Std Values

/-! ### wire encoding -/
def hexVal (c : Char) : Nat :=
  if c.isDigit then c.toNat - '0'.toNat else if 'a' ≤ c && c ≤ 'f' then c.toNat - 'a'.toNat + 10 else 0

def unhex (h : String) : String :=
  let rec go (l : List Char) (acc : ByteArray) : ByteArray :=
    match l with
    | a :: b :: r => go r (acc.push (UInt8.ofNat (hexVal a * 16 + hexVal b)))
    | _ => acc
  match String.fromUTF8? (go h.toList ByteArray.empty) with
  | some s => s
  | none => ""

def hexDigit (n : Nat) : Char := if n < 10 then Char.ofNat (48 + n) else Char.ofNat (87 + n)
def tohex (s : String) : String :=
  String.ofList (s.toUTF8.toList.flatMap fun b => [hexDigit (b.toNat / 16), hexDigit (b.toNat % 16)])

def parseVal (t : String) : Option PyVal :=
  if t == "none" then some .none
  else if t == "nan" then some .fnan
  else if t == "inf" then some (.finf false)
  else if t == "-inf" then some (.finf true)
  else match t.splitOn ":" with
    | ["s", h] => some (.str (unhex h))
    | ["s"] => some (.str "")
    | ["i", z] => z.toInt?.map .int
    | ["b", b] => some (.bool (b == "1"))
    | ["f", sg, m, e, r] => match m.toNat?, e.toInt? with
      | some m, some e => some (.float (sg == "-") m e (unhex r))
      | _, _ => none
    | _ => none

def encVal : PyVal → String
  | .none => "none" | .fnan => "nan" | .finf n => if n then "-inf" else "inf"
  | .str s => "s:" ++ tohex s | .int z => s!"i:{z}" | .bool b => if b then "b:1" else "b:0"
  | .float n m e r => s!"f:{if n then "-" else "+"}:{m}:{e}:{tohex r}"

/-! ### tables -/
def lookupT (k : Nat) : List (Nat × Particle) → Option Particle
  | [] => none
  | (k', v) :: r => if k == k' then some v else lookupT k r

def strOf (i : Nat) : String := Gen.strs[i]!
def dropPrefix (s : String) (n : Nat) : String := String.ofList (s.toList.drop n)

def attrTable (tk : Nat) : Option Element.Tbl :=
  (Gen.implAttrs.find? (·.1 == tk)).map fun r =>
    r.2.1.map fun a => (dropPrefix (strOf a.name) 2, a.type, a.required)

/-- the exception the library raises when the (broken) row `key` is used: `K:?NameError` … -/
def brokenRowError (tk : Nat) (key : String) : Option String :=
  match Gen.implAttrs.find? (·.1 == tk) with
  | some r => (r.2.1.find? fun a => a.broken && dropPrefix (strOf a.name) 2 == Element.normKey key).map
      fun a => dropPrefix (strOf a.type) 3
  | none => none

def tableBroken (tk : Nat) : Bool :=
  match Gen.implAttrs.find? (·.1 == tk) with
  | some r => r.2.1.any (·.broken)
  | none => true

/-- a row whose declaration object is missing altogether (xlink references): even reading its
    name / required flag raises AttributeError in the library -/
def tableDeclMissing (tk : Nat) : Bool :=
  match Gen.implAttrs.find? (·.1 == tk) with
  | some r => r.2.1.any fun a => a.broken && strOf a.name == "A:None"
  | none => false

def validateK (k : Nat) (v : PyVal) : Res :=
  match lookupDef k Gen.simpleDefs with
  | some d => validate Gen.valuesEnv 6 d v
  | none => .typeError

def reservedProps : List String := Gen.reservedProps.map fun i => dropPrefix (strOf i) 2

structure EInfo where
  cls : Nat
  name : Nat
  kind : Nat
  tkey : Option Nat
  akey : Option Nat
  vkind : Nat
  vtype : Nat

def einfo (c : Nat) : Option EInfo :=
  (Gen.elemInfo.find? (·.1 == c)).map fun (a, b, k, t, ak, vk, vt) => ⟨a, b, k, t, ak, vk, vt⟩

/-! ### instances -/
structure Inst where
  info : Option EInfo          -- none: a bare matcher instance created with `new`
  p : Particle
  hasTree : Bool
  chk : Bool
  kids : Msimple.Kids          -- Msimple state (meaningful while `tame`); also the child list of tree-less / unchecked nodes
  tame : Bool
  full : Mfull.Arena           -- Mfull state (checked instances with a container)
  value : PyVal := .str ""
  attrs : Element.Store := []
  kwargs : Element.Store := []
  parent : Option Nat := none
  owner : Option Nat := none   -- as a child: the parent whose container `parent_xsd_element` points into
  shared : Bool := false       -- a child of this container also sits in another container (pointer aliasing)

structure St where
  insts : HashMap Nat Inst := {}

def joinNat (l : List Nat) : String := ",".intercalate (l.map toString)
def dedup (l : List Nat) : List Nat :=
  l.foldl (fun acc n => if acc.contains n then acc else acc ++ [n]) []

def usesMatcher (i : Inst) : Bool := i.chk && i.hasTree

/-- `_unordered_children` of a non-tame checked instance, re-read from the arena after an operation -/
def rekid (names : Msimple.Kids) (u : List Nat) : Msimple.Kids :=
  u.map fun c => (c, ((names.find? (·.1 == c)).map (·.2)).getD 0)

def eraseFirst (cid : Nat) : Msimple.Kids → Msimple.Kids
  | [] => []
  | c :: r => if c.1 == cid then r else c :: eraseFirst cid r

def inArena (a : Mfull.Arena) (c : Nat) : Bool := a.nodes.any fun n => n.elems.contains c

def obsSimple (i : Inst) : String :=
  let ord := if usesMatcher i then Mslot.ordered i.p i.kids else if i.chk then [] else i.kids
  let req := if usesMatcher i then Mslot.required i.p i.kids else []
  -- on Tame templates the older, theorem-carrying model Msimple must say the same
  let cross := usesMatcher i && Msimple.isTame i.p &&
    (Msimple.ordered i.p i.kids != ord || Msimple.required i.p i.kids != req)
  s!"o={joinNat (Msimple.ids ord)} u={joinNat (Msimple.ids i.kids)} r={joinNat req}" ++ (if cross then " !MSIMPLE-MISMATCH" else "")

/-- Mslot.add, cross-checked against Msimple.add on Tame templates -/
def addSimple (p : Particle) (k : Msimple.Kids) (cid n : Nat) (fwd : Option Int) : Except Msimple.Err Msimple.Kids :=
  let r := Mslot.add p k cid n fwd
  if Msimple.isTame p then
    match r, Msimple.add p k cid n fwd with
    | .ok a, .ok b => if a == b then r else .error .unmodelled
    | .error a, .error b => if a == b then r else .error .unmodelled
    | _, _ => .error .unmodelled
  else r

def obsFull (a : Mfull.Arena) : String × Mfull.Arena :=
  let (r, a1) := Mfull.run a Mfull.orderedChildren
  match r with
  | .error e => (s!"o=err:{e.str}", a1)
  | .ok ord =>
    let (r2, a2) := Mfull.run a1 (Mfull.getRequiredElementNames false)
    let rs := match r2 with
      | .ok l => joinNat l
      | .error e => "err:" ++ e.str
    (s!"o={joinNat ord} u={joinNat a2.unordered} r={rs}", a2)

def resF {α} : Except Mfull.Err α → String
  | .ok _ => "ok"
  | .error e => "err:" ++ e.str

def parseFwd (toks : List String) : Option Int :=
  match toks with
  | [f] => f.toInt?
  | _ => none

def both (f s : String) : String := f ++ "|" ++ s

/-- set_attributes / value validation of one element -/
def valueCheck (e : EInfo) (v : PyVal) : Res :=
  if e.vkind == 2 then .ok else validateK e.vtype v

def setAttrE (e : EInfo) (s : Element.Store) (key : String) (v : PyVal) : Except Element.AErr Element.Store :=
  if e.kind == 0 then
    -- simple-typed element: any non-empty attribute dict is refused
    .error .wrongAttribute
  else match e.akey.bind attrTable with
    | some t => Element.setAttr validateK t s key v
    | none => .error .wrongAttribute

def mkInst (e : EInfo) (chk : Bool) (v : PyVal) : Inst :=
  match e.tkey.bind (fun t => lookupT t Gen.implTemplates) with
  | some p => { info := some e, p := p, hasTree := true, chk := chk, kids := [], tame := Mslot.isSlotted p,
                full := Mfull.newInstance p, value := v }
  | none => { info := some e, p := .seq 1 (some 1) [], hasTree := false, chk := chk, kids := [], tame := false,
              full := {}, value := v }

/-- ordered children of an instance (ids), as `get_children()` returns them -/
def childrenOf (i : Inst) : List Nat × Inst :=
  if usesMatcher i then
    let (r, a) := Mfull.run i.full Mfull.orderedChildren
    match r with
    | .ok l => (l, { i with full := a })
    | .error _ => ([], { i with full := a })
  else if i.chk then ([], i)       -- checked, no container: get_children() is []
  else (Msimple.ids i.kids, i)

inductive SErr | valueRequired | childrenRequired | attrRequired | internal (s : String) | matcher (s : String) | notElement
def SErr.str : SErr → String
  | .valueRequired => "err:ValueError" | .childrenRequired => "err:childrenRequired"
  | .attrRequired => "err:attrRequired" | .internal s => "err:internal:" ++ s | .matcher s => "err:" ++ s
  | .notElement => "unmodelled"

/-- `_final_checks` (recursive); returns the updated state (the check rewrites matcher flags) -/
partial def finalChecks (st : St) (id : Nat) (ic : Bool) (depth : Nat := 400) : Except SErr Unit × St :=
  -- a cyclic structure makes Python raise RecursionError; the model answers the same instead of overflowing its stack
  if depth == 0 then (.error (.internal "RecursionError"), st) else
  match st.insts[id]? with
  | none => (.error .notElement, st)
  | some i =>
    match i.info with
    | none => (.error .notElement, st)
    | some e =>
      let own : Except SErr Unit × Inst :=
        if !i.chk then (.ok (), i)
        else if e.kind == 0 && i.value == .none then (.error .valueRequired, i)
        else
          let (r1, i1) : Except SErr Unit × Inst :=
            if i.hasTree && ic && i.shared then (.error .notElement, i)
            else if i.hasTree then
              let (r, a) := Mfull.run i.full (Mfull.getRequiredElementNames ic)
              let i' := { i with full := a }
              match r with
              | .ok [] => (.ok (), i')
              | .ok _ => (.error .childrenRequired, i')
              | .error er => (.error (.matcher er.str), i')
            else (.ok (), i)
          match r1 with
          | .error x => (.error x, i1)
          | .ok _ =>
            if e.kind == 1 then
              if (e.akey.map tableDeclMissing).getD false then (.error (.internal "AttributeError"), i1) else
              match e.akey.bind attrTable with
              | some t => if (Element.missingRequired t i1.attrs).isEmpty then (.ok (), i1) else (.error .attrRequired, i1)
              | none => (.error (.internal "AttributeError"), i1)
            else (.ok (), i1)
      let st1 := { st with insts := st.insts.insert id own.2 }
      match own.1 with
      | .error x => (.error x, st1)
      | .ok _ =>
        let (cs, i2) := childrenOf own.2
        let st2 := { st1 with insts := st1.insts.insert id i2 }
        cs.foldl (fun (acc : Except SErr Unit × St) c =>
          match acc.1 with
          | .error x => (.error x, acc.2)
          | .ok _ => finalChecks acc.2 c ic (depth - 1)) (.ok (), st2)

partial def toXNode (st : St) (id : Nat) (depth : Nat := 400) : Option Serialize.XNode × St :=
  if depth == 0 then (none, st) else
  match st.insts[id]? with
  | none => (none, st)
  | some i =>
    match i.info with
    | none => (none, st)
    | some e =>
      let (cs, i2) := childrenOf i
      let st1 := { st with insts := st.insts.insert id i2 }
      let (kids, st2, ok) := cs.foldl (fun (acc : List Serialize.XNode × St × Bool) c =>
        let (n, s') := toXNode acc.2.1 c (depth - 1)
        match n with
        | some x => (acc.1 ++ [x], s', acc.2.2)
        | none => (acc.1, s', false)) ([], st1, true)
      if !ok then (none, st2) else
      (some { name := (strOf e.name).toList, attrs := i.attrs.map fun (k, v) => (k.toList, (pyStr v).toList),
              text := if i.value == .none then none else some (pyStr i.value).toList, children := kids }, st2)

partial def levelOf (st : St) (id : Nat) (fuel : Nat := 10000) : Nat :=
  match fuel, st.insts[id]? with
  | 0, _ => 0
  | _, none => 0
  | f + 1, some i => match i.parent with
    | some p => levelOf st p f + 1
    | none => 0

/-- copy.deepcopy(e): rebuilt from constructor keywords, current attributes copied, children
    deep-copied and re-added through add_child -/
partial def deepCopy (st : St) (id : Nat) (off : Nat) (depth : Nat := 400) : Except String Unit × St :=
  if depth == 0 then (.error "err:internal:RecursionError", st) else
  match st.insts[id]? with
  | none => (.error "bad-inst", st)
  | some i =>
    match i.info with
    | none => (.error "unmodelled", st)
    | some e =>
      let vr := valueCheck e i.value
      if vr != .ok then (.error vr.str, st) else
      let live := i.kwargs.filter (·.2 != .none)
      let kw : Except Element.AErr Element.Store := live.foldl (fun acc (k, v) =>
        match acc with
        | .ok s => setAttrE e s k v
        | .error x => .error x) (.ok [])
      match kw with
      | .error x => (.error x.str, st)
      | .ok _ =>
        let ni : Inst := { mkInst e i.chk i.value with attrs := i.attrs, kwargs := i.kwargs }
        let (cs, i2) := childrenOf i
        let st1 := { st with insts := (st.insts.insert id i2).insert (id + off) ni }
        cs.foldl (fun (acc : Except String Unit × St) c =>
          match acc.1 with
          | .error x => (.error x, acc.2)
          | .ok _ =>
            let (r, s') := deepCopy acc.2 c off (depth - 1)
            match r with
            | .error x => (.error x, s')
            | .ok _ =>
              match s'.insts[id + off]?, s'.insts[c + off]? with
              | some pi, some ci =>
                let nm := match ci.info with
                  | some ce => ce.name
                  | none => 0
                if usesMatcher pi then
                  let (rf, a') := Mfull.run pi.full (Mfull.elAddChild (c + off) nm none)
                  match rf with
                  | .ok _ =>
                    let pi' := { pi with full := a', kids := pi.kids ++ [(c + off, nm)] }
                    (.ok (), { s' with insts := (s'.insts.insert (id + off) pi').insert (c + off) { ci with parent := some (id + off), owner := some (id + off) } })
                  | .error er => (.error ("err:" ++ er.str), { s' with insts := s'.insts.insert (id + off) { pi with full := a' } })
                else if pi.chk && !pi.hasTree then (.error "err:cannotHaveChildren", s')
                else
                  let pi' := { pi with kids := pi.kids ++ [(c + off, nm)] }
                  (.ok (), { s' with insts := (s'.insts.insert (id + off) pi').insert (c + off) { ci with parent := some (id + off) } })
              | _, _ => (.error "bad-inst", s')) (.ok (), st1)

/-- ids met when walking the ordered children from `id` (with repetitions) -/
partial def reach (st : St) (id : Nat) (fuel : Nat := 100000) : List Nat :=
  match fuel, st.insts[id]? with
  | 0, _ => [id, id]
  | _, none => [id]
  | f + 1, some i => id :: ((childrenOf i).1.flatMap fun c => reach st c (f / 2))

def setParent (st : St) (cid : Nat) (p : Option Nat) : St :=
  match st.insts[cid]? with
  | some c => { st with insts := st.insts.insert cid { c with parent := p } }
  | none => st

def setOwner (st : St) (cid : Nat) (o : Option Nat) : St :=
  match st.insts[cid]? with
  | some c => { st with insts := st.insts.insert cid { c with owner := o } }
  | none => st

def ownerOf (st : St) (cid : Nat) : Option Nat := (st.insts[cid]?).bind (·.owner)

def markShared (st : St) (i : Nat) : St :=
  match st.insts[i]? with
  | some x => { st with insts := st.insts.insert i { x with shared := true } }
  | none => st

/-- may the per-instance arena of `i` speak for the child's single `parent_xsd_element` pointer?
    `some a`: yes, with the arena `a` (pointer cleared when the real one is None); `none`: the pointer
    leads into another element's container — outside the model envelope -/
def arenaFor (st : St) (i : Nat) (inst : Inst) (cid : Nat) : Option Mfull.Arena :=
  if inst.shared then none else
  match st.insts[cid]? with
  | none => some inst.full        -- bare matcher protocol: children are plain numbers
  | some c =>
    match c.owner with
    | some j => if j == i then some inst.full else none
    | none =>
      if c.info.isNone then some inst.full else
      some { inst.full with kids := Mfull.kset inst.full.kids cid { (Mfull.kget inst.full.kids cid) with pxe := none } }

def step (st : St) (line : String) : St × String :=
  match (line.trimAscii.toString.splitOn " ").filter (· ≠ "") with
  | ["new", i, t, c] =>
    match i.toNat?, t.toNat?, c.toNat? with
    | some i, some t, some c =>
      match lookupT t Gen.implTemplates with
      | some p =>
        let inst : Inst := { info := none, p := p, hasTree := true, chk := c == 1, kids := [], tame := Mslot.isSlotted p,
                             full := Mfull.newInstance p }
        ({ st with insts := st.insts.insert i inst }, "ok|ok")
      | none => (st, "bad-type")
    | _, _, _ => (st, "bad-op")
  | "newe" :: i :: c :: chk :: v :: kws =>
    match i.toNat?, c.toNat?, parseVal v with
    | some i, some c, some pv =>
      match einfo c with
      | none => (st, "bad-class")
      | some e =>
        let vr := valueCheck e pv
        if vr != .ok then (st, vr.str) else
        let pairs := kws.filterMap fun kv => match kv.splitOn "=" with
          | [k, v] => (parseVal v).map fun pv => (unhex k, pv)
          | _ => none
        let dupKey := (pairs.zipIdx.any fun ((k, _), j) =>
          pairs.zipIdx.any fun ((k', v'), j') => j' < j && Element.normKey k' == Element.normKey k && v' != .none)
        if dupKey then (st, "err:internal:KeyError") else
        if e.kind == 0 && !pairs.isEmpty then (st, "err:wrongAttribute") else
        if e.kind == 1 && (e.akey.map tableBroken).getD true && !pairs.isEmpty then (st, "unmodelled") else
        let live := pairs.filter (·.2 != .none)
        let r : Except Element.AErr Element.Store := live.foldl (fun acc (k, v) =>
          match acc with
          | .ok s => setAttrE e s k v
          | .error x => .error x) (.ok [])
        match r with
        | .error x => (st, x.str)
        | .ok s =>
          let inst := { mkInst e (chk == "1") pv with attrs := s, kwargs := pairs }
          ({ st with insts := st.insts.insert i inst }, "ok")
    | _, _, _ => (st, "bad-op")
  | ["parsee", i, c, t, f, z] =>
    -- _et_xml_to_music_xml, element part: cls(value_=strip(text)) with the str/float/int ladder
    match i.toNat?, c.toNat? with
    | some i, some c =>
      match einfo c with
      | none => (st, "bad-class")
      | some e =>
        let text := String.ofList (Values.stripX (unhex t).toList)
        let o : Parser.Oracle := ⟨if f == "x" then none else parseVal f, if z == "x" then none else parseVal z⟩
        match Parser.elementValue (valueCheck e) text o with
        | .ok v => ({ st with insts := st.insts.insert i (mkInst e true v) }, "ok")
        | .error r => (st, r.str)
    | _, _ => (st, "bad-op")
  | ["pattr", i, k, v, f, z] =>
    match i.toNat? with
    | some i =>
      match st.insts[i]? with
      | some inst =>
        match inst.info with
        | some e =>
          let key := unhex k
          if e.kind == 1 && (e.akey.map tableDeclMissing).getD true then (st, "err:AttributeError")
          else if (e.akey.bind fun t => brokenRowError t key).isSome then
            (st, "err:internal:" ++ ((e.akey.bind fun t => brokenRowError t key).getD ""))
          else
            let o : Parser.Oracle := ⟨if f == "x" then none else parseVal f, if z == "x" then none else parseVal z⟩
            match Parser.attrValue (fun pv => setAttrE e inst.attrs key pv) o (unhex v) with
            | .ok s => ({ st with insts := st.insts.insert i { inst with attrs := s } }, "ok")
            | .error x => (st, x.str)
        | none => (st, "unmodelled")
      | none => (st, "bad-inst")
    | none => (st, "bad-op")
  | ["setval", i, v] =>
    match i.toNat?, parseVal v with
    | some i, some pv =>
      match st.insts[i]? with
      | some inst =>
        match inst.info with
        | some e =>
          let vr := valueCheck e pv
          if vr != .ok then (st, vr.str)
          else ({ st with insts := st.insts.insert i { inst with value := pv } }, "ok")
        | none => (st, "unmodelled")
      | none => (st, "bad-inst")
    | _, _ => (st, "bad-op")
  | ["attr", i, k, v] =>
    match i.toNat?, parseVal v with
    | some i, some pv =>
      match st.insts[i]? with
      | some inst =>
        match inst.info with
        | some e =>
          let key := unhex k
          if Element.reserved reservedProps key || Element.isChildShortcut key then (st, "reserved")
          else if pv != .none && e.kind == 1 && (e.akey.map tableDeclMissing).getD true then (st, "err:AttributeError")
          else if pv != .none && (e.akey.bind fun t => brokenRowError t key).isSome then
            (st, "err:internal:" ++ ((e.akey.bind fun t => brokenRowError t key).getD ""))
          else match setAttrE e inst.attrs key pv with
            | .ok s => ({ st with insts := st.insts.insert i { inst with attrs := s } }, "ok")
            | .error .wrongAttribute => (st, "err:AttributeError")
            | .error x => (st, x.str)
        | none => (st, "unmodelled")
      | none => (st, "bad-inst")
    | _, _ => (st, "bad-op")
  | ["getattr", i, k] =>
    match i.toNat? with
    | some i =>
      match st.insts[i]? with
      | some inst =>
        match inst.info with
        | some e =>
          let key := unhex k
          if Element.reserved reservedProps key || key.startsWith "xml" then (st, "reserved")
          else if e.kind == 0 then (st, "unmodelled")
          else match e.akey.bind attrTable with
            | some t => (match Element.getAttr t inst.attrs key with
              | .val v => (st, "val:" ++ encVal v)
              | .none => (st, "val:none")
              | .attributeError => (st, "err:AttributeError"))
            | none => (st, "unmodelled")
        | none => (st, "unmodelled")
      | none => (st, "bad-inst")
    | none => (st, "bad-op")
  | ["setchk", i, b] =>
    -- the xsd_check setter: nothing but the flag changes; both child lists stay as they are
    match i.toNat? with
    | some i =>
      match st.insts[i]? with
      | some inst =>
        let nb := b == "1"
        if nb == inst.chk then (st, "ok") else
        let inst' := { inst with chk := nb, tame := false,
                                 full := { inst.full with unordered := Msimple.ids inst.kids } }
        ({ st with insts := st.insts.insert i inst' }, "ok")
      | none => (st, "bad-inst")
    | none => (st, "bad-op")
  | ["attrs", i] =>
    match i.toNat? with
    | some i =>
      match st.insts[i]? with
      | some inst => (st, "a=" ++ ";".intercalate (inst.attrs.map fun (k, v) => tohex k ++ "=" ++ encVal v) ++
                          " v=" ++ encVal inst.value)
      | none => (st, "bad-inst")
    | none => (st, "bad-op")
  | "add" :: i :: cid :: n :: rest =>
    match i.toNat?, cid.toNat?, n.toNat? with
    | some i, some cid, some n =>
      match st.insts[i]? with
      | none => (st, "bad-inst")
      | some inst =>
        if !inst.chk then
          let st' := { st with insts := st.insts.insert i { inst with kids := inst.kids ++ [(cid, n)] } }
          (setParent st' cid (some i), "ok|ok")
        else if !inst.hasTree then (st, "err:cannotHaveChildren|err:cannotHaveChildren")
        else
          let fwd := parseFwd rest
          -- the child still sits in a container (another element's or this one): aliasing from now on
          let alias : Option Nat := match ownerOf st cid with
            | some j => match st.insts[j]? with
              | some pj => if inArena (if j == i then inst.full else pj.full) cid then some j else none
              | none => none
            | none => none
          let (rf, a') := Mfull.run inst.full (Mfull.elAddChild cid n fwd)
          let inst := { inst with full := a', shared := inst.shared || (alias.isSome && rf.toBool) }
          let st0 := match alias with
            | some j => if rf.toBool && j != i then markShared st j else st
            | none => st
          let st1 := if rf.toBool then setOwner (setParent st0 cid (some i)) cid (some i) else st0
          if !inst.tame then
            ({ st1 with insts := st1.insts.insert i { inst with kids := rekid (inst.kids ++ [(cid, n)]) a'.unordered } }, both (resF rf) "-")
          else
            match addSimple inst.p inst.kids cid n fwd with
            | .ok k => ({ st1 with insts := st1.insts.insert i { inst with kids := k } }, both (resF rf) "ok")
            | .error .unmodelled => ({ st1 with insts := st1.insts.insert i { inst with tame := false } }, both (resF rf) "-")
            | .error e => ({ st1 with insts := st1.insts.insert i inst }, both (resF rf) ("err:" ++ e.str))
    | _, _, _ => (st, "bad-op")
  | ["rm", i, cid] =>
    match i.toNat?, cid.toNat? with
    | some i, some cid =>
      match st.insts[i]? with
      | none => (st, "bad-inst")
      | some inst =>
        if inst.chk && !inst.hasTree && !inst.kids.isEmpty then (st, "unmodelled") else
        if !usesMatcher inst then
          match Msimple.remove inst.kids cid with
          | .ok _ =>
            let k := eraseFirst cid inst.kids       -- list.remove: the first occurrence only
            (setParent { st with insts := st.insts.insert i { inst with kids := k } } cid none, "ok|ok")
          | .error e => (st, both ("err:" ++ e.str) ("err:" ++ e.str))
        else
          match (if inst.kids.any (·.1 == cid) then arenaFor st i inst cid else some inst.full) with
          | none => (st, "unmodelled")
          | some a0 =>
          let (rf, a') := Mfull.run a0 (Mfull.elRemove cid)
          let inst := { inst with full := a' }
          let st1 := if rf.toBool then setOwner (setParent st cid none) cid none else st
          if !inst.tame then ({ st1 with insts := st1.insts.insert i { inst with kids := rekid inst.kids a'.unordered } }, both (resF rf) "-")
          else match Msimple.remove inst.kids cid with
            | .ok k => ({ st1 with insts := st1.insts.insert i { inst with kids := k } }, both (resF rf) "ok")
            | .error e => ({ st1 with insts := st1.insts.insert i inst }, both (resF rf) ("err:" ++ e.str))
    | _, _ => (st, "bad-op")
  | ["repl", i, old, new, n] =>
    match i.toNat?, old.toNat?, new.toNat?, n.toNat? with
    | some i, some old, some new, some n =>
      match st.insts[i]? with
      | none => (st, "bad-inst")
      | some inst =>
        if inst.chk && !inst.hasTree then (st, "err:notAChild|err:notAChild") else
        if !usesMatcher inst then
          match inst.kids.find? (·.1 == old) with
          | none => (st, "err:notAChild|err:notAChild")
          | some _ =>
            let inst' := { inst with kids := Msimple.replFirst old (new, n) inst.kids }
            (setParent (setParent { st with insts := st.insts.insert i inst' } new (some i)) old none, "ok|ok")
        else
          match (if inArena inst.full old then arenaFor st i inst old else some inst.full) with
          | none => (st, "unmodelled")
          | some a0 =>
          let (rf, a') := Mfull.run a0 (Mfull.elReplace old new n)
          let inst := { inst with full := a' }
          let st1 := if rf.toBool then setOwner (setParent (setParent st new (some i)) old none) new (ownerOf st old) else st
          if !inst.tame then ({ st1 with insts := st1.insts.insert i { inst with kids := rekid (inst.kids ++ [(new, n)]) a'.unordered } }, both (resF rf) "-")
          else match Msimple.replace inst.kids old new n with
            | .ok k => ({ st1 with insts := st1.insts.insert i { inst with kids := k } }, both (resF rf) "ok")
            | .error e => ({ st1 with insts := st1.insts.insert i inst }, both (resF rf) ("err:" ++ e.str))
    | _, _, _, _ => (st, "bad-op")
  | ["obs", i] =>
    match i.toNat? with
    | some i =>
      match st.insts[i]? with
      | none => (st, "bad-inst")
      | some inst =>
        if !usesMatcher inst then (st, both (obsSimple inst) (obsSimple inst))
        else
          let (s, a') := obsFull inst.full
          ({ st with insts := st.insts.insert i { inst with full := a' } },
            both s (if inst.tame then obsSimple inst else "-"))
    | none => (st, "bad-op")
  | ["check", i, ic] =>
    match i.toNat?, ic.toNat? with
    | some i, some ic =>
      match st.insts[i]? with
      | none => (st, "bad-inst")
      | some inst =>
        if !usesMatcher inst then (st, "r=|r=")
        else
          let (r, a') := Mfull.run inst.full (Mfull.getRequiredElementNames (ic == 1))
          let rs := match r with
            | .ok l => joinNat l
            | .error e => "err:" ++ e.str
          ({ st with insts := st.insts.insert i { inst with full := a' } },
            both ("r=" ++ rs) (if inst.tame then "r=" ++ joinNat (Mslot.required inst.p inst.kids) else "-"))
    | _, _ => (st, "bad-op")
  | ["probe", i] =>
    match i.toNat? with
    | some i =>
      match st.insts[i]? with
      | none => (st, "bad-inst")
      | some inst =>
        let alpha := (dedup inst.p.leaves)
        if !usesMatcher inst then (st, both ("p=" ++ ";".intercalate (alpha.map fun n => s!"{n}:ok:")) "-") else
        let partsF := alpha.map (fun n =>
          let (r, a1) := Mfull.run inst.full (Mfull.elAddChild 1000000 n none)
          match r with
          | .ok _ =>
            let (r2, _) := Mfull.run a1 (do discard <| Mfull.orderedChildren; Mfull.getRequiredElementNames false)
            match r2 with
            | .ok l => s!"{n}:ok:{joinNat l}"
            | .error e => s!"{n}:ok:err:{e.str}"
          | .error e => s!"{n}:err:{e.str}:")
        let partsS := alpha.map (fun n =>
          match addSimple inst.p inst.kids 1000000 n none with
          | .ok k => s!"{n}:ok:{joinNat (Mslot.required inst.p k)}"
          | .error e => s!"{n}:err:{e.str}:")
        (st, both ("p=" ++ ";".intercalate partsF) (if inst.tame then "p=" ++ ";".intercalate partsS else "-"))
    | none => (st, "bad-op")
  | ["tostr", i, ic] =>
    match i.toNat? with
    | some i =>
      match st.insts[i]? with
      | none => (st, "bad-inst")
      | some inst =>
        let (r, st1) := if inst.chk then finalChecks st i (ic == "1") else (.ok (), st)
        match r with
        | .error e => (st1, e.str)
        | .ok _ =>
          let (x, st2) := toXNode st1 i
          match x with
          | some n => (st2, "ok:" ++ tohex (Serialize.toString (levelOf st2 i) n))
          | none => (st2, "unmodelled")
    | none => (st, "bad-op")
  | ["copy", i, off] =>
    -- an instance reachable twice is copied twice by the library; the id scheme of this protocol cannot name both
    if (match i.toNat? with
        | some i => let r := reach st i; r.length != r.eraseDups.length
        | none => false) then (st, "unmodelled") else
    match i.toNat?, off.toNat? with
    | some i, some off =>
      let (r, st') := deepCopy st i off
      match r with
      | .ok _ => (st', "ok")
      | .error e => (st', e)
    | _, _ => (st, "bad-op")
  | ["val", k, v] =>
    match k.toNat?, parseVal v with
    | some k, some pv =>
      match lookupDef k Gen.simpleDefs with
      | some d =>
        let r := validate Gen.valuesEnv 6 d pv
        (st, if r == .ok then "ok:" ++ tohex (pyStr pv) else r.str)
      | none => (st, "bad-type")
    | _, _ => (st, "bad-op")
  | ["elemval", c, v] =>
    match c.toNat?, parseVal v with
    | some c, some pv =>
      match einfo c with
      | some e =>
        let r := valueCheck e pv
        (st, if r == .ok then "ok:" ++ tohex (pyStr pv) else r.str)
      | none => (st, "bad-class")
    | _, _ => (st, "bad-op")
  | ["token", h] => (st, tohex (cleanedToken (unhex h)))
  | ["esctext", h] => (st, tohex (Serialize.escText (unhex h)))
  | ["escattr", h] => (st, tohex (Serialize.escAttr (unhex h)))
  | ["patdiff"] =>
    -- failing-input search for the pattern theorems: per type a word on which the library's expression
    -- and the schema's differ (key:word:impl-verdict:schema-verdict; `-` when no schema pattern)
    let look := fun (k : Nat) => (Gen.specPatternsS.find? (·.1 == k)).map (·.2)
    let rows := Gen.patternsS.filterMap fun (k, i) =>
      match look k with
      | none => some s!"{k}:-:-:-"
      | some sp =>
        match SRE.witness i sp with
        | some w => some s!"{k}:{",".intercalate (w.map toString)}:{SRE.smatch i w}:{SRE.smatch sp w}"
        | none => if SRE.equiv i sp then none else some s!"{k}:?:?:?"
    let missing := Gen.specPatternsS.filterMap fun (k, _) =>
      if (Gen.patternsS.any (·.1 == k)) then none else some s!"{k}:!:!:!"
    (st, ";".intercalate (rows ++ missing))
  | ["specmatch", k, w] =>
    match k.toNat? with
    | some k =>
      match (Gen.specPatternsS.find? (·.1 == k)).map (·.2) with
      | some sp => (st, if SRE.smatch sp ((unhex w).toList.map (·.val.toNat)) then "yes" else "no")
      | none => (st, "none")
    | none => (st, "bad-op")
  | ["witness", kind, t, enc] =>
    -- does the negative-witness predicate of property `kind` hold for this history on the model? (used by the
    -- generator of Gen/Witnesses.lean to select the histories the kernel is then asked to confirm)
    match t.toNat?, lookupT (t.toNat?.getD 0) Gen.implTemplates, lookupT (t.toNat?.getD 0) Gen.specTemplates with
    | some _, some p, some sp =>
      let ops : List Mfull.Op := (enc.splitOn ",").filterMap fun tok =>
        match tok.splitOn ":" with
        | ["a", c, n] => some (.add (c.toNat?.getD 0) (n.toNat?.getD 0) none)
        | ["a", c, n, f] => some (.add (c.toNat?.getD 0) (n.toNat?.getD 0) f.toInt?)
        | ["r", c] => some (.rm (c.toNat?.getD 0))
        | ["p", o, n, nm] => some (.repl (o.toNat?.getD 0) (n.toNat?.getD 0) (nm.toNat?.getD 0))
        | _ => none
      let names := ops.filterMap fun op => match op with
        | .add _ n _ => some n
        | _ => none
      let r := match kind with
        | "C01" => Mfull.wC01 sp p ops
        | "C02" => Mfull.wC02 sp p names
        | "C06" => Mfull.wC06 p ops
        | "C10" => Mfull.wC10 p ops
        | "C11" => Mfull.wC11 p ops
        | "C12" => Mfull.wC12 sp p names
        | "C07" => Mfull.wC07 sp p ops
        | _ => false
      (st, if r then "yes" else "no")
    | _, _, _ => (st, "bad-type")
  | ["accepts", t, w] =>
    match t.toNat? with
    | some t =>
      match lookupT t Gen.specTemplates with
      | some p =>
        let ws := (w.splitOn ",").filterMap (·.toNat?)
        (st, if p.accepts ws then "yes" else "no")
      | none => (st, "bad-type")
    | none => (st, "bad-op")
  | ["tame", t] =>
    match t.toNat? with
    | some t => match lookupT t Gen.implTemplates with
      | some p => (st, if Msimple.isFlat p then "flat" else if Msimple.isTame p then "rootchoice" else if Mslot.isSlotted p then "slotted" else "wild")
      | none => (st, "bad-type")
    | none => (st, "bad-op")
  | [] => (st, "")
  | _ => (st, "bad-op")

def strIndex (s : String) : Option Nat := Gen.strs.toList.idxOf? s

/-- children of an instance in insertion order, whatever bookkeeping it uses -/
def unorderedOf (i : Inst) : List Nat := Msimple.ids i.kids

def firstPart (s : String) : String := (s.splitOn "|").headD s

/-- `e.xml_x = value`: the decision is `Element.childShortcut`, the action is carried out with the
    explicit operations (which is exactly what the property claims the shortcut to be) -/
def stepDot (st : St) (i : Nat) (key : String) (newId : Nat) (arg : String) : St × String :=
  match st.insts[i]? with
  | none => (st, "bad-inst")
  | some inst =>
    -- the class is looked up with eval(): a key that is not a plain identifier is outside the envelope
    if key.toList.any (fun c => !(c.isAlphanum || c == '_')) then (st, "unmodelled") else
    let childName := Element.shortcutChildName key
    let possible := inst.hasTree && (dedup inst.p.leaves).any fun n => strOf n == childName
    let clsName := "C:" ++ Element.shortcutClassName key
    let clsIdx := strIndex clsName
    let ce := clsIdx.bind einfo
    let isInstArg := arg.startsWith "inst:"
    let j := (dropPrefix arg 5).toNat?.getD 0
    let argCls : Option Nat := if isInstArg then (st.insts[j]?).bind (fun x => x.info.map (·.cls)) else none
    let isInstance := isInstArg && argCls.isSome && argCls == clsIdx
    let isNone := arg == "none"
    let found := (unorderedOf inst).find? fun c => match st.insts[c]? with
      | some ci => (ci.info.map (·.cls)) == clsIdx
      | none => false
    match Element.childShortcut possible ce.isSome found.isSome isInstance isNone, ce with
    | .attributeError, _ => (st, "err:AttributeError")
    | .replace, some e => let (s', r) := step st s!"repl {i} {found.getD 0} {j} {e.name}"; (s', firstPart r)
    | .add, some e => let (s', r) := step st s!"add {i} {j} {e.name}"; (s', firstPart r)
    | .remove, _ => let (s', r) := step st s!"rm {i} {found.getD 0}"; (s', firstPart r)
    | .nothing, _ => (st, "ok")
    | .setValue, _ => step st s!"setval {found.getD 0} {arg}"
    | .addNew, some e =>
      let (s1, r1) := step st s!"newe {newId} {e.cls} 1 {arg}"
      if r1 != "ok" then (s1, r1) else
      let (s2, r2) := step s1 s!"add {i} {newId} {e.name}"
      (s2, firstPart r2)
    | _, none => (st, "err:AttributeError")

def stepAll (st : St) (line : String) : St × String :=
  match (line.trimAscii.toString.splitOn " ").filter (· ≠ "") with
  | ["dotx", i, k, nid, arg] =>
    match i.toNat?, nid.toNat? with
    | some i, some nid => stepDot st i (unhex k) nid arg
    | _, _ => (st, "bad-op")
  | ["replx", i, sel, idx, new, n] =>
    -- replace_child(callable, new, index): the selector runs over the ordered view; sel = *: every child, else: name index
    match i.toNat?, (if sel == "*" then some 0 else sel.toNat?), idx.toInt?, new.toNat?, n.toNat? with
    | some i, some selN, some idx, some new, some n =>
      match st.insts[i]? with
      | none => (st, "bad-inst")
      | some inst =>
        let (cs, inst') := childrenOf inst
        let st := { st with insts := st.insts.insert i inst' }
        let olds := cs.filter fun c => sel == "*" || (match st.insts[c]? with
          | some ci => (ci.info.map (·.name)) == some selN
          | none => false)
        if olds.isEmpty then (st, "err:notAChild") else
        let len : Int := olds.length
        let j : Int := if idx < 0 then len + idx else idx
        if j < 0 || j ≥ len then (st, "err:internal:IndexError") else
        let (s', r) := step st s!"repl {i} {olds[j.toNat]!} {new} {n}"
        (s', firstPart r)
    | _, _, _, _, _ => (st, "bad-op")
  | ["getx", i, k] =>
    -- e.xml_x read access: the first child of that name in insertion order, else None / AttributeError
    match i.toNat? with
    | some i =>
      match st.insts[i]? with
      | none => (st, "bad-inst")
      | some inst =>
        let key := unhex k
        let childName := Element.shortcutChildName key
        let found := (unorderedOf inst).find? fun c => match st.insts[c]? with
          | some ci => (ci.info.map fun e => strOf e.name) == some childName
          | none => false
        let declMissing := match inst.info with
          | some e => e.kind == 1 && (e.akey.map tableDeclMissing).getD false
          | none => false
        if declMissing then (st, "err:AttributeError") else
        match found with
        | some c => (st, s!"child:{c}")
        | none =>
          let possible := inst.hasTree && (dedup inst.p.leaves).any fun n => strOf n == childName
          (st, if possible then "child:none" else "err:AttributeError")
    | none => (st, "bad-op")
  | _ => step st line

partial def loop (h : IO.FS.Stream) (out : IO.FS.Stream) (st : St) : IO Unit := do
  let line ← h.getLine
  if line.isEmpty then return ()
  let (st', o) := stepAll st line
  out.putStrLn o
  if line.trimAscii.toString == "flush" then out.flush
  loop h out st'

def main : IO Unit := do
  let out ← IO.getStdout
  loop (← IO.getStdin) out {}
  out.flush
