import Std.Data.HashMap
import MxV.Model.Msimple
import MxV.Gen.Templates
/-! Line-protocol driver for the executable models (Mathlib-free; built as `lean_exe mxdriver`).
    One operation per input line, one canonical observation line per operation. -/
open Std

structure Inst where
  tkey : Nat
  p : Particle
  chk : Bool
  kids : Msimple.Kids
  tame : Bool

structure St where
  insts : HashMap Nat Inst := {}

def lookupT (k : Nat) : List (Nat × Particle) → Option Particle
  | [] => none
  | (k', v) :: r => if k == k' then some v else lookupT k r

def joinNat (l : List Nat) : String := ",".intercalate (l.map toString)

def dedup (l : List Nat) : List Nat :=
  l.foldl (fun acc n => if acc.contains n then acc else acc ++ [n]) []

def obsStr (i : Inst) : String :=
  let ord := if i.chk then Msimple.ordered i.p i.kids else i.kids
  let req := if i.chk then Msimple.required i.p i.kids else []
  s!"o={joinNat (Msimple.ids ord)} u={joinNat (Msimple.ids i.kids)} r={joinNat req}"

def resStr {α} : Except Msimple.Err α → String
  | .ok _ => "ok"
  | .error e => "err:" ++ e.str

def parseFwd (toks : List String) : Option Int :=
  match toks with
  | [f] => f.toInt?
  | _ => none

def step (st : St) (line : String) : St × String :=
  match (line.trimAscii.toString.splitOn " ").filter (· ≠ "") with
  | ["new", i, t, c] =>
    match i.toNat?, t.toNat?, c.toNat? with
    | some i, some t, some c =>
      match lookupT t Gen.implTemplates with
      | some p => ({ st with insts := st.insts.insert i ⟨t, p, c == 1, [], Msimple.isTame p⟩ }, "ok")
      | none => (st, "bad-type")
    | _, _, _ => (st, "bad-op")
  | "add" :: i :: cid :: n :: rest =>
    match i.toNat?, cid.toNat?, n.toNat? with
    | some i, some cid, some n =>
      match st.insts[i]? with
      | none => (st, "bad-inst")
      | some inst =>
        if !inst.chk then
          ({ st with insts := st.insts.insert i { inst with kids := inst.kids ++ [(cid, n)] } }, "ok")
        else if !inst.tame then (st, "unmodelled")
        else
          let r := Msimple.add inst.p inst.kids cid n (parseFwd rest)
          match r with
          | .ok k => ({ st with insts := st.insts.insert i { inst with kids := k } }, "ok")
          | .error .unmodelled => ({ st with insts := st.insts.insert i { inst with tame := false } }, "unmodelled")
          | .error e => (st, "err:" ++ e.str)
    | _, _, _ => (st, "bad-op")
  | ["rm", i, cid] =>
    match i.toNat?, cid.toNat? with
    | some i, some cid =>
      match st.insts[i]? with
      | none => (st, "bad-inst")
      | some inst =>
        if inst.chk && !inst.tame then (st, "unmodelled") else
        match Msimple.remove inst.kids cid with
        | .ok k => ({ st with insts := st.insts.insert i { inst with kids := k } }, "ok")
        | .error e => (st, "err:" ++ e.str)
    | _, _ => (st, "bad-op")
  | ["repl", i, old, new, n] =>
    match i.toNat?, old.toNat?, new.toNat?, n.toNat? with
    | some i, some old, some new, some n =>
      match st.insts[i]? with
      | none => (st, "bad-inst")
      | some inst =>
        if inst.chk && !inst.tame then (st, "unmodelled") else
        let r := if inst.chk then Msimple.replace inst.kids old new n
                 else (match inst.kids.find? (·.1 == old) with
                   | none => .error .notAChild
                   | some _ => .ok (inst.kids.map (fun c => if c.1 == old then (new, n) else c)))
        match r with
        | .ok k => ({ st with insts := st.insts.insert i { inst with kids := k } }, "ok")
        | .error e => (st, "err:" ++ e.str)
    | _, _, _, _ => (st, "bad-op")
  | ["obs", i] =>
    match i.toNat? with
    | some i =>
      match st.insts[i]? with
      | none => (st, "bad-inst")
      | some inst => if inst.chk && !inst.tame then (st, "unmodelled") else (st, obsStr inst)
    | none => (st, "bad-op")
  | ["probe", i] =>
    -- acceptance of one more child of every symbol of the alphabet (on throw-away copies)
    match i.toNat? with
    | some i =>
      match st.insts[i]? with
      | none => (st, "bad-inst")
      | some inst =>
        if inst.chk && !inst.tame then (st, "unmodelled") else
        let alpha := (dedup inst.p.leaves)
        let parts := alpha.map (fun n =>
          if !inst.chk then s!"{n}:ok:" else
          match Msimple.add inst.p inst.kids 1000000 n with
          | .ok k => s!"{n}:ok:{joinNat (Msimple.required inst.p k)}"
          | .error e => s!"{n}:err:{e.str}:")
        (st, "p=" ++ ";".intercalate parts)
    | none => (st, "bad-op")
  | ["accepts", t, w] =>
    -- verified content-model oracle on the *spec* particle: word as comma separated name indices
    match t.toNat? with
    | some t =>
      match lookupT t Gen.specTemplates with
      | some p =>
        let ws := (w.splitOn ",").filterMap (·.toNat?)
        (st, if p.accepts ws then "yes" else "no")
      | none => (st, "bad-type")
    | none => (st, "bad-op")
  | ["tame", t] =>
    match t.toNat? with
    | some t => match lookupT t Gen.implTemplates with
      | some p => (st, if Msimple.isFlat p then "flat" else if Msimple.isTame p then "rootchoice" else "wild")
      | none => (st, "bad-type")
    | none => (st, "bad-op")
  | [] => (st, "")
  | _ => (st, "bad-op")

partial def loop (h : IO.FS.Stream) (out : IO.FS.Stream) (st : St) : IO Unit := do
  let line ← h.getLine
  if line.isEmpty then return ()
  let (st', o) := step st line
  out.putStrLn o
  if line.trimAscii.toString == "flush" then out.flush
  loop h out st'

def main : IO Unit := do
  let out ← IO.getStdout
  loop (← IO.getStdin) out {}
  out.flush
