import Std.Data.HashMap
import MxV.Model.Msimple
import MxV.Model.Mfull
import MxV.Gen.Templates
import MxV.Gen.Values
/-! Line-protocol driver for the executable models (Mathlib-free; built as `lean_exe mxdriver`).
    One operation per input line, one canonical observation line per operation. -/
open Std


/-! ### value encoding on the wire -/
def hexVal (c : Char) : Nat :=
  if c.isDigit then c.toNat - '0'.toNat else if 'a' ≤ c && c ≤ 'f' then c.toNat - 'a'.toNat + 10 else 0

def unhex (h : String) : String :=
  let rec go (l : List Char) (acc : ByteArray) : ByteArray :=
    match l with
    | a :: b :: r => go r (acc.push (UInt8.ofNat (hexVal a * 16 + hexVal b)))
    | _ => acc
  match String.fromUTF8? (go h.toList ByteArray.empty) with
  | some s => s
  | none => ""

def hexDigit (n : Nat) : Char := if n < 10 then Char.ofNat (48 + n) else Char.ofNat (87 + n)
def tohex (s : String) : String :=
  String.ofList (s.toUTF8.toList.flatMap fun b => [hexDigit (b.toNat / 16), hexDigit (b.toNat % 16)])

open Values in
def parseVal (t : String) : Option PyVal :=
  if t == "none" then some .none
  else if t == "nan" then some .fnan
  else if t == "inf" then some (.finf false)
  else if t == "-inf" then some (.finf true)
  else match t.splitOn ":" with
    | ["s", h] => some (.str (unhex h))
    | ["s"] => some (.str "")
    | ["i", z] => z.toInt?.map .int
    | ["b", b] => some (.bool (b == "1"))
    | ["f", sg, m, e, r] => match m.toNat?, e.toInt? with
      | some m, some e => some (.float (sg == "-") m e (unhex r))
      | _, _ => none
    | _ => none


structure Inst where
  tkey : Nat
  p : Particle
  chk : Bool
  kids : Msimple.Kids          -- Msimple state (meaningful while `tame`)
  tame : Bool
  full : Mfull.Arena           -- Mfull state (checked instances)

structure St where
  insts : HashMap Nat Inst := {}

def lookupT (k : Nat) : List (Nat × Particle) → Option Particle
  | [] => none
  | (k', v) :: r => if k == k' then some v else lookupT k r

def joinNat (l : List Nat) : String := ",".intercalate (l.map toString)

def dedup (l : List Nat) : List Nat :=
  l.foldl (fun acc n => if acc.contains n then acc else acc ++ [n]) []

/-- observation of the Msimple state -/
def obsSimple (i : Inst) : String :=
  let ord := if i.chk then Msimple.ordered i.p i.kids else i.kids
  let req := if i.chk then Msimple.required i.p i.kids else []
  s!"o={joinNat (Msimple.ids ord)} u={joinNat (Msimple.ids i.kids)} r={joinNat req}"

/-- observation of the Mfull state: same call order as the harness (ordered view, then the
    required-names check, which rewrites flags) -/
def obsFull (a : Mfull.Arena) : String × Mfull.Arena :=
  let (r, a1) := Mfull.run a Mfull.orderedChildren
  match r with
  | .error e => (s!"o=err:{e.str}", a1)
  | .ok ord =>
    let (r2, a2) := Mfull.run a1 (Mfull.getRequiredElementNames false)
    let rs := match r2 with
      | .ok l => joinNat l
      | .error e => "err:" ++ e.str
    (s!"o={joinNat ord} u={joinNat a2.unordered} r={rs}", a2)

def resS {α} : Except Msimple.Err α → String
  | .ok _ => "ok"
  | .error e => "err:" ++ e.str
def resF {α} : Except Mfull.Err α → String
  | .ok _ => "ok"
  | .error e => "err:" ++ e.str

def parseFwd (toks : List String) : Option Int :=
  match toks with
  | [f] => f.toInt?
  | _ => none

/-- answer format: `<Mfull line>|<Msimple line or ->` -/
def both (f s : String) : String := f ++ "|" ++ s

def step (st : St) (line : String) : St × String :=
  match (line.trimAscii.toString.splitOn " ").filter (· ≠ "") with
  | ["new", i, t, c] =>
    match i.toNat?, t.toNat?, c.toNat? with
    | some i, some t, some c =>
      match lookupT t Gen.implTemplates with
      | some p =>
        let inst : Inst := ⟨t, p, c == 1, [], Msimple.isTame p, Mfull.newInstance p⟩
        ({ st with insts := st.insts.insert i inst }, "ok|ok")
      | none => (st, "bad-type")
    | _, _, _ => (st, "bad-op")
  | "add" :: i :: cid :: n :: rest =>
    match i.toNat?, cid.toNat?, n.toNat? with
    | some i, some cid, some n =>
      match st.insts[i]? with
      | none => (st, "bad-inst")
      | some inst =>
        if !inst.chk then
          ({ st with insts := st.insts.insert i { inst with kids := inst.kids ++ [(cid, n)] } }, "ok|ok")
        else
          let fwd := parseFwd rest
          let (rf, a') := Mfull.run inst.full (Mfull.elAddChild cid n fwd)
          let inst := { inst with full := a' }
          if !inst.tame then ({ st with insts := st.insts.insert i inst }, both (resF rf) "-")
          else
            match Msimple.add inst.p inst.kids cid n fwd with
            | .ok k => ({ st with insts := st.insts.insert i { inst with kids := k } }, both (resF rf) "ok")
            | .error .unmodelled => ({ st with insts := st.insts.insert i { inst with tame := false } }, both (resF rf) "-")
            | .error e => ({ st with insts := st.insts.insert i inst }, both (resF rf) ("err:" ++ e.str))
    | _, _, _ => (st, "bad-op")
  | ["rm", i, cid] =>
    match i.toNat?, cid.toNat? with
    | some i, some cid =>
      match st.insts[i]? with
      | none => (st, "bad-inst")
      | some inst =>
        if !inst.chk then
          match Msimple.remove inst.kids cid with
          | .ok k => ({ st with insts := st.insts.insert i { inst with kids := k } }, "ok|ok")
          | .error e => (st, both ("err:" ++ e.str) ("err:" ++ e.str))
        else
          let (rf, a') := Mfull.run inst.full (Mfull.elRemove cid)
          let inst := { inst with full := a' }
          if !inst.tame then ({ st with insts := st.insts.insert i inst }, both (resF rf) "-")
          else match Msimple.remove inst.kids cid with
            | .ok k => ({ st with insts := st.insts.insert i { inst with kids := k } }, both (resF rf) "ok")
            | .error e => ({ st with insts := st.insts.insert i inst }, both (resF rf) ("err:" ++ e.str))
    | _, _ => (st, "bad-op")
  | ["repl", i, old, new, n] =>
    match i.toNat?, old.toNat?, new.toNat?, n.toNat? with
    | some i, some old, some new, some n =>
      match st.insts[i]? with
      | none => (st, "bad-inst")
      | some inst =>
        if !inst.chk then
          match inst.kids.find? (·.1 == old) with
          | none => (st, "err:notAChild|err:notAChild")
          | some _ =>
            let inst' := { inst with kids := inst.kids.map (fun c => if c.1 == old then (new, n) else c) }
            ({ st with insts := st.insts.insert i inst' }, "ok|ok")
        else
          let (rf, a') := Mfull.run inst.full (Mfull.elReplace old new n)
          let inst := { inst with full := a' }
          if !inst.tame then ({ st with insts := st.insts.insert i inst }, both (resF rf) "-")
          else match Msimple.replace inst.kids old new n with
            | .ok k => ({ st with insts := st.insts.insert i { inst with kids := k } }, both (resF rf) "ok")
            | .error e => ({ st with insts := st.insts.insert i inst }, both (resF rf) ("err:" ++ e.str))
    | _, _, _, _ => (st, "bad-op")
  | ["obs", i] =>
    match i.toNat? with
    | some i =>
      match st.insts[i]? with
      | none => (st, "bad-inst")
      | some inst =>
        if !inst.chk then (st, both (obsSimple inst) (obsSimple inst))
        else
          let (s, a') := obsFull inst.full
          ({ st with insts := st.insts.insert i { inst with full := a' } },
            both s (if inst.tame then obsSimple inst else "-"))
    | none => (st, "bad-op")
  | ["check", i, ic] =>
    match i.toNat?, ic.toNat? with
    | some i, some ic =>
      match st.insts[i]? with
      | none => (st, "bad-inst")
      | some inst =>
        if !inst.chk then (st, "r=|r=")
        else
          let (r, a') := Mfull.run inst.full (Mfull.getRequiredElementNames (ic == 1))
          let rs := match r with
            | .ok l => joinNat l
            | .error e => "err:" ++ e.str
          ({ st with insts := st.insts.insert i { inst with full := a' } },
            both ("r=" ++ rs) (if inst.tame then "r=" ++ joinNat (Msimple.required inst.p inst.kids) else "-"))
    | _, _ => (st, "bad-op")
  | ["probe", i] =>
    -- acceptance of one more child of every symbol of the alphabet (on throw-away copies)
    match i.toNat? with
    | some i =>
      match st.insts[i]? with
      | none => (st, "bad-inst")
      | some inst =>
        let alpha := (dedup inst.p.leaves)
        if !inst.chk then (st, both ("p=" ++ ";".intercalate (alpha.map fun n => s!"{n}:ok:")) "-") else
        let partsF := alpha.map (fun n =>
          let (r, a1) := Mfull.run inst.full (Mfull.elAddChild 1000000 n none)
          match r with
          | .ok _ =>
            let (r2, _) := Mfull.run a1 (do discard <| Mfull.orderedChildren; Mfull.getRequiredElementNames false)
            match r2 with
            | .ok l => s!"{n}:ok:{joinNat l}"
            | .error e => s!"{n}:ok:err:{e.str}"
          | .error e => s!"{n}:err:{e.str}:")
        let partsS := alpha.map (fun n =>
          match Msimple.add inst.p inst.kids 1000000 n with
          | .ok k => s!"{n}:ok:{joinNat (Msimple.required inst.p k)}"
          | .error e => s!"{n}:err:{e.str}:")
        (st, both ("p=" ++ ";".intercalate partsF) (if inst.tame then "p=" ++ ";".intercalate partsS else "-"))
    | none => (st, "bad-op")
  | ["accepts", t, w] =>
    -- verified content-model oracle on the *spec* particle: word as comma separated name indices
    match t.toNat? with
    | some t =>
      match lookupT t Gen.specTemplates with
      | some p =>
        let ws := (w.splitOn ",").filterMap (·.toNat?)
        (st, if p.accepts ws then "yes" else "no")
      | none => (st, "bad-type")
    | none => (st, "bad-op")
  | ["val", k, v] =>
    match k.toNat?, parseVal v with
    | some k, some pv =>
      match Values.lookupDef k Gen.simpleDefs with
      | some d =>
        let r := Values.validate Gen.valuesEnv 6 d pv
        (st, if r == .ok then "ok:" ++ tohex (Values.pyStr pv) else r.str)
      | none => (st, "bad-type")
    | _, _ => (st, "bad-op")
  | ["elemval", c, v] =>
    -- XMLElement.value_ = v  for the element class c (value validated by TYPE(v))
    match c.toNat?, parseVal v with
    | some c, some pv =>
      match Gen.elemValueTypes.find? (·.1 == c) with
      | some (_, kind, tk) =>
        if kind == 2 then (st, "ok:" ++ tohex (Values.pyStr pv))
        else match Values.lookupDef tk Gen.simpleDefs with
          | some d =>
            let r := Values.validate Gen.valuesEnv 6 d pv
            (st, if r == .ok then "ok:" ++ tohex (Values.pyStr pv) else r.str)
          | none => (st, "bad-type")
      | none => (st, "bad-class")
    | _, _ => (st, "bad-op")
  | ["token", h] => (st, tohex (Values.cleanedToken (unhex h)))
  | ["tame", t] =>
    match t.toNat? with
    | some t => match lookupT t Gen.implTemplates with
      | some p => (st, if Msimple.isFlat p then "flat" else if Msimple.isTame p then "rootchoice" else "wild")
      | none => (st, "bad-type")
    | none => (st, "bad-op")
  | [] => (st, "")
  | _ => (st, "bad-op")

partial def loop (h : IO.FS.Stream) (out : IO.FS.Stream) (st : St) : IO Unit := do
  let line ← h.getLine
  if line.isEmpty then return ()
  let (st', o) := step st line
  out.putStrLn o
  if line.trimAscii.toString == "flush" then out.flush
  loop h out st'

def main : IO Unit := do
  let out ← IO.getStdout
  loop (← IO.getStdin) out {}
  out.flush
