import MxV.Model.MfullWitness
/-! GENERATED from known_findings.json: per property, (finding, content model, history) on which the model
    violates the property (selected with the compiled model; the kernel confirms them in Tables/D_witnesses.lean). -/
namespace Gen
open Mfull
def witC01 : List (Nat × List Op) := [
  (472, [.add 1 15 none, .rm 1]),
  (507, [.add 1 396 none, .rm 1]),
  (511, [.add 1 205 none, .rm 1]),
  (518, [.add 1 87 none, .add 2 423 none, .rm 1]),
  (550, [.add 1 118 none, .rm 1]),
  (555, [.add 1 32 none, .rm 1])
]
-- W-C01-arrow, W-C01-lyric, W-C01-metronome, W-C01-note, W-C01-swing, W-C01-time
def witC02 : List (Nat × List Op) := [
  (482, [.add 1 58 none, .add 2 60 none, .add 3 58 none]),
  (498, [.add 1 130 none, .add 2 182 none, .add 3 172 none, .add 4 26 none, .add 5 66 none, .add 6 130 none, .add 7 182 none, .add 8 172 none, .add 9 26 none, .add 10 66 none]),
  (507, [.add 1 101 none]),
  (511, [.add 1 33 none, .add 2 33 none, .add 3 34 none]),
  (529, [.add 1 327 none, .add 2 278 none]),
  (542, [.add 1 162 none, .add 2 281 none, .add 3 137 none, .add 4 326 none, .add 5 217 none, .add 6 216 none]),
  (545, [.add 1 216 none, .add 2 166 none])
]
-- W-C02-credit, W-C02-harmony, W-C02-lyric, W-C02-metronome, W-C02-part-list, W-C02-score-part, W-C02-sound
def witC06 : List (Nat × List Op) := [
  (482, [.add 1 40 none, .add 2 57 none, .add 3 60 none, .rm 1]),
  (503, [.add 1 37 none, .add 2 32 none, .add 3 37 none, .rm 1]),
  (504, [.add 1 178 none, .add 2 179 none, .add 3 178 none, .rm 1]),
  (507, [.add 1 396 none, .add 2 161 none, .rm 1]),
  (511, [.add 1 33 none, .add 2 209 none, .rm 1]),
  (518, [.add 1 292 none, .add 2 423 none, .rm 1]),
  (545, [.add 1 166 none, .add 2 166 none, .add 3 216 none, .rm 1]),
  (555, [.add 1 37 none, .add 2 32 none, .add 3 32 none, .rm 1])
]
-- W-C06-credit, W-C06-interchangeable, W-C06-key, W-C06-lyric, W-C06-metronome, W-C06-note, W-C06-sound, W-C06-time
def witC10 : List (Nat × List Op) := [
  (482, [.add 1 40 none, .add 2 57 none, .add 3 60 none, .rm 1]),
  (507, [.add 1 396 none, .add 2 161 none, .rm 1]),
  (511, [.add 1 33 none, .add 2 209 none, .rm 1]),
  (518, [.add 1 292 none, .add 2 423 none, .rm 1])
]
-- W-C10-credit, W-C10-lyric, W-C10-metronome, W-C10-note
def witC11 : List (Nat × List Op) := [
  (472, [.add 1 15 none, .rm 1]),
  (482, [.add 1 60 none, .rm 1]),
  (486, [.add 1 386 none, .rm 1]),
  (503, [.add 1 32 none, .add 2 32 none, .add 3 37 none, .rm 1]),
  (504, [.add 1 112 none, .rm 1]),
  (507, [.add 1 396 none, .rm 1]),
  (511, [.add 1 34 none, .rm 1]),
  (518, [.add 1 87 none, .rm 1]),
  (529, [.add 1 327 none, .add 2 327 none, .rm 1]),
  (545, [.add 1 166 none, .add 2 166 none, .add 3 216 none, .rm 1]),
  (550, [.add 1 118 none, .rm 1]),
  (555, [.add 1 32 none, .rm 1])
]
-- W-C11-arrow, W-C11-credit, W-C11-direction-type, W-C11-interchangeable, W-C11-key, W-C11-lyric, W-C11-metronome, W-C11-note, W-C11-part-list, W-C11-sound, W-C11-swing, W-C11-time
def witC12 : List (Nat × List Op) := [
  (482, [.add 1 57 none, .add 2 40 none]),
  (504, [.add 1 180 none]),
  (507, [.add 1 101 none]),
  (511, [.add 1 208 none, .add 2 208 none, .add 3 209 none])
]
-- W-C12-credit, W-C12-key, W-C12-lyric, W-C12-metronome
end Gen
