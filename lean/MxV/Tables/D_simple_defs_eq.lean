import MxV.Tables.Checks
namespace C03
open Gen
theorem simple_defs_eq : simpleDefsB = true := by decide +kernel
end C03
