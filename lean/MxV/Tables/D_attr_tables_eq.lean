import MxV.Tables.Checks
namespace C03
open Gen
theorem attr_tables_eq : attrTablesB = true := by decide +kernel
end C03
