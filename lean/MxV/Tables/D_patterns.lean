import MxV.Gen.Values
import MxV.Props.C05
import MxV.Model.CollapseTheory
/-! # pattern facets: the library's effective regular expressions have exactly the schema's language

`Gen.patternsS` — per pattern-carrying simple-type class, the Python regular expression the library
compiles (after its own `\c` / `\i` expansion; for `xs:date` the hand-written `_PATTERN`), translated
by `extract/regex2lean.py`. `Gen.specPatternsS` — the XSD pattern facet in force for the same type
(nearest ancestor that declares one; for `xs:date` the W3C lexical representation), translated from
the XSD regex syntax by `extract/xsdre.py`, which never looks at the library.

`patterns_agree` runs the verified equivalence checker `SRE.equiv` on every pair inside the kernel;
`pattern_language_is_schema` lifts it: for **every** string, the two expressions agree. -/
namespace C05
open Gen

def lookS (k : Nat) : List (Nat × SRE) → Option SRE
  | [] => none
  | (j, r) :: t => if k == j then some r else lookS k t

def patternsAgree : Bool :=
  patternsS.all fun p => match lookS p.1 specPatternsS with
    | some s => SRE.equiv p.2 s
    | none => false

theorem patterns_agree : patternsAgree = true := by decide +kernel

/-- every pattern-carrying type: the expression the library matches with and the schema's pattern
    accept exactly the same strings (all lengths, all code points) -/
theorem pattern_language_is_schema {k : Nat} {i s : SRE} (hi : (k, i) ∈ patternsS)
    (hs : lookS k specPatternsS = some s) (w : List Char) :
    RE.rmatch i.toREc w = RE.rmatch s.toREc w := by
  have h := patterns_agree
  simp only [patternsAgree, List.all_eq_true] at h
  have := h (k, i) hi
  simp only [hs] at this
  exact SRE.equiv_sound_char this w

theorem lookupPat_map (k : Nat) : ∀ l : List (Nat × SRE),
    Values.lookupPat k (l.map fun p => (p.1, p.2.toREc)) = (lookS k l).map SRE.toREc
  | [] => rfl
  | (j, r) :: t => by
    simp only [List.map, Values.lookupPat, lookS]
    split
    · rfl
    · exact lookupPat_map k t

theorem lookS_mem {k : Nat} {i : SRE} : ∀ {l : List (Nat × SRE)}, lookS k l = some i → (k, i) ∈ l
  | [], h => by simp [lookS] at h
  | (j, r) :: t, h => by
    simp only [lookS] at h
    split at h
    · rename_i hk
      have : k = j := by simpa using hk
      subst this
      cases h; exact List.mem_cons_self
    · exact List.mem_cons_of_mem _ (lookS_mem h)

/-- tied to the validator: whatever expression `validate` looks up for a type key, it has the
    language of the schema pattern of that type -/
theorem validator_pattern_is_schema {k : Nat} {r : RE Char} {s : SRE}
    (hr : Values.lookupPat k valuesEnv.pats = some r) (hs : lookS k specPatternsS = some s) (w : List Char) :
    RE.rmatch r w = RE.rmatch s.toREc w := by
  have e : valuesEnv.pats = patternsS.map fun p => (p.1, p.2.toREc) := rfl
  rw [e, lookupPat_map] at hr
  cases hl : lookS k patternsS with
  | none => simp [hl] at hr
  | some i =>
    simp [hl] at hr
    subst hr
    exact pattern_language_is_schema (lookS_mem hl) hs w

/-- **C05 for the token pattern types, end to end on the model**: such a type accepts a string exactly
    when the text, normalised as the schema prescribes (`whiteSpace = collapse`: `Values.collapseX`,
    proved equal to the port of get_cleaned_token in `Model/CollapseTheory.lean`), is in the language
    of the *schema's* pattern -/
theorem token_pattern_type_accepts_iff_schema (fuel : Nat) (d : Values.SimpleDef) (k : Nat) (i sp : SRE)
    (h : TokenPattern d k) (hk : (d.key == valuesEnv.dateKey) = false)
    (hi : lookS k patternsS = some i) (hs : lookS k specPatternsS = some sp) (x : String) :
    Values.validate valuesEnv (fuel + 1) d (.str x) = .ok ↔
      RE.rmatch sp.toREc (Values.collapseX x.toList) = true := by
  rw [← Values.cleanedToken_eq_collapse]
  have hr : Values.lookupPat k valuesEnv.pats = some i.toREc := by
    have e : valuesEnv.pats = patternsS.map fun p => (p.1, p.2.toREc) := rfl
    rw [e, lookupPat_map, hi]; rfl
  rw [token_pattern_accepts_iff valuesEnv fuel d k i.toREc h hk hr x,
    pattern_language_is_schema (lookS_mem hi) hs]

/-- the same for the types matched without white-space collapse (ID, IDREF, NCName, glyph-name subtypes) -/
theorem plain_pattern_type_accepts_iff_schema (fuel : Nat) (d : Values.SimpleDef) (k : Nat) (i sp : SRE)
    (h : PlainPattern d k) (hk : (d.key == valuesEnv.dateKey) = false)
    (hi : lookS k patternsS = some i) (hs : lookS k specPatternsS = some sp) (x : String) :
    Values.validate valuesEnv (fuel + 1) d (.str x) = .ok ↔ RE.rmatch sp.toREc x.toList = true := by
  have hr : Values.lookupPat k valuesEnv.pats = some i.toREc := by
    have e : valuesEnv.pats = patternsS.map fun p => (p.1, p.2.toREc) := rfl
    rw [e, lookupPat_map, hi]; rfl
  rw [plain_pattern_accepts_iff valuesEnv fuel d k i.toREc h hk hr x,
    pattern_language_is_schema (lookS_mem hi) hs]

/-- **xs:date accepts exactly the W3C lexical representation with an existing day of the month** -/
theorem xsDate_accepts_iff_w3c (fuel : Nat) (d : Values.SimpleDef) (k : Nat) (i sp : SRE)
    (h : PlainPattern d k) (hk : (d.key == valuesEnv.dateKey) = true)
    (hi : lookS k patternsS = some i) (hs : lookS k specPatternsS = some sp) (x : String) :
    Values.validate valuesEnv (fuel + 1) d (.str x) = .ok ↔
      (RE.rmatch sp.toREc x.toList = true ∧ Values.dateDayOk x.toList = true) := by
  have hr : Values.lookupPat k valuesEnv.pats = some i.toREc := by
    have e : valuesEnv.pats = patternsS.map fun p => (p.1, p.2.toREc) := rfl
    rw [e, lookupPat_map, hi]; rfl
  rw [date_accepts_iff valuesEnv fuel d k i.toREc h hk hr x,
    pattern_language_is_schema (lookS_mem hi) hs]

def isPlainPattern (d : Values.SimpleDef) : Bool :=
  d.pyTypes == [0] && d.union.isEmpty && d.forced.isEmpty && d.permitted.isEmpty && d.pattern.isSome &&
  d.base == 0 && !d.isNonNeg && !d.isPositive

/-- the definition the table holds for XSDSimpleTypeDate meets the hypotheses of `xsDate_accepts_iff_w3c` -/
theorem xsDate_is_plain_pattern :
    (match Values.lookupDef valuesEnv.dateKey simpleDefs with
     | some d => isPlainPattern d && d.pattern == some valuesEnv.dateKey && d.key == valuesEnv.dateKey &&
         (lookS valuesEnv.dateKey patternsS).isSome && (lookS valuesEnv.dateKey specPatternsS).isSome
     | none => false) = true := by decide +kernel

def isTokenPattern (d : Values.SimpleDef) : Bool :=
  d.pyTypes == [0] && d.union.isEmpty && d.forced.isEmpty && d.permitted.isEmpty && d.pattern.isSome &&
  d.base == 1 && !d.isNonNeg && !d.isPositive

theorem isTokenPattern_sound {d : Values.SimpleDef} (h : isTokenPattern d = true) :
    ∃ k, TokenPattern d k := by
  simp only [isTokenPattern, Bool.and_eq_true, beq_iff_eq, List.isEmpty_iff, Bool.not_eq_true',
    Option.isSome_iff_exists] at h
  obtain ⟨⟨⟨⟨⟨⟨⟨h1, h2⟩, h3⟩, h4⟩, ⟨k, h5⟩⟩, h6⟩, h7⟩, h8⟩ := h
  exact ⟨k, h1, h2, h3, h4, h5, h6, h7, h8⟩

/-- non-vacuity: the regenerated table contains such types, each with both expressions present -/
theorem token_pattern_types_exist :
    5 ≤ (simpleDefs.filter fun d => isTokenPattern d &&
      (match d.pattern with
       | some k => (lookS k patternsS).isSome && (lookS k specPatternsS).isSome
       | none => false)).length := by decide +kernel

/-! union types of the regenerated table (font-size, yes-no-number) meet `C05.union_accepts_iff_member` -/
def isPlainUnion (d : Values.SimpleDef) : Bool :=
  !d.union.isEmpty && d.forced.isEmpty && !d.isNonNeg && !d.isPositive

theorem isPlainUnion_sound {d : Values.SimpleDef} (h : isPlainUnion d = true) : PlainUnion d := by
  simp only [isPlainUnion, Bool.and_eq_true, Bool.not_eq_true', List.isEmpty_iff] at h
  obtain ⟨⟨⟨h1, h2⟩, h3⟩, h4⟩ := h
  refine ⟨?_, h2, h3, h4⟩
  intro hn; simp [hn] at h1

theorem union_types_exist :
    2 ≤ (simpleDefs.filter fun d => isPlainUnion d && d.union.all fun u => (Values.lookupDef u simpleDefs).isSome).length := by
  decide +kernel

/-- every pattern-carrying class has a schema pattern to be compared with (no pair is skipped) -/
theorem every_pattern_has_schema : (patternsS.all fun p => (lookS p.1 specPatternsS).isSome) = true := by
  decide +kernel

/-- … and conversely every type for which the schema has a pattern in force is validated with one
    (a dropped pattern check does not go unnoticed) -/
theorem every_schema_pattern_is_enforced : (specPatternsS.all fun p => (lookS p.1 patternsS).isSome) = true := by
  decide +kernel

/-- non-vacuity: the hypotheses are met by at least 20 concrete types -/
theorem pattern_count : 20 ≤ patternsS.length := by decide +kernel
end C05

#print axioms C05.patterns_agree
#print axioms C05.pattern_language_is_schema
#print axioms C05.validator_pattern_is_schema
#print axioms C05.token_pattern_type_accepts_iff_schema
#print axioms C05.plain_pattern_type_accepts_iff_schema
#print axioms C05.xsDate_accepts_iff_w3c
#print axioms C05.xsDate_is_plain_pattern
#print axioms C05.isTokenPattern_sound
#print axioms C05.token_pattern_types_exist
#print axioms C05.isPlainUnion_sound
#print axioms C05.union_types_exist
#print axioms C05.every_pattern_has_schema
#print axioms C05.every_schema_pattern_is_enforced
#print axioms C05.pattern_count
