import MxV.Tables.WitnessBase
/-! kernel-checked negative witnesses of C12 on the content models outside the proven class (see Tables/WitnessBase.lean) -/
namespace C12
open Witness Mfull Gen
/-- … children with exactly one schema-valid arrangement whose insertion in the listed order is refused, left
    "incomplete" or serialised differently -/
theorem fails_on_wild_models : allFail (fun sp p ops => wC12 sp p (addNames ops)) witC12 = true := by decide +kernel
/-- non-vacuity: the table really lists histories -/
example : 3 ≤ witC12.length := by decide
end C12

#print axioms C12.fails_on_wild_models
