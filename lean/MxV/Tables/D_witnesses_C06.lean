import MxV.Tables.WitnessBase
/-! kernel-checked negative witnesses of C06 on the content models outside the proven class (see Tables/WitnessBase.lean) -/
namespace C06
open Witness Mfull Gen
/-- … a history after which the two child views are not permutations of each other -/
theorem fails_on_wild_models : allFail (fun _ p ops => wC06 p ops) witC06 = true := by decide +kernel
/-- non-vacuity: the table really lists histories -/
example : 5 ≤ witC06.length := by decide
end C06

#print axioms C06.fails_on_wild_models
