import MxV.Tables.Checks
namespace C03
open Gen
theorem attr_names_nodup : attrNamesNodupB = true := by decide +kernel
end C03
