import MxV.Tables.Checks
namespace C03
open Gen
theorem type_binding_eq : typeBindingB = true := by decide +kernel
end C03
