import MxV.Tables.Checks
namespace C03
open Gen
theorem groups_eq : groupsB = true := by decide +kernel
end C03
