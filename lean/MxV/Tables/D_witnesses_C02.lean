import MxV.Tables.WitnessBase
/-! kernel-checked negative witnesses of C02 on the content models outside the proven class (see Tables/WitnessBase.lean) -/
namespace C02
open Witness Mfull Gen
/-- … a schema-valid word, supplied in order, that is refused, left "incomplete" or reordered -/
theorem fails_on_wild_models : allFail (fun sp p ops => wC02 sp p (addNames ops)) witC02 = true := by decide +kernel
/-- non-vacuity: the table really lists histories -/
example : 4 ≤ witC02.length := by decide
end C02

#print axioms C02.fails_on_wild_models
