import MxV.Tables.WitnessBase
/-! kernel-checked negative witnesses of C10 on the content models outside the proven class (see Tables/WitnessBase.lean) -/
namespace C10
open Witness Mfull Gen
/-- … a history whose refused calls change the final observable state -/
theorem fails_on_wild_models : allFail (fun _ p ops => wC10 p ops) witC10 = true := by decide +kernel
/-- non-vacuity: the table really lists histories -/
example : 3 ≤ witC10.length := by decide
end C10

#print axioms C10.fails_on_wild_models
