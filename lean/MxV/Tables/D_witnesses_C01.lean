import MxV.Tables.WitnessBase
/-! kernel-checked negative witnesses of C01 on the content models outside the proven class (see Tables/WitnessBase.lean) -/
namespace C01
open Witness Mfull Gen
/-- on each listed content model there is a history after which the final check passes although the children are no word of the schema's content model -/
theorem fails_on_wild_models : allFail (fun sp p ops => wC01 sp p ops) witC01 = true := by decide +kernel
/-- non-vacuity: the table really lists histories -/
example : 4 ≤ witC01.length := by decide
end C01

#print axioms C01.fails_on_wild_models
