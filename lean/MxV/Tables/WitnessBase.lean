import MxV.Gen.Witnesses
import MxV.Gen.Templates
/-! # The properties really fail outside the proven class: kernel-checked negative witnesses

For every open content-model finding of C01, C02, C06, C10 and C11 one history is listed in
`Gen/Witnesses.lean`; here the kernel *runs the total model* `Mfull` on each of them and confirms
that the property's negation (`Model/MfullWitness.lean`: `wC01 … wC11`) holds. Together with the
correspondence run (model = code on every generated history) and the replay of the same histories
on the real library (`KNOWN-FINDING` lines) this pins the boundary of the theorems from both sides:
inside the Slotted class the properties are proved, outside it they are refuted. -/
namespace Witness
open Mfull Gen

def lookupT (k : Nat) : List (Nat × Particle) → Option Particle
  | [] => none
  | (k', v) :: r => if k == k' then some v else lookupT k r

/-- every listed history makes `f` true on the library's own template of that content model -/
def allFail (f : Particle → Particle → List Op → Bool) (l : List (Nat × List Op)) : Bool :=
  l.all fun (k, ops) => match lookupT k implTemplates, lookupT k specTemplates with
    | some p, some sp => f sp p ops
    | _, _ => false

def addNames (ops : List Op) : List Nat := ops.filterMap fun op => match op with
  | .add _ n _ => some n
  | _ => none
end Witness

