import MxV.Tables.Checks
namespace C03
open Gen
theorem elem_projections_ok : elemProjectionsB = true := by decide +kernel
end C03
