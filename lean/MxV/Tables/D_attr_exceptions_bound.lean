import MxV.Tables.Checks
namespace C03
open Gen
theorem attr_exceptions_bound : attrExceptionsBound = true := by decide +kernel
end C03
