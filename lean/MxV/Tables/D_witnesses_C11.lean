import MxV.Tables.WitnessBase
/-! kernel-checked negative witnesses of C11 on the content models outside the proven class (see Tables/WitnessBase.lean) -/
namespace C11
open Witness Mfull Gen
/-- … a history with removals that ends differently from a fresh element holding the surviving children -/
theorem fails_on_wild_models : allFail (fun _ p ops => wC11 p ops) witC11 = true := by decide +kernel
/-- non-vacuity: the table really lists histories -/
example : 8 ≤ witC11.length := by decide
end C11

#print axioms C11.fails_on_wild_models
