import MxV.Tables.Checks
namespace C03
open Gen
theorem schema_copy_eq : implSchemaHashes = specSchemaHashes := by decide +kernel
end C03
