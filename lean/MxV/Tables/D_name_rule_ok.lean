import MxV.Tables.Checks
namespace C03
open Gen
theorem name_rule_ok : nameRuleB = true := by decide +kernel
end C03
