import MxV.Tables.Checks
namespace C03
open Gen
theorem simple_sub : simpleSubB = true := by decide +kernel
end C03
