import MxV.Tables.Checks
namespace C03
open Gen
theorem attr_groups_eq : attrGroupsB = true := by decide +kernel
end C03
