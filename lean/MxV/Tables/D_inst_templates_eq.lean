import MxV.Tables.Checks
namespace C03
open Gen
theorem inst_templates_eq : instTemplatesB = true := by decide +kernel
end C03
