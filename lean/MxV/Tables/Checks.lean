import MxV.Core.Sub
import MxV.Gen.Templates
import MxV.Gen.Elements
import MxV.Gen.Attrs
import MxV.Gen.Simple
/-! Boolean checkers over the regenerated tables (definitions and generic lemmas only; the
    `decide +kernel` instances live in `MxV/Tables/D_*.lean`, one per file so that they are
    re-checked in parallel).

    Kernel evaluation of structurally recursive list functions costs ~50 µs per step, so the
    quadratic checks (`Nodup`, subset) are done through bit masks (`Nat.testBit`, `|||`, `<<<`
    are GMP-accelerated in the kernel) and are proved sound below; joins between the impl and
    spec tables are linear walks over lists the generator emits in the same key order. -/
namespace C03
open Gen

def lookup {β : Type} (k : Nat) : List (Nat × β) → Option β
  | [] => none
  | (k', v) :: r => if Nat.beq k k' then some v else lookup k r

theorem lookup_mem {β : Type} {k : Nat} {l : List (Nat × β)} {v : β} (h : lookup k l = some v) :
    (k, v) ∈ l := by
  induction l with
  | nil => simp [lookup] at h
  | cons a r ih =>
    obtain ⟨k', v'⟩ := a
    simp only [lookup] at h
    split at h
    · rename_i hk; have hk := Nat.eq_of_beq_eq_true hk; subst hk; cases h; simp
    · exact List.mem_cons_of_mem _ (ih h)

/-! ### bit-mask sets -/
def nodupM : List Nat → Nat → Bool
  | [], _ => true
  | n :: r, m => !(m.testBit n) && nodupM r (m ||| (1 <<< n))
def maskOf : List Nat → Nat → Nat
  | [], m => m
  | n :: r, m => maskOf r (m ||| (1 <<< n))
def nodupB (l : List Nat) : Bool := nodupM l 0
def subsetB (a b : List Nat) : Bool := a.all (fun n => (maskOf b 0).testBit n)

theorem testBit_set (m n x : Nat) :
    (m ||| (1 <<< n)).testBit x = (m.testBit x || decide (n = x)) := by
  rw [Nat.testBit_or, Nat.one_shiftLeft, Nat.testBit_two_pow]

theorem nodupM_sound : ∀ (l : List Nat) (m : Nat), nodupM l m = true →
    l.Nodup ∧ ∀ x ∈ l, m.testBit x = false
  | [], _, _ => by simp
  | n :: r, m, h => by
    simp only [nodupM, Bool.and_eq_true, Bool.not_eq_true'] at h
    obtain ⟨hn, hr⟩ := h
    obtain ⟨ih1, ih2⟩ := nodupM_sound r _ hr
    refine ⟨List.nodup_cons.2 ⟨?_, ih1⟩, ?_⟩
    · intro hmem
      have := ih2 n hmem
      rw [testBit_set] at this; simp at this
    · intro x hx
      rcases List.mem_cons.1 hx with rfl | hx
      · exact hn
      · have := ih2 x hx
        rw [testBit_set] at this; simp at this; exact this.1

theorem nodupB_sound {l : List Nat} (h : nodupB l = true) : l.Nodup := (nodupM_sound l 0 h).1

theorem maskOf_testBit : ∀ (l : List Nat) (m x : Nat),
    (maskOf l m).testBit x = (m.testBit x || decide (x ∈ l))
  | [], m, x => by simp [maskOf]
  | n :: r, m, x => by
    simp only [maskOf]
    rw [maskOf_testBit r, testBit_set]
    by_cases h : n = x <;> simp [h, eq_comm]

theorem subsetB_sound {a b : List Nat} (h : subsetB a b = true) : ∀ x ∈ a, x ∈ b := by
  intro x hx
  simp only [subsetB, List.all_eq_true] at h
  have := h x hx
  rw [maskOf_testBit] at this
  simpa using this

/-! ### content models: language equivalence impl = spec, for all words -/

def templatesEquivB : Bool :=
  implTemplates.all (fun kp => match lookup kp.1 specTemplates with
    | some q => kp.2.equivB q
    | none => false)
  && specTemplates.all (fun kq => (lookup kq.1 implTemplates).isSome)

/-- every instance's private copy is structurally the process-wide template of its type -/
def instTemplatesB : Bool :=
  instTemplates.all (fun r => match lookup r.2.1 implTemplates with
    | some p => r.2.2.beq p
    | none => false)

def groupsB : Bool :=
  implGroups.all (fun kp => match lookup kp.1 specGroups with
    | some q => kp.2.equivB q
    | none => false)
  && specGroups.all (fun kq => (lookup kq.1 implGroups).isSome)

/-! ### element classes -/

/-- the literal projections really are the projections of the row table -/
def elemProjectionsB : Bool :=
  implElements.map (·.name) == implElemNamesL && implElements.map (·.cls) == implElemClsL &&
  implElements.map (·.typeCls) == implElemTypeL && specElements.map (·.1) == specElemNamesL

/-- one class per declared element name, no class without a declaration, no name twice -/
def elementsBijectiveB : Bool :=
  nodupB specElemNamesL && nodupB implElemNamesL && nodupB implElemClsL &&
  subsetB specElemNamesL implElemNamesL && subsetB implElemNamesL specElemNamesL &&
  implElements.all (fun e => !e.broken)

theorem elements_bijective_sound (h : elementsBijectiveB = true) :
    specElemNamesL.Nodup ∧ implElemNamesL.Nodup ∧ implElemClsL.Nodup ∧
    (∀ n, n ∈ specElemNamesL ↔ n ∈ implElemNamesL) := by
  simp only [elementsBijectiveB, Bool.and_eq_true] at h
  obtain ⟨⟨⟨⟨⟨h1, h2⟩, h3⟩, h4⟩, h5⟩, _⟩ := h
  exact ⟨nodupB_sound h1, nodupB_sound h2, nodupB_sound h3,
    fun n => ⟨subsetB_sound h4 n, subsetB_sound h5 n⟩⟩

/-- the class of name `n` is the one the documented naming rule yields (the live function was
    evaluated on every declared name, rows in the same order as the element table), the rule is
    injective on the declared names, and `__all__` lists exactly these classes -/
def nameRuleB : Bool :=
  implNameRule.map (·.1) == implElemNamesL && implNameRule.map (·.2) == implElemClsL &&
  nodupB implElemClsL &&
  subsetB implAllDecl implElemClsL && subsetB implElemClsL implAllDecl

/-- each class is bound to (the class of) the type its declaration names; impl rows and spec
    rows are walked in the same (name) order -/
def bindWalk : List Nat → List Nat → List (Nat × List Nat) → Bool
  | [], [], [] => true
  | n :: ns, t :: ts, (n', tys) :: r => Nat.beq n n' && tys.any (Nat.beq t) && bindWalk ns ts r
  | _, _, _ => false
def typeBindingB : Bool := bindWalk implElemNamesL implElemTypeL specElements

/-! ### attribute tables -/

def rowB (r r' : AttrRow) : Bool :=
  Nat.beq r.name r'.name && Nat.beq r.type r'.type && r.required == r'.required && r.broken == r'.broken
def rowsSubset (a b : List AttrRow) : Bool := a.all (fun r => b.any (rowB r))
def rowsEq (a b : List AttrRow) : Bool := rowsSubset a b && rowsSubset b a && a.length == b.length

/-- type keys whose impl attribute table is broken on the current tree (open findings F9:
    xlink references, xs:anyURI, inline-typed xml:space). A key listed here only *weakens*
    the theorem; it is never a proof obligation that the table stays broken. -/
def attrExceptions : List Nat :=
  (implAttrs.filter (fun r => r.2.1.any (·.broken))).map (·.1)

/-- impl and spec attribute tables (emitted in the same type-key order) agree row by row -/
def attrWalk : List (Nat × List AttrRow × Nat) → List (Nat × List AttrRow × Nat) → Bool
  | [], [] => true
  | (k, rows, sc) :: r, (k', rows', sc') :: r' =>
    Nat.beq k k' && (rows.any (·.broken) || (rowsEq rows rows' && Nat.beq sc sc')) && attrWalk r r'
  | _, _ => false
def attrTablesB : Bool := attrWalk implAttrs specAttrs

/-- the exception list is bounded by what the design recorded (so a *new* broken table is not
    silently excused): at most these 7 type keys -/
def attrExceptionsBound : Bool := attrExceptions.length ≤ 7

def groupWalk : List (Nat × List AttrRow) → List (Nat × List AttrRow) → Bool
  | [], [] => true
  | (k, rows) :: r, (k', rows') :: r' =>
    Nat.beq k k' && (rows.any (·.broken) || rowsEq rows rows') && groupWalk r r'
  | _, _ => false
def attrGroupsB : Bool := groupWalk implAttrGroups specAttrGroups

/-- no attribute is declared twice for one type (so "the" type/required flag is well defined) -/
def attrNamesNodupB : Bool :=
  implAttrs.all (fun r => r.2.1.any (·.broken) || nodupB (r.2.1.map (·.name)))

/-! ### simple types -/
def simpleRowB (i s : SimpleRow) : Bool :=
  Nat.beq i.key s.key && Nat.beq i.base s.base && i.enums == s.enums &&
  i.facets.map (·.1) == s.facets.map (·.1) && i.facets.map (·.2) == s.facets.map (·.2) &&
  i.members == s.members && i.forced == s.forced
/-- every schema simple type has an impl class with the same base, enumeration, facets, union
    members and forced literals (spec rows are walked against the impl rows of the same key; the
    generator emits `implSimpleForSpec` in spec order) -/
def simpleWalk : List SimpleRow → List SimpleRow → Bool
  | [], [] => true
  | i :: r, s :: r' => simpleRowB i s && simpleWalk r r'
  | _, _ => false
def simpleDefsB : Bool := simpleWalk implSimpleForSpec specSimple
def simpleSubB : Bool := implSimpleForSpec.all (fun r => implSimple.any (simpleRowB r))

end C03
