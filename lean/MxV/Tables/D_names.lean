import MxV.Gen.Elements
/-! name-rule facts decided on the regenerated name tables (code points; '_' = 95, '-' = 45) -/
namespace C15
open Gen
def noUnderscore (s : List Nat) : Bool := !(s.contains 95)
/-- no element or attribute name contains an underscore, so the hyphen ↔ underscore spelling of the
    shortcut syntax is a bijection on the declared names (no two names collapse) -/
theorem element_names_no_underscore : elementNameCodes.all noUnderscore = true := by decide +kernel
theorem attr_names_no_underscore : attributeNameCodes.all noUnderscore = true := by decide +kernel
/-- the declared attribute names shadowed by Python-side reserved names: exactly `name` -/
theorem reserved_collisions :
    attributeNameCodes.filter (fun a => reservedPropCodes.contains a) = [[110, 97, 109, 101]] := by decide +kernel
end C15
