import MxV.Tables.Checks
namespace C03
open Gen
theorem elements_bijective : elementsBijectiveB = true := by decide +kernel
end C03
