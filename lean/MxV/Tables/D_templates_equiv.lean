import MxV.Tables.Checks
namespace C03
open Gen
theorem templates_equiv : templatesEquivB = true := by decide +kernel
end C03
