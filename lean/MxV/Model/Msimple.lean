import MxV.Core.Specs
/-! # Msimple — the matcher restricted to `Tame` templates, in proof-friendly form

`Tame = Flat ∨ RootChoice` (DESIGN §4.3). On these templates the observable behaviour of
`XMLChildContainer` + the child-handling half of `XMLElement` (as of the repaired tree, i.e.
with `remove()` resetting the validation flags of emptied particles) is a function of the
insertion-ordered list of live children only:

* `Flat`  : a child named `n` is accepted iff `n` is a leaf and the leaf is not full; the
  schema-ordered view is the stable sort of the insertion list by leaf position; the final check
  reports the under-filled leaves of every scope that is required or non-empty.
* `RootChoice min..max` of leaves `1..1`: with `max = 1` at most one child; with `max = ∞` every
  further child gets a fresh copy of the choice appended, so the ordered view *is* the insertion
  list.

The model is tied to the code by the correspondence run on all 68 `Tame` types (and three-way
with `Mfull` once that is complete). Everything here is total, computable and Mathlib-free. -/

namespace Msimple

/-- documented rejection kinds + the internal failures the code can produce on these paths -/
inductive Err
  | wrongElement      -- XMLChildContainerWrongElementError
  | maxOccurs         -- XMLChildContainerMaxOccursError
  | anotherChosen     -- XMLChildContainerChoiceHasAnotherChosenChild
  | notAChild         -- ValueError from remove / replace_child of a non-child
  | unmodelled        -- outside the modelled envelope (unused since the forward paths are modelled)
  deriving DecidableEq, Repr

def Err.str : Err → String
  | .wrongElement => "wrongElement" | .maxOccurs => "maxOccurs" | .anotherChosen => "anotherChosen"
  | .notAChild => "notAChild" | .unmodelled => "unmodelled"

/-- shape classes -/
def isUnitLeaf : Particle → Bool
  | .elem _ 1 (some 1) => true
  | _ => false

def isRootChoice : Particle → Bool
  | .choice mi ma ps => decide (mi ≤ 1) && !ps.isEmpty && (ma == none || ma == some 1) && ps.all isUnitLeaf
  | _ => false

def nodupNat : List Nat → Bool
  | [] => true
  | n :: r => !r.contains n && nodupNat r

def isFlat (p : Particle) : Bool := p.flat && nodupNat p.leaves
def isTame (p : Particle) : Bool := (isFlat p) || (isRootChoice p && nodupNat p.leaves)

/-- live children in insertion order: (child id, element name) -/
abbrev Kids := List (Nat × Nat)

def names (k : Kids) : List Nat := k.map (·.2)
def ids (k : Kids) : List Nat := k.map (·.1)
def count (k : Kids) (n : Nat) : Nat := (names k).count n

def maxOf (p : Particle) (n : Nat) : Option (Option Nat) :=
  (p.specs.find? (fun s => s.1 == n)).map (·.2.2)

-- names of under-filled leaves the final check reports, in leaf order (Flat)
mutual
def missing (c : Nat → Nat) : Particle → List Nat
  | .elem n mi _ => if c n < mi then [n] else []
  | .seq mi _ ps => if mi == 0 && Particle.empL c ps then [] else missingL c ps
  | .choice _ _ _ => []
  | .group _ mi _ p => if mi == 0 && p.emp c then [] else missing c p
def missingL (c : Nat → Nat) : List Particle → List Nat
  | [] => []
  | p :: ps => missing c p ++ missingL c ps
end

/-- `forward` on a name with exactly one leaf: Python list indexing accepts 0 and -1 -/
def fwdOk : Option Int → Bool
  | none => true
  | some i => i == 0 || i == -1

/-- Python index normalisation into a list of length `n` -/
def pyIndex (i : Int) (n : Nat) : Option Nat :=
  let j : Int := if i < 0 then i + n else i
  if j < 0 || j ≥ n then none else some j.toNat

/-- a forwarded add on a *populated* RootChoice never succeeds: there is one leaf per (copy of
    the) choice and each copy holds one child, so the forwarded leaf is full (same name) or belongs
    to another branch; an index outside the copies is 'Wrong forwarding' as well -/
def fwdErrChoice (ma : Option Nat) (k : Kids) (n : Nat) (f : Int) : Err :=
  match ma with
  | none =>
    (match pyIndex f k.length with
      | some j => if (names k)[j]? == some n then .maxOccurs else .anotherChosen
      | none => .anotherChosen)
  | some _ =>
    if !fwdOk (some f) then .anotherChosen
    else (match k with
      | (_, m) :: _ => if m == n then .maxOccurs else .anotherChosen
      | [] => .anotherChosen)

/-- add_child on a checked element -/
def add (p : Particle) (k : Kids) (cid n : Nat) (fwd : Option Int := none) : Except Err Kids :=
  if isFlat p then
    match maxOf p n with
    | none => .error .wrongElement
    | some ma =>
      if !fwdOk fwd then .error .anotherChosen     -- 'Wrong forwarding'
      else if leMax (count k n + 1) ma then .ok (k ++ [(cid, n)]) else .error .maxOccurs
  else
    match p with
    | .choice _ ma _ =>
      if !p.leaves.contains n then .error .wrongElement
      else match fwd, k with
        | some f, _ :: _ => .error (fwdErrChoice ma k n f)
        | _, _ =>
          if !fwdOk fwd then .error .anotherChosen
          else match ma with
            | none => .ok (k ++ [(cid, n)])
            | some _ =>   -- RootChoice 1..1
              match k with
              | [] => .ok [(cid, n)]
              | (_, m) :: _ => if m == n then .error .maxOccurs else .error .anotherChosen
    | _ => .error .wrongElement

def remove (k : Kids) (cid : Nat) : Except Err Kids :=
  if (ids k).contains cid then .ok (k.filter (·.1 != cid)) else .error .notAChild

/-- replace_child(old, new) on a checked element: same element name required -/
def replFirst (old : Nat) (nw : Nat × Nat) : Kids → Kids
  | [] => []
  | c :: r => if c.1 == old then nw :: r else c :: replFirst old nw r

def replace (k : Kids) (old new n : Nat) : Except Err Kids :=
  match k.find? (·.1 == old) with
  | none => .error .notAChild
  | some (_, m) => if m == n then .ok (replFirst old (new, n) k) else .error .wrongElement

/-- schema-ordered view -/
def ordered (p : Particle) (k : Kids) : Kids :=
  if isFlat p then p.leaves.flatMap (fun n => k.filter (·.2 == n)) else k

/-- required-children verdict of the final check: `[]` = passes -/
def required (p : Particle) (k : Kids) : List Nat :=
  if isFlat p then missing (cnt (names k)) p
  else match p with
    | .choice mi _ ps => if mi ≥ 1 && k.isEmpty then (ps.map (fun q => q.leaves)).flatten else []
    | _ => []


/-! ### operation histories -/
inductive Op
  | add (cid n : Nat) (fwd : Option Int)
  | rm (cid : Nat)
  | repl (old new n : Nat)
  deriving Repr

def step (p : Particle) (k : Kids) : Op → Except Err Kids
  | .add c n f => add p k c n f
  | .rm c => remove k c
  | .repl o nw n => replace k o nw n

/-- a raising call leaves the element as it was: the Python exception propagates and (on Tame
    templates, by the correspondence run) nothing has been touched -/
def apply (p : Particle) (k : Kids) (op : Op) : Kids :=
  match step p k op with
  | .ok k' => k'
  | .error _ => k

def run (p : Particle) (ops : List Op) : Kids := ops.foldl (apply p) []

end Msimple
