import MxV.Model.Mfull
import MxV.Core.MaxCount
/-! # Negative witnesses on the full matcher model

`Mfull` is total (fuel-carrying structural recursion), so the kernel can run it. For the content
models outside the proven class the properties C01, C02, C06, C10, C11 are *false* for some
histories — of the code and of this model alike (the correspondence run shows they agree). This
file states, as decidable predicates over a history, what "the property fails here" means; the
generated table `Gen/Witnesses.lean` lists one history per open finding, and
`Tables/D_witnesses.lean` has the kernel confirm every one of them (`decide +kernel`). The same
histories are replayed on the real library by the checks (`KNOWN-FINDING`). -/
namespace Mfull

inductive Op
  | add (cid name : Nat) (fwd : Option Int)
  | rm (cid : Nat)
  | repl (old new name : Nat)
  deriving Repr, DecidableEq

structure Obs where
  ordered : Option (List Nat)
  unordered : List Nat
  required : Option (List Nat)
  deriving DecidableEq, Repr

/-- `get_children()`, `get_children(ordered=False)`, `get_required_element_names(False)`, in the order the
    harness observes them (the calls rewrite caches and flags, so the order is part of the history) -/
def observe (a : Arena) : Obs × Arena :=
  match run a orderedChildren with
  | (.error _, a1) => (⟨none, a1.unordered, none⟩, a1)
  | (.ok ord, a1) =>
    match run a1 (getRequiredElementNames false) with
    | (.ok l, a2) => (⟨some ord, a2.unordered, some l⟩, a2)
    | (.error _, a2) => (⟨some ord, a2.unordered, none⟩, a2)

def stepOp (a : Arena) : Op → Bool × Arena
  | .add c n f => match run a (elAddChild c n f) with
    | (.ok _, a') => (true, a')
    | (.error _, a') => (false, a')
  | .rm c => match run a (elRemove c) with
    | (.ok _, a') => (true, a')
    | (.error _, a') => (false, a')
  | .repl o n nm => match run a (elReplace o n nm) with
    | (.ok _, a') => (true, a')
    | (.error _, a') => (false, a')

/-- run a history on a fresh element, observing after every operation -/
def runObs (p : Particle) (ops : List Op) : List Bool × List Obs × Arena :=
  ops.foldl (fun (acc : List Bool × List Obs × Arena) op =>
    let (ok, a1) := stepOp acc.2.2 op
    let (ob, a2) := observe a1
    (acc.1 ++ [ok], acc.2.1 ++ [ob], a2)) ([], [], newInstance p)

def nameOf (a : Arena) (c : Nat) : Nat := (kget a.kids c).name

def countOf (x : Nat) (l : List Nat) : Nat := (l.filter (· == x)).length
def isPermB (a b : List Nat) : Bool := a.length == b.length && a.all fun x => countOf x a == countOf x b

/-- C06 fails: at some point the schema-ordered view is not a permutation of the insertion-ordered view -/
def wC06 (p : Particle) (ops : List Op) : Bool :=
  (runObs p ops).2.1.any fun ob => match ob.ordered with
    | some o => !isPermB o ob.unordered
    | none => false

/-- C01 fails: the final check passes (nothing required) while the serialised child names are not a word of the schema's content model -/
def wC01 (spec p : Particle) (ops : List Op) : Bool :=
  let r := runObs p ops
  r.2.1.any fun ob => match ob.ordered, ob.required with
    | some o, some [] => !(spec.accepts (o.map (nameOf r.2.2)))
    | _, _ => false

def addsOf (w : List Nat) : List Op := (w.zipIdx).map fun (n, i) => .add (i + 1) n none

/-- C02 fails: a word of the schema's content model, supplied in order to a fresh element, is refused,
    or leaves something "required", or comes back in another order -/
def wC02 (spec p : Particle) (w : List Nat) : Bool :=
  let r := runObs p (addsOf w)
  spec.accepts w &&
    (r.1.any (· == false) ||
     (match r.2.1.getLast? with
      | some ob => ob.required != some [] || ob.ordered.map (·.map (nameOf r.2.2)) != some w
      | none => false))

/-- C10 fails: the history with its refused calls and the history without them end in different observable states -/
def wC10 (p : Particle) (ops : List Op) : Bool :=
  let r := runObs p ops
  let clean := (ops.zip r.1).filterMap fun (op, ok) => if ok then some op else none
  let r2 := runObs p clean
  r.1.any (· == false) && r2.1.all (· == true) &&
    (r.2.1.getLast? != r2.2.1.getLast?)

/-- C11 fails: after removals the element differs (ordered child names or the "required" verdict) from a fresh
    element to which only the surviving children were added, in the same order -/
def wC11 (p : Particle) (ops : List Op) : Bool :=
  let r := runObs p ops
  let live := r.2.2.unordered
  let surv := ops.filter fun op => match op with
    | .add c _ _ => live.contains c
    | _ => false
  let r2 := runObs p surv
  let view := fun (x : List Bool × List Obs × Arena) => x.2.1.getLast?.map fun ob => (ob.ordered.map (·.map (nameOf x.2.2)), ob.required)
  ops.any (fun op => match op with | .rm _ => true | _ => false) &&
    ops.all (fun op => match op with | .repl _ _ _ => false | _ => true) &&
    r2.1.all (· == true) && view r != view r2

def insertAll (x : Nat) : List Nat → List (List Nat)
  | [] => [[x]]
  | y :: r => (x :: y :: r) :: (insertAll x r).map (y :: ·)
def perms : List Nat → List (List Nat)
  | [] => [[]]
  | x :: r => (perms r).flatMap (insertAll x)

/-- C12 fails: the children have exactly one schema-valid arrangement, yet adding them in this order is refused,
    or leaves something "required", or is serialised in another arrangement -/
def wC12 (spec p : Particle) (w : List Nat) : Bool :=
  let r := runObs p (addsOf w)
  match ((perms w).filter spec.accepts).eraseDups with
  | [arr] =>
    r.1.any (· == false) ||
      (match r.2.1.getLast? with
       | some ob => ob.required != some [] || ob.ordered.map (·.map (nameOf r.2.2)) != some arr
       | none => false)
  | _ => false

/-- C07 fails: every child of the history is accepted, yet some name now occurs more often than in any word of the
    schema's content model (`Particle.maxCount`), so no completion to a schema-valid element exists -/
def wC07 (spec p : Particle) (ops : List Op) : Bool :=
  let r := runObs p ops
  let names := ops.filterMap fun op => match op with
    | .add _ n _ => some n
    | _ => none
  ops.all (fun op => match op with | .add _ _ _ => true | _ => false) && r.1.all (· == true) &&
    names.any fun n => match spec.maxCount n with
      | some b => decide (b < occ_ n names)
      | none => false

/-- what a `true` answer of `wC07` means for the schema: whatever is added, the children never become a word of the content model -/
theorem wC07_sound {spec p : Particle} {ops : List Op} (h : wC07 spec p ops = true) :
    ∀ w : List Nat, (∀ x, occ_ x (ops.filterMap fun op => match op with | .add _ n _ => some n | _ => none) ≤ occ_ x w) →
      ¬ spec.Lang w := by
  simp only [wC07, Bool.and_eq_true, List.any_eq_true] at h
  obtain ⟨_, n, _, hn⟩ := h
  cases hb : spec.maxCount n with
  | none => simp [hb] at hn
  | some b =>
    simp only [hb, decide_eq_true_eq] at hn
    exact Particle.not_completable hb hn

end Mfull
