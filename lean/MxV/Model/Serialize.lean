import MxV.Model.Values
/-! # Serialize — CPython 3.12 `xml.etree.ElementTree`: `_escape_cdata`, `_escape_attrib`,
`indent(space="  ", level=L)` as the library calls it, `tostring(encoding='unicode')` with
short empty elements; and a reader for character data / attribute values (entity and character
reference expansion) used to state the escaping round trip. -/

namespace Serialize

def replaceChar (f : Char → Option String) (s : String) : String :=
  String.join (s.toList.map fun c => match f c with
    | some r => r
    | none => String.singleton c)

/-- `_escape_cdata` -/
def escText (s : String) : String :=
  replaceChar (fun c => if c == '&' then some "&amp;" else if c == '<' then some "&lt;"
    else if c == '>' then some "&gt;" else none) s

/-- `_escape_attrib` -/
def escAttr (s : String) : String :=
  replaceChar (fun c => if c == '&' then some "&amp;" else if c == '<' then some "&lt;"
    else if c == '>' then some "&gt;" else if c == '"' then some "&quot;"
    else if c == '\r' then some "&#13;" else if c == '\n' then some "&#10;"
    else if c == '\t' then some "&#09;" else none) s

structure XNode where
  name : String
  attrs : List (String × String)      -- already `str()`-rendered values, dict order
  text : Option String
  children : List XNode
  deriving Inhabited

def ind (k : Nat) : String := "\n" ++ String.join (List.replicate k "  ")

def isBlank (s : String) : Bool := s.toList.all Values.pyIsSpace

def attrsStr (a : List (String × String)) : String :=
  String.join (a.map fun (k, v) => " " ++ k ++ "=\"" ++ escAttr v ++ "\"")

/-- `tostring` of the tree after `indent(level = base)`; `d` is the depth below the serialised root -/
partial def render (base : Nat) (d : Nat) (n : XNode) : String :=
  let opn := "<" ++ n.name ++ attrsStr n.attrs
  match n.children with
  | [] =>
    (match n.text with
      | some t => if t.isEmpty then opn ++ " />" else opn ++ ">" ++ escText t ++ "</" ++ n.name ++ ">"
      | none => opn ++ " />")
  | cs =>
    let childInd := ind (base + d + 1)
    let txt := match n.text with
      | some t => if isBlank t then childInd else escText t
      | none => childInd
    let last := cs.length - 1
    let parts := cs.zipIdx.map fun (c, i) =>
      render base (d + 1) c ++ (if i == last then ind (base + d) else childInd)
    opn ++ ">" ++ txt ++ String.join parts ++ "</" ++ n.name ++ ">"

/-- `XMLElement.to_string()` of a node whose tree level is `level` -/
def toString (level : Nat) (n : XNode) : String := render level 0 n ++ "\n"

/-! ### reading back (what a conforming XML parser recovers) -/
/-- expand the five predefined entities and decimal character references in character data or an
    attribute value; unknown references are kept verbatim -/
def unescape (s : String) : String :=
  let rec go (l : List Char) (fuel : Nat) (acc : List Char) : List Char :=
    match fuel with
    | 0 => acc.reverse
    | fuel + 1 =>
      match l with
      | [] => acc.reverse
      | '&' :: r =>
        let name := r.takeWhile (· != ';')
        let rest := (r.dropWhile (· != ';')).drop 1
        let rep : Option (List Char) :=
          if name == "amp".toList then some ['&'] else if name == "lt".toList then some ['<']
          else if name == "gt".toList then some ['>'] else if name == "quot".toList then some ['"']
          else if name == "apos".toList then some ['\'']
          else match name with
            | '#' :: ds => (String.ofList ds).toNat?.map fun n => [Char.ofNat n]
            | _ => none
        (match rep with
          | some cs => go rest fuel (cs.reverse ++ acc)
          | none => go r fuel ('&' :: acc))
      | c :: r => go r fuel (c :: acc)
  String.ofList (go s.toList (s.length + 1) [])

end Serialize
