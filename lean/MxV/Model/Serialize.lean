import MxV.Model.Values
/-! # Serialize — CPython 3.12 `xml.etree.ElementTree`: `_escape_cdata`, `_escape_attrib`,
`indent(space="  ", level=L)` as the library calls it, `tostring(encoding='unicode')` with
short empty elements. Everything is over `List Char` (structural recursion; the theorems of
`Props/C16.lean` and `Model/XmlRoundTrip.lean` follow the same recursion); `toString` packs the
result into a `String` for the driver. -/

namespace Serialize

/-- `_escape_cdata` -/
def escT : List Char → List Char
  | [] => []
  | c :: r =>
    (if c == '&' then "&amp;".toList else if c == '<' then "&lt;".toList else if c == '>' then "&gt;".toList
     else [c]) ++ escT r

/-- `_escape_attrib` -/
def escA : List Char → List Char
  | [] => []
  | c :: r =>
    (if c == '&' then "&amp;".toList else if c == '<' then "&lt;".toList else if c == '>' then "&gt;".toList
     else if c == '"' then "&quot;".toList else if c == '\r' then "&#13;".toList
     else if c == '\n' then "&#10;".toList else if c == '\t' then "&#09;".toList else [c]) ++ escA r

def escText (s : String) : String := String.ofList (escT s.toList)
def escAttr (s : String) : String := String.ofList (escA s.toList)

structure XNode where
  name : List Char
  attrs : List (List Char × List Char)      -- already `str()`-rendered values, dict order
  text : Option (List Char)
  children : List XNode
  deriving Inhabited

/-- a line break and `k` levels of two blanks -/
def indL (k : Nat) : List Char := '\n' :: List.replicate (2 * k) ' '

def isBlankL (s : List Char) : Bool := s.all Values.pyIsSpace

def attrsL : List (List Char × List Char) → List Char
  | [] => []
  | (k, v) :: r => ' ' :: k ++ '=' :: '"' :: escA v ++ '"' :: attrsL r

-- `tostring` of the tree after `indent(level = base)`; `d` is the depth below the serialised root
mutual
def renderL (base : Nat) (d : Nat) : XNode → List Char
  | ⟨name, attrs, text, children⟩ =>
    match children with
    | [] =>
      (match text with
        | some t =>
          if t.isEmpty then '<' :: name ++ attrsL attrs ++ [' ', '/', '>']
          else '<' :: name ++ attrsL attrs ++ '>' :: escT t ++ '<' :: '/' :: name ++ ['>']
        | none => '<' :: name ++ attrsL attrs ++ [' ', '/', '>'])
    | c :: cs =>
      '<' :: name ++ attrsL attrs ++ '>' ::
        (match text with
          | some t => if isBlankL t then indL (base + d + 1) else escT t
          | none => indL (base + d + 1)) ++
        renderKidsL base d (c :: cs) ++ '<' :: '/' :: name ++ ['>']
/-- the children, each followed by its tail: the next child's indentation, or the parent's for the last one -/
def renderKidsL (base : Nat) (d : Nat) : List XNode → List Char
  | [] => []
  | [c] => renderL base (d + 1) c ++ indL (base + d)
  | c :: c' :: r => renderL base (d + 1) c ++ indL (base + d + 1) ++ renderKidsL base d (c' :: r)
end

/-- `XMLElement.to_string()` of a node whose tree level is `level` -/
def toString (level : Nat) (n : XNode) : String := String.ofList (renderL level 0 n ++ ['\n'])

end Serialize
