import MxV.Model.Serialize
/-! # What `to_string()` writes can be read back: a decoder and its round-trip theorem

`parseNode` is a small recursive-descent reader for the XML subset the serialiser emits (start tags
with double-quoted attributes, the five predefined entities and the three numeric references of
`_escape_attrib`, character data, end tags, ` />` for empty elements, white-space-only character
data between child elements ignored — exactly what an XML infoset comparison ignores).
`parse_render`: for every well-formed tree, at every indentation level, followed by anything,

    parseNode (renderL base d n ++ rest) = some (canon n, rest)

where `canon` forgets only what `ET.indent` overwrites (blank text of an element that has children)
and the `None` / `''` distinction of an empty leaf. Hence the serialiser is **injective** on canonical
trees and every string in text or attribute position is recovered exactly (no hypothesis on the
strings: markup characters, quotes, white space, any code point). -/
namespace Serialize
open Values

/-! ### the decoder -/
def nameStop (c : Char) : Bool := c == ' ' || c == '>' || c == '/' || c == '=' || c == '<' || c == '"'

def readName : List Char → List Char × List Char
  | [] => ([], [])
  | c :: r => if nameStop c then ([], c :: r) else ((readName r).1.cons c, (readName r).2)

def consV (c : Char) (o : Option (List Char × List Char)) : Option (List Char × List Char) :=
  o.map fun p => (c :: p.1, p.2)

/-- attribute value up to the closing quote, references expanded -/
def readVal : List Char → Option (List Char × List Char)
  | [] => none
  | '"' :: r => some ([], r)
  | '&' :: 'a' :: 'm' :: 'p' :: ';' :: r => consV '&' (readVal r)
  | '&' :: 'l' :: 't' :: ';' :: r => consV '<' (readVal r)
  | '&' :: 'g' :: 't' :: ';' :: r => consV '>' (readVal r)
  | '&' :: 'q' :: 'u' :: 'o' :: 't' :: ';' :: r => consV '"' (readVal r)
  | '&' :: '#' :: '1' :: '3' :: ';' :: r => consV '\r' (readVal r)
  | '&' :: '#' :: '1' :: '0' :: ';' :: r => consV '\n' (readVal r)
  | '&' :: '#' :: '0' :: '9' :: ';' :: r => consV '\t' (readVal r)
  | c :: r => consV c (readVal r)

def consT (c : Char) (p : List Char × List Char) : List Char × List Char := (c :: p.1, p.2)

/-- character data up to the next `<`, references expanded -/
def readText : List Char → List Char × List Char
  | [] => ([], [])
  | '<' :: r => ([], '<' :: r)
  | '&' :: 'a' :: 'm' :: 'p' :: ';' :: r => consT '&' (readText r)
  | '&' :: 'l' :: 't' :: ';' :: r => consT '<' (readText r)
  | '&' :: 'g' :: 't' :: ';' :: r => consT '>' (readText r)
  | c :: r => consT c (readText r)

def readAttrs : Nat → List Char → Option (List (List Char × List Char) × List Char)
  | 0, _ => none
  | f + 1, s =>
    match s with
    | ' ' :: c :: r =>
      if c == '/' then some ([], s)
      else
        (match (readName (c :: r)).2 with
          | '=' :: '"' :: r2 =>
            (match readVal r2 with
              | some (v, r3) => (readAttrs f r3).map fun p => (((readName (c :: r)).1, v) :: p.1, p.2)
              | none => none)
          | _ => none)
    | _ => some ([], s)

def stripPrefix : List Char → List Char → Option (List Char)
  | [], s => some s
  | c :: p, x :: s => if c == x then stripPrefix p s else none
  | _ :: _, [] => none

def expectClose (nm : List Char) (s : List Char) (n : XNode) : Option (XNode × List Char) :=
  match stripPrefix (nm ++ ['>']) s with
  | some r => some (n, r)
  | none => none

mutual
def parseNode : Nat → List Char → Option (XNode × List Char)
  | 0, _ => none
  | f + 1, s0 =>
    match s0 with
    | '<' :: s =>
      (match readAttrs ((readName s).2.length + 1) (readName s).2 with
      | none => none
      | some (as, s2) =>
        (match s2 with
          | ' ' :: '/' :: '>' :: r => some (⟨(readName s).1, as, none, []⟩, r)
          | '>' :: s3 =>
            (match (readText s3).2 with
              | '<' :: c2 :: s5 =>
                if c2 == '/' then
                  expectClose (readName s).1 s5 ⟨(readName s).1, as, some (readText s3).1, []⟩
                else
                  (match parseKids f ('<' :: c2 :: s5) with
                    | some (cs, '<' :: '/' :: s7) =>
                      expectClose (readName s).1 s7
                        ⟨(readName s).1, as, if isBlankL (readText s3).1 then none else some (readText s3).1, cs⟩
                    | _ => none)
              | _ => none)
          | _ => none))
    | _ => none
def parseKids : Nat → List Char → Option (List XNode × List Char)
  | 0, _ => none
  | f + 1, s =>
    match s.dropWhile pyIsSpace with
    | '<' :: c2 :: r =>
      if c2 == '/' then some ([], '<' :: c2 :: r)
      else
        (match parseNode f ('<' :: c2 :: r) with
          | some (c, r1) => (parseKids f r1).map fun p => (c :: p.1, p.2)
          | none => none)
    | _ => none
end

/-! ### what survives: the canonical form -/
mutual
def canon : XNode → XNode
  | ⟨n, a, t, cs⟩ =>
    match cs with
    | [] => ⟨n, a, (match t with
        | some t => if t.isEmpty then none else some t
        | none => none), []⟩
    | c :: cs => ⟨n, a, (match t with
        | some t => if isBlankL t then none else some t
        | none => none), canonL (c :: cs)⟩
def canonL : List XNode → List XNode
  | [] => []
  | c :: cs => canon c :: canonL cs
end

def goodName (n : List Char) : Bool := !n.isEmpty && n.all fun c => !nameStop c

mutual
def WF : XNode → Bool
  | ⟨n, a, _, cs⟩ => goodName n && a.all (fun p => goodName p.1) && WFL cs
def WFL : List XNode → Bool
  | [] => true
  | c :: cs => WF c && WFL cs
end

mutual
def size : XNode → Nat
  | ⟨_, _, _, cs⟩ => 1 + sizeL cs
def sizeL : List XNode → Nat
  | [] => 1
  | c :: cs => 1 + size c + sizeL cs
end

/-! ### lexical lemmas -/
theorem readName_good : ∀ (n : List Char) (c : Char) (rest : List Char),
    (n.all fun x => !nameStop x) = true → nameStop c = true → readName (n ++ c :: rest) = (n, c :: rest)
  | [], c, rest, _, hc => by simp [readName, hc]
  | x :: n, c, rest, hn, hc => by
    simp only [List.all_cons, Bool.and_eq_true, Bool.not_eq_true'] at hn
    have ih := readName_good n c rest hn.2 hc
    simp [readName, hn.1, ih]

theorem readVal_other {c : Char} (r : List Char) (h1 : c ≠ '"') (h2 : c ≠ '&') :
    readVal (c :: r) = consV c (readVal r) := by
  rw [readVal.eq_def]
  split <;> simp_all

theorem readVal_escA (v rest : List Char) : readVal (escA v ++ '"' :: rest) = some (v, rest) := by
  induction v with
  | nil => simp [escA, readVal]
  | cons c r ih =>
    simp only [escA]
    by_cases h1 : c = '&'
    · subst h1; simp [readVal, ih, consV]
    · by_cases h2 : c = '<'
      · subst h2; simp [readVal, ih, consV]
      · by_cases h3 : c = '>'
        · subst h3; simp [readVal, ih, consV]
        · by_cases h4 : c = '"'
          · subst h4; simp [readVal, ih, consV]
          · by_cases h5 : c = '\r'
            · subst h5; simp [readVal, ih, consV]
            · by_cases h6 : c = '\n'
              · subst h6; simp [readVal, ih, consV]
              · by_cases h7 : c = '\t'
                · subst h7; simp [readVal, ih, consV]
                · simp only [h1, h2, h3, h4, h5, h6, h7, beq_iff_eq, if_false, List.singleton_append,
                    List.cons_append, List.nil_append]
                  rw [readVal_other _ h4 h1, ih]; rfl

theorem readText_other {c : Char} (r : List Char) (h1 : c ≠ '<') (h2 : c ≠ '&') :
    readText (c :: r) = consT c (readText r) := by
  rw [readText.eq_def]
  split <;> simp_all

theorem readText_escT (t rest : List Char) : readText (escT t ++ '<' :: rest) = (t, '<' :: rest) := by
  induction t with
  | nil => simp [escT, readText]
  | cons c r ih =>
    simp only [escT]
    by_cases h1 : c = '&'
    · subst h1; simp [readText, ih, consT]
    · by_cases h2 : c = '<'
      · subst h2; simp [readText, ih, consT]
      · by_cases h3 : c = '>'
        · subst h3; simp [readText, ih, consT]
        · simp only [h1, h2, h3, beq_iff_eq, if_false, List.singleton_append, List.cons_append, List.nil_append]
          rw [readText_other _ h2 h1, ih]; rfl

/-- character data without `<` and `&` (the indentation `ET.indent` writes) is read verbatim -/
theorem readText_plain : ∀ (s rest : List Char), (∀ x ∈ s, x ≠ '<' ∧ x ≠ '&') →
    readText (s ++ '<' :: rest) = (s, '<' :: rest)
  | [], rest, _ => by simp [readText]
  | c :: r, rest, h => by
    have hc := h c List.mem_cons_self
    have ih := readText_plain r rest (fun x hx => h x (List.mem_cons_of_mem _ hx))
    simp only [List.cons_append]
    rw [readText_other _ hc.1 hc.2, ih]; rfl

theorem mem_indL {k : Nat} {x : Char} (h : x ∈ indL k) : x = '\n' ∨ x = ' ' := by
  simp only [indL, List.mem_cons, List.mem_replicate] at h
  rcases h with h | h
  · exact .inl h
  · exact .inr h.2

theorem readText_indL (k : Nat) (rest : List Char) : readText (indL k ++ '<' :: rest) = (indL k, '<' :: rest) := by
  apply readText_plain
  intro x hx
  rcases mem_indL hx with rfl | rfl <;> decide

theorem isBlankL_indL (k : Nat) : isBlankL (indL k) = true := by
  simp only [isBlankL, List.all_eq_true]
  intro x hx
  rcases mem_indL hx with rfl | rfl <;> decide

theorem dropWhile_blank : ∀ (ws : List Char) (x : List Char), isBlankL ws = true →
    (ws ++ '<' :: x).dropWhile pyIsSpace = '<' :: x
  | [], x, _ => by
    have : pyIsSpace '<' = false := by decide
    simp [List.dropWhile, this]
  | c :: r, x, h => by
    simp only [isBlankL, List.all_cons, Bool.and_eq_true] at h
    have ih := dropWhile_blank r x (by simpa [isBlankL] using h.2)
    simp [List.dropWhile, h.1, ih]

theorem stripPrefix_append : ∀ (p rest : List Char), stripPrefix p (p ++ rest) = some rest
  | [], rest => rfl
  | c :: p, rest => by simp [stripPrefix, stripPrefix_append p rest]

theorem expectClose_ok (nm rest : List Char) (n : XNode) : expectClose nm (nm ++ '>' :: rest) n = some (n, rest) := by
  unfold expectClose
  have : nm ++ '>' :: rest = (nm ++ ['>']) ++ rest := by simp
  rw [this, stripPrefix_append]

/-- what may follow the attributes of a start tag -/
def TagEnd (tail : List Char) : Prop := (∃ r, tail = ' ' :: '/' :: r) ∨ (∃ r, tail = '>' :: r)

theorem goodName_cons {n : List Char} (h : goodName n = true) :
    ∃ c r, n = c :: r ∧ nameStop c = false ∧ (n.all fun x => !nameStop x) = true := by
  cases n with
  | nil => simp [goodName] at h
  | cons c r =>
    simp only [goodName, List.isEmpty_cons, Bool.not_false, Bool.true_and] at h
    refine ⟨c, r, rfl, ?_, h⟩
    simp only [List.all_cons, Bool.and_eq_true, Bool.not_eq_true'] at h
    exact h.1

theorem readAttrs_attrsL : ∀ (as : List (List Char × List Char)) (tail : List Char) (f : Nat),
    as.length + 1 ≤ f → (as.all fun p => goodName p.1) = true → TagEnd tail →
    readAttrs f (attrsL as ++ tail) = some (as, tail)
  | [], tail, f, hf, _, ht => by
    cases f with
    | zero => omega
    | succ f =>
      rcases ht with ⟨r, rfl⟩ | ⟨r, rfl⟩
      · simp [attrsL, readAttrs]
      · simp [attrsL, readAttrs]
  | (k, v) :: as, tail, f, hf, hg, ht => by
    cases f with
    | zero => simp at hf
    | succ f =>
      simp only [List.all_cons, Bool.and_eq_true] at hg
      obtain ⟨hk, has⟩ := hg
      obtain ⟨k0, k', rfl, hk0, hall⟩ := goodName_cons hk
      have hne : k0 ≠ '/' := by
        intro h; subst h; simp [nameStop] at hk0
      have ih := readAttrs_attrsL as tail f (by simp at hf; omega) has ht
      have hrn := readName_good (k0 :: k') '=' ('"' :: (escA v ++ '"' :: (attrsL as ++ tail))) hall (by decide)
      have hrv := readVal_escA v (attrsL as ++ tail)
      simp only [List.cons_append] at hrn
      have hc : (k0 == '/') = false := by simpa using hne
      simp only [attrsL, List.cons_append, List.append_assoc, readAttrs, hc, Bool.false_eq_true, if_false, hrn, hrv, ih,
        Option.map_some]

theorem attrs_tail_head (as : List (List Char × List Char)) {T : List Char} (hT : TagEnd T) :
    ∃ c r, attrsL as ++ T = c :: r ∧ nameStop c = true := by
  cases as with
  | nil =>
    rcases hT with ⟨r, rfl⟩ | ⟨r, rfl⟩
    · exact ⟨' ', _, rfl, by decide⟩
    · exact ⟨'>', _, rfl, by decide⟩
  | cons p as =>
    obtain ⟨k, v⟩ := p
    exact ⟨' ', k ++ '=' :: '"' :: (escA v ++ '"' :: (attrsL as ++ T)), by simp [attrsL], by decide⟩

theorem attrs_length_le (as : List (List Char × List Char)) (T : List Char) :
    as.length ≤ (attrsL as ++ T).length := by
  induction as with
  | nil => simp
  | cons p as ih =>
    obtain ⟨k, v⟩ := p
    simp only [attrsL, List.cons_append, List.append_assoc, List.length_cons, List.length_append] at ih ⊢
    omega

/-- reading a start tag: name and attributes, whatever (legal) tag end follows -/
theorem read_open (name : List Char) (as : List (List Char × List Char)) (T : List Char)
    (hn : goodName name = true) (ha : (as.all fun p => goodName p.1) = true) (hT : TagEnd T) :
    (readName (name ++ attrsL as ++ T)).1 = name ∧
    readAttrs ((readName (name ++ attrsL as ++ T)).2.length + 1) (readName (name ++ attrsL as ++ T)).2 = some (as, T) := by
  obtain ⟨c, r, hcr, hc⟩ := attrs_tail_head as hT
  obtain ⟨_, _, _, _, hall⟩ := goodName_cons hn
  have hrn : readName (name ++ attrsL as ++ T) = (name, attrsL as ++ T) := by
    rw [List.append_assoc, hcr]
    exact readName_good name c r hall hc
  rw [hrn]
  refine ⟨rfl, ?_⟩
  show readAttrs ((attrsL as ++ T).length + 1) (attrsL as ++ T) = some (as, T)
  exact readAttrs_attrsL as T _ (by have := attrs_length_le as T; omega) ha hT

/-- the first two characters of a rendered node: `<` and a name character -/
theorem render_head (base d : Nat) (n : XNode) (h : WF n = true) (rest : List Char) :
    ∃ c r, renderL base d n ++ rest = '<' :: c :: r ∧ (c == '/') = false := by
  obtain ⟨name, attrs, text, children⟩ := n
  simp only [WF, Bool.and_eq_true] at h
  obtain ⟨c, r, rfl, hc, _⟩ := goodName_cons h.1.1
  have hne : (c == '/') = false := by
    cases hcs : (c == '/') with
    | false => rfl
    | true =>
      have : c = '/' := by simpa using hcs
      subst this; simp [nameStop] at hc
  cases children with
  | nil =>
    cases text with
    | none => exact ⟨c, _, by simp [renderL]; rfl, hne⟩
    | some t =>
      by_cases ht : t.isEmpty = true
      · exact ⟨c, _, by simp [renderL, ht]; rfl, hne⟩
      · exact ⟨c, _, by simp [renderL, ht]; rfl, hne⟩
  | cons k ks => exact ⟨c, _, by simp [renderL]; rfl, hne⟩

/-- reading an element that has children, given that its children are read correctly -/
theorem parse_with_kids (name : List Char) (attrs : List (List Char × List Char)) (txt rd K : List Char)
    (cs' : List XNode) (f : Nat) (rest : List Char) (c2 : Char) (Z : List Char)
    (hn : goodName name = true) (ha : (attrs.all fun p => goodName p.1) = true)
    (hrd : ∀ Z, readText (txt ++ '<' :: Z) = (rd, '<' :: Z))
    (hZ : K ++ '<' :: '/' :: (name ++ '>' :: rest) = '<' :: c2 :: Z) (hc2 : (c2 == '/') = false)
    (hkids : parseKids f (K ++ '<' :: '/' :: (name ++ '>' :: rest)) = some (cs', '<' :: '/' :: (name ++ '>' :: rest))) :
    parseNode (f + 1) ('<' :: (name ++ attrsL attrs ++ '>' :: (txt ++ (K ++ '<' :: '/' :: (name ++ '>' :: rest))))) =
      some (⟨name, attrs, if isBlankL rd then none else some rd, cs'⟩, rest) := by
  have hT : TagEnd ('>' :: (txt ++ (K ++ '<' :: '/' :: (name ++ '>' :: rest)))) := .inr ⟨_, rfl⟩
  obtain ⟨h1, h2⟩ := read_open name attrs _ hn ha hT
  rw [hZ] at hkids h2 h1 ⊢
  simp only [parseNode, h2, h1, hrd, hc2, Bool.false_eq_true, if_false, hkids, expectClose_ok]

mutual
theorem parseNode_render : (n : XNode) → (base d f : Nat) → (rest : List Char) → WF n = true → size n ≤ f →
    parseNode f (renderL base d n ++ rest) = some (canon n, rest)
  | ⟨name, attrs, text, children⟩, base, d, f, rest, hwf, hf => by
    cases f with
    | zero => simp [size] at hf
    | succ f =>
      simp only [WF, Bool.and_eq_true] at hwf
      obtain ⟨⟨hn, ha⟩, hcs⟩ := hwf
      cases children with
      | nil =>
        cases text with
        | none =>
          have hT : TagEnd (' ' :: '/' :: '>' :: rest) := .inl ⟨_, rfl⟩
          obtain ⟨h1, h2⟩ := read_open name attrs _ hn ha hT
          have e : renderL base d ⟨name, attrs, none, []⟩ ++ rest = '<' :: (name ++ attrsL attrs ++ ' ' :: '/' :: '>' :: rest) := by
            simp [renderL]
          rw [e]
          simp only [parseNode, h2, h1, canon]
        | some t =>
          by_cases ht : t.isEmpty = true
          · have hT : TagEnd (' ' :: '/' :: '>' :: rest) := .inl ⟨_, rfl⟩
            obtain ⟨h1, h2⟩ := read_open name attrs _ hn ha hT
            have e : renderL base d ⟨name, attrs, some t, []⟩ ++ rest = '<' :: (name ++ attrsL attrs ++ ' ' :: '/' :: '>' :: rest) := by
              simp [renderL, ht]
            rw [e]
            simp only [parseNode, h2, h1, canon, ht, if_true]
          · have hT : TagEnd ('>' :: (escT t ++ '<' :: '/' :: (name ++ '>' :: rest))) := .inr ⟨_, rfl⟩
            obtain ⟨h1, h2⟩ := read_open name attrs _ hn ha hT
            have e : renderL base d ⟨name, attrs, some t, []⟩ ++ rest =
                '<' :: (name ++ attrsL attrs ++ '>' :: (escT t ++ '<' :: '/' :: (name ++ '>' :: rest))) := by
              simp [renderL, ht]
            rw [e]
            have ht' : t.isEmpty = false := by simpa using ht
            simp only [parseNode, h2, h1, readText_escT, beq_self_eq_true, if_true, expectClose_ok, canon, ht',
              Bool.false_eq_true, if_false]
      | cons c cs =>
        have hsz : sizeL (c :: cs) ≤ f := by simp only [size] at hf; omega
        clear hf
        have hwfl : WFL (c :: cs) = true := hcs
        have hwfc : WF c = true := by simp only [WFL, Bool.and_eq_true] at hwfl; exact hwfl.1
        -- the children start with `<` followed by a name character
        obtain ⟨c2, Z, hZ, hc2⟩ : ∃ c2 Z, renderKidsL base d (c :: cs) ++ '<' :: '/' :: (name ++ '>' :: rest) = '<' :: c2 :: Z ∧
            (c2 == '/') = false := by
          cases cs with
          | nil =>
            obtain ⟨c2, r, h, hc2⟩ := render_head base (d + 1) c hwfc (indL (base + d) ++ '<' :: '/' :: (name ++ '>' :: rest))
            exact ⟨c2, r, by simpa [renderKidsL] using h, hc2⟩
          | cons c' r' =>
            obtain ⟨c2, r, h, hc2⟩ := render_head base (d + 1) c hwfc
              (indL (base + d + 1) ++ renderKidsL base d (c' :: r') ++ '<' :: '/' :: (name ++ '>' :: rest))
            exact ⟨c2, r, by simpa [renderKidsL] using h, hc2⟩
        have hkids := parseKids_render (c :: cs) base d f [] (name ++ '>' :: rest) hwfl hsz (by simp [isBlankL])
        simp only [List.nil_append] at hkids
        -- the character data in front of the first child, as written (txt) and as read back (rd)
        cases text with
        | none =>
          have e : renderL base d ⟨name, attrs, none, c :: cs⟩ ++ rest =
              '<' :: (name ++ attrsL attrs ++ '>' :: (indL (base + d + 1) ++ (renderKidsL base d (c :: cs) ++ '<' :: '/' :: (name ++ '>' :: rest)))) := by
            simp [renderL]
          have hc : canon ⟨name, attrs, none, c :: cs⟩ =
              ⟨name, attrs, if isBlankL (indL (base + d + 1)) then none else some (indL (base + d + 1)), canonL (c :: cs)⟩ := by
            simp [canon, isBlankL_indL]
          rw [e, hc]
          exact parse_with_kids name attrs _ _ _ _ f rest c2 Z hn ha (fun Z => readText_indL _ Z) hZ hc2 hkids
        | some t =>
          by_cases hb : isBlankL t = true
          · have e : renderL base d ⟨name, attrs, some t, c :: cs⟩ ++ rest =
                '<' :: (name ++ attrsL attrs ++ '>' :: (indL (base + d + 1) ++ (renderKidsL base d (c :: cs) ++ '<' :: '/' :: (name ++ '>' :: rest)))) := by
              simp [renderL, hb]
            have hc : canon ⟨name, attrs, some t, c :: cs⟩ =
                ⟨name, attrs, if isBlankL (indL (base + d + 1)) then none else some (indL (base + d + 1)), canonL (c :: cs)⟩ := by
              simp [canon, isBlankL_indL, hb]
            rw [e, hc]
            exact parse_with_kids name attrs _ _ _ _ f rest c2 Z hn ha (fun Z => readText_indL _ Z) hZ hc2 hkids
          · have e : renderL base d ⟨name, attrs, some t, c :: cs⟩ ++ rest =
                '<' :: (name ++ attrsL attrs ++ '>' :: (escT t ++ (renderKidsL base d (c :: cs) ++ '<' :: '/' :: (name ++ '>' :: rest)))) := by
              simp [renderL, hb]
            have hc : canon ⟨name, attrs, some t, c :: cs⟩ =
                ⟨name, attrs, if isBlankL t then none else some t, canonL (c :: cs)⟩ := by
              simp [canon, hb]
            rw [e, hc]
            exact parse_with_kids name attrs _ _ _ _ f rest c2 Z hn ha (fun Z => readText_escT t Z) hZ hc2 hkids
theorem parseKids_render : (l : List XNode) → (base d f : Nat) → (ws rest : List Char) → WFL l = true → sizeL l ≤ f →
    isBlankL ws = true →
    parseKids f (ws ++ renderKidsL base d l ++ '<' :: '/' :: rest) = some (canonL l, '<' :: '/' :: rest)
  | [], base, d, f, ws, rest, _, hf, hws => by
    cases f with
    | zero => simp [sizeL] at hf
    | succ f =>
      simp only [renderKidsL, List.append_nil]
      simp [parseKids, dropWhile_blank ws _ hws, canonL]
  | [c], base, d, f, ws, rest, hwf, hf, hws => by
    cases f with
    | zero => simp [sizeL] at hf
    | succ f =>
      simp only [WFL, Bool.and_eq_true] at hwf
      obtain ⟨c2, Z, hZ, hc2⟩ := render_head base (d + 1) c hwf.1 (indL (base + d) ++ '<' :: '/' :: rest)
      have hnode := parseNode_render c base (d + 1) f (indL (base + d) ++ '<' :: '/' :: rest) hwf.1
        (by simp only [sizeL] at hf; omega)
      have hrest := parseKids_render [] base d f (indL (base + d)) rest (by simp [WFL])
        (by simp only [sizeL] at hf ⊢; omega) (isBlankL_indL _)
      simp only [renderKidsL, List.append_nil] at hrest
      have e : ws ++ renderKidsL base d [c] ++ '<' :: '/' :: rest = ws ++ (renderL base (d + 1) c ++ (indL (base + d) ++ '<' :: '/' :: rest)) := by
        simp [renderKidsL]
      rw [e, hZ]
      rw [hZ] at hnode
      simp [parseKids, dropWhile_blank ws _ hws, hc2, hnode, hrest, canonL]
  | c :: c' :: r, base, d, f, ws, rest, hwf, hf, hws => by
    cases f with
    | zero => simp [sizeL] at hf
    | succ f =>
      simp only [WFL, Bool.and_eq_true] at hwf
      have hwf' : WFL (c' :: r) = true := by simp only [WFL, Bool.and_eq_true]; exact hwf.2
      obtain ⟨c2, Z, hZ, hc2⟩ := render_head base (d + 1) c hwf.1
        (indL (base + d + 1) ++ renderKidsL base d (c' :: r) ++ '<' :: '/' :: rest)
      have hnode := parseNode_render c base (d + 1) f (indL (base + d + 1) ++ renderKidsL base d (c' :: r) ++ '<' :: '/' :: rest) hwf.1
        (by simp only [sizeL] at hf; omega)
      have hrest := parseKids_render (c' :: r) base d f (indL (base + d + 1)) rest hwf'
        (by simp only [sizeL] at hf ⊢; omega) (isBlankL_indL _)
      have e : ws ++ renderKidsL base d (c :: c' :: r) ++ '<' :: '/' :: rest =
          ws ++ (renderL base (d + 1) c ++ (indL (base + d + 1) ++ renderKidsL base d (c' :: r) ++ '<' :: '/' :: rest)) := by
        simp [renderKidsL]
      have hrest' : parseKids f (indL (base + d + 1) ++ (renderKidsL base d (c' :: r) ++ '<' :: '/' :: rest)) =
          some (canon c' :: canonL r, '<' :: '/' :: rest) := by
        simpa [canonL, List.append_assoc] using hrest
      rw [e, hZ]
      rw [hZ] at hnode
      simp [parseKids, dropWhile_blank ws _ hws, hc2, hnode, hrest', canonL]
end

end Serialize
