import MxV.Model.Values
/-! # Element — attribute store, dot-assignment dispatch, required-attribute check
(xmlelement.py:22-23 `_PROPERTIES`, :50-70, :140-161 `_set_attributes`, :373-403 `__setattr__` /
`__getattr__`, util/core.py:44-51). Generic in the attribute table of the element's type. -/

namespace Element
open Values

/-- one row of a type's attribute table: (schema name, simple type class key, required) -/
abbrev Tbl := List (String × Nat × Bool)

/-- Python dict with insertion order -/
abbrev Store := List (String × PyVal)

inductive AErr
  | wrongAttribute        -- XSDWrongAttribute (constructor) / AttributeError (dot assignment)
  | typeError | valueError
  | keyExists             -- KeyError from replace_key_underline_with_hyphen (two keys map to one)
  deriving DecidableEq, Repr

def AErr.str : AErr → String
  | .wrongAttribute => "err:wrongAttribute" | .typeError => "err:TypeError" | .valueError => "err:ValueError"
  | .keyExists => "err:internal:KeyError"

/-- `'-'.join(k.split('_'))` -/
def normKey (k : String) : String := String.ofList (k.toList.map fun c => if c == '_' then '-' else c)

def storeGet (s : Store) (k : String) : Option PyVal := (s.find? (·.1 == k)).map (·.2)
def storeDel (s : Store) (k : String) : Store := s.filter (·.1 != k)
/-- `{**old, k: v}`: an existing key keeps its position, a new one goes last -/
def storeSet (s : Store) (k : String) (v : PyVal) : Store :=
  if s.any (·.1 == k) then s.map (fun e => if e.1 == k then (k, v) else e) else s ++ [(k, v)]

def tblFind (t : Tbl) (k : String) : Option (Nat × Bool) := (t.find? (·.1 == k)).map (·.2)

/-- `_set_attributes({key: value})` on an element whose type is complex -/
def setAttr (validate : Nat → PyVal → Res) (t : Tbl) (s : Store) (key : String) (v : PyVal) : Except AErr Store :=
  let k := normKey key
  match v with
  | .none => .ok (storeDel s k)
  | _ =>
    match tblFind t k with
    | Option.none => .error .wrongAttribute
    | some (ty, _) =>
      match validate ty v with
      | .ok => .ok (storeSet s k v)
      | .typeError => .error .typeError
      | .valueError => .error .valueError

/-- names with a Python-side meaning never reach the attribute path -/
def reserved (props : List String) (key : String) : Bool :=
  key.startsWith "_" || props.contains key

def isChildShortcut (key : String) : Bool := key.startsWith "xml_"

/-- required attributes that are not set (the first one is what `to_string()` complains about) -/
def missingRequired (t : Tbl) (s : Store) : List String :=
  (t.filter fun r => r.2.2 && !(s.any (·.1 == r.1))).map (·.1)

/-- `e.attr` read access for a non-reserved, non-`xml` name -/
inductive GetRes | val (v : PyVal) | none | attributeError
def getAttr (t : Tbl) (s : Store) (item : String) : GetRes :=
  match storeGet s (normKey item) with
  | some v => .val v
  | Option.none => if t.any (fun r => (String.ofList (r.1.toList.map fun c => if c == '-' then '_' else c)) == item) then .none
                   else .attributeError

end Element
