import MxV.Model.Values
/-! # Element — attribute store, dot-assignment dispatch, required-attribute check
(xmlelement.py:22-23 `_PROPERTIES`, :50-70, :140-161 `_set_attributes`, :373-403 `__setattr__` /
`__getattr__`, util/core.py:44-51). Generic in the attribute table of the element's type. -/

namespace Element
open Values

/-- one row of a type's attribute table: (schema name, simple type class key, required) -/
abbrev Tbl := List (String × Nat × Bool)

/-- Python dict with insertion order -/
abbrev Store := List (String × PyVal)

inductive AErr
  | wrongAttribute        -- XSDWrongAttribute (constructor) / AttributeError (dot assignment)
  | typeError | valueError
  | keyExists             -- KeyError from replace_key_underline_with_hyphen (two keys map to one)
  deriving DecidableEq, Repr

def AErr.str : AErr → String
  | .wrongAttribute => "err:wrongAttribute" | .typeError => "err:TypeError" | .valueError => "err:ValueError"
  | .keyExists => "err:internal:KeyError"

/-- `'-'.join(k.split('_'))` -/
def normKey (k : String) : String := String.ofList (k.toList.map fun c => if c == '_' then '-' else c)

def storeGet (s : Store) (k : String) : Option PyVal := (s.find? (·.1 == k)).map (·.2)
def storeDel (s : Store) (k : String) : Store := s.filter (·.1 != k)
/-- `{**old, k: v}`: an existing key keeps its position, a new one goes last -/
def storeSet (s : Store) (k : String) (v : PyVal) : Store :=
  if s.any (·.1 == k) then s.map (fun e => if e.1 == k then (k, v) else e) else s ++ [(k, v)]

def tblFind (t : Tbl) (k : String) : Option (Nat × Bool) := (t.find? (·.1 == k)).map (·.2)

/-- `_set_attributes({key: value})` on an element whose type is complex -/
def setAttr (validate : Nat → PyVal → Res) (t : Tbl) (s : Store) (key : String) (v : PyVal) : Except AErr Store :=
  let k := normKey key
  match v with
  | .none => .ok (storeDel s k)
  | _ =>
    match tblFind t k with
    | Option.none => .error .wrongAttribute
    | some (ty, _) =>
      match validate ty v with
      | .ok => .ok (storeSet s k v)
      | .typeError => .error .typeError
      | .valueError => .error .valueError

/-- names with a Python-side meaning never reach the attribute path -/
def reserved (props : List String) (key : String) : Bool :=
  key.startsWith "_" || props.contains key

def isChildShortcut (key : String) : Bool := key.startsWith "xml_"

/-- required attributes that are not set (the first one is what `to_string()` complains about) -/
def missingRequired (t : Tbl) (s : Store) : List String :=
  (t.filter fun r => r.2.2 && !(s.any (·.1 == r.1))).map (·.1)

/-- `e.attr` read access for a non-reserved, non-`xml` name -/
inductive GetRes | val (v : PyVal) | none | attributeError
def getAttr (t : Tbl) (s : Store) (item : String) : GetRes :=
  match storeGet s (normKey item) with
  | some v => .val v
  | Option.none => if t.any (fun r => (String.ofList (r.1.toList.map fun c => if c == '-' then '_' else c)) == item) then .none
                   else .attributeError

/-- what `e.xml_x = value` does (xmlelement.py:76-100), as a decision on five facts -/
inductive ShortcutAct
  | attributeError      -- not a possible child name / no such class
  | replace | add       -- value is an instance of the child class: replace the found child / add it
  | remove | nothing    -- value is None: remove the found child / nothing to do
  | setValue | addNew   -- any other value: set the found child's value / add a new child built from it
  deriving DecidableEq, Repr

def childShortcut (possible classExists found isInstance isNone : Bool) : ShortcutAct :=
  if !possible || !classExists then .attributeError
  else if isInstance then (if found then .replace else .add)
  else if isNone then (if found then .remove else .nothing)
  else (if found then .setValue else .addNew)

/-- `name.replace('xml_', '')` (all occurrences, left to right) -/
def removeXml : List Char → List Char
  | [] => []
  | 'x' :: 'm' :: 'l' :: '_' :: r => removeXml r
  | c :: r => c :: removeXml r

def shortcutChildName (key : String) : String :=
  normKey (String.ofList (removeXml key.toList))

def capFirst (s : List Char) : List Char :=
  match s with
  | [] => []
  | c :: r => c.toUpper :: r

/-- 'XML' + ''.join(cap_first(p) for p in child_name.split('_')) -/
def shortcutClassName (key : String) : String :=
  let cn := removeXml key.toList
  "XML" ++ String.ofList ((Values.splitOnChar '_' cn).flatMap capFirst)

end Element
