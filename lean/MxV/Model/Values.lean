import MxV.Core.RE
/-! # Values — Python values, the simple-type validator (xsdsimpletype.py:19-135 and the
primitive classes :141-273), `str()` rendering, and token cleaning (util/core.py:5-10).

The validator is generic in the extracted table `SimpleDef` (one row per simple type class:
python type gate, union members, forced/permitted literals, effective pattern, own restriction
base and facets, and which hand-written primitive classes are in its MRO). -/

namespace Values

/-- a Python value as the harness can offer it. Floats are carried as the exact decimal that
    `repr` prints (mantissa × 10^exp, sign) plus that repr text; `str(float)` is `repr`. -/
inductive PyVal
  | str (s : String)
  | int (z : Int)
  | bool (b : Bool)
  | float (neg : Bool) (mant : Nat) (exp : Int) (repr : String)
  | fnan
  | finf (neg : Bool)
  | none
  deriving Repr, Inhabited, BEq

inductive Res | ok | typeError | valueError
  deriving DecidableEq, Repr, Inhabited

def Res.str : Res → String
  | .ok => "ok" | .typeError => "err:TypeError" | .valueError => "err:ValueError"

structure SimpleDef where
  key : Nat                      -- interned class name
  pyTypes : List Nat             -- 0 = str, 1 = int, 2 = float
  union : List Nat               -- member classes, in the order they are tried
  forced : List String           -- _FORCED_PERMITTED
  permitted : List String        -- enumeration literals of the own restriction
  pattern : Option Nat           -- index into the pattern table
  base : Nat                     -- own restriction base: 1 xs:token, 2 xs:date, 3 smufl-glyph-name, 0 other/none
  facets : List (Nat × Int)      -- 0 minLength, 1 minExclusive, 2 minInclusive, 3 maxInclusive (own restriction, in order)
  isInteger : Bool               -- XSDSimpleTypeInteger in the MRO
  isNonNeg : Bool                -- XSDSimpleTypeNonNegativeInteger in the MRO
  isPositive : Bool              -- XSDSimpleTypePositiveInteger in the MRO
  isDecimal : Bool
  isString : Bool
  deriving Repr, Inhabited

/-! ### Python-side helpers -/
def pyTypeOf : PyVal → Option Nat
  | .str _ => some 0
  | .int _ => some 1
  | .bool _ => some 1          -- bool is a subclass of int
  | .float .. => some 2
  | .fnan => some 2
  | .finf _ => some 2
  | .none => Option.none

/-- `value in list_of_strings` (== semantics: only a str can equal a str) -/
def inStrs (v : PyVal) (l : List String) : Bool :=
  match v with
  | .str s => l.contains s
  | _ => false

/-- `str(v)` -/
def pyStr : PyVal → String
  | .str s => s
  | .int z => toString z
  | .bool b => if b then "True" else "False"
  | .float _ _ _ r => r
  | .fnan => "nan"
  | .finf n => if n then "-inf" else "inf"
  | .none => "None"

/-- three-way comparison of a numeric value with an integer: some (-1|0|1), none for nan / non-numbers -/
def cmpInt (v : PyVal) (k : Int) : Option Int :=
  let sgn := fun (a b : Int) => if a < b then (-1 : Int) else if a == b then 0 else 1
  match v with
  | .int z => some (sgn z k)
  | .bool b => some (sgn (if b then 1 else 0) k)
  | .float neg m e _ =>
    let mz : Int := if neg then -(m : Int) else m
    if e ≥ 0 then some (sgn (mz * 10 ^ e.toNat) k) else some (sgn mz (k * 10 ^ (-e).toNat))
  | .finf neg => some (if neg then -1 else 1)
  | _ => Option.none

def isSpaceTok (c : Char) : Bool := c == ' ' || c == '\n' || c == '\t' || c == '\r'

/-- Python `str.strip()` with no argument strips Unicode whitespace (used by the parser ladder for
    attribute / numeric readings, not by the token collapse any more) -/
def pyIsSpace (c : Char) : Bool :=
  c == ' ' || (c.val ≥ 9 && c.val ≤ 13) || (c.val ≥ 28 && c.val ≤ 31) || c.val == 0x85 || c.val == 0xa0 ||
  c.val == 0x1680 || (c.val ≥ 0x2000 && c.val ≤ 0x200a) || c.val == 0x2028 || c.val == 0x2029 ||
  c.val == 0x202f || c.val == 0x205f || c.val == 0x3000

/-- split at every character satisfying `p` (`str.split(sep)` for a one-character separator) -/
def splitP (p : Char → Bool) : List Char → List (List Char)
  | [] => [[]]
  | c :: r =>
    if p c then [] :: splitP p r
    else match splitP p r with
      | w :: ws => (c :: w) :: ws
      | [] => [[c]]

def splitOnChar (c : Char) (s : List Char) : List (List Char) := splitP (· == c) s

def stripL (s : List Char) : List Char := s.dropWhile pyIsSpace
def strip (s : List Char) : List Char := (stripL (stripL s).reverse).reverse

/-- XML white space: the only characters `whiteSpace="collapse"` is about -/
def isXs (c : Char) : Bool := c == ' ' || c == '\t' || c == '\n' || c == '\r'
/-- `partial.strip(' \t\n\r')` -/
def stripX (s : List Char) : List Char := ((s.dropWhile isXs).reverse.dropWhile isXs).reverse

/-- `sep.join(l)` for a one-character separator -/
def joinWith (c : Char) : List (List Char) → List Char
  | [] => []
  | [a] => a
  | a :: b :: r => a ++ c :: joinWith c (b :: r)

def joinSp (l : List (List Char)) : List Char := joinWith ' ' l

/-- one statement of get_cleaned_token: split at `c`, strip every piece of XML white space, join with blanks -/
def tokenPass (c : Char) (s : List Char) : List Char := joinSp ((splitOnChar c s).map stripX)

/-- util/core.py get_cleaned_token, statement by statement -/
def cleanedTokenL (s : List Char) : List Char :=
  let s3 := tokenPass '\r' (tokenPass '\t' (tokenPass '\n' s))
  joinSp (((splitOnChar ' ' s3).filter (· ≠ [])).map stripX)

def cleanedToken (s : String) : String := String.ofList (cleanedTokenL s.toList)

/-- XML Schema `whiteSpace="collapse"`: the maximal runs of non-white-space characters, joined by single blanks -/
def wordsX (s : List Char) : List (List Char) := (splitP isXs s).filter (· ≠ [])
def collapseX (s : List Char) : List Char := joinSp (wordsX s)

/-! ### xs:date: the day-of-month constraint (what the lexical pattern cannot say) -/
def digitsVal (l : List Char) : Nat := l.foldl (fun a c => 10 * a + (c.toNat - 48)) 0

/-- year, month, day of a string that matches the xs:date expression `-?Y+-MM-DD(zone)?` -/
def dateParts (s : List Char) : Int × Nat × Nat :=
  let neg := s.head? == some '-'
  let s1 := if neg then s.drop 1 else s
  let y := s1.takeWhile Char.isDigit
  let r := (s1.dropWhile Char.isDigit).drop 1
  ((if neg then -(digitsVal y : Int) else (digitsVal y : Int)), digitsVal (r.take 2), digitsVal ((r.drop 3).take 2))

def daysInMonth (y : Int) (m : Nat) : Nat :=
  if m == 2 then (if y % 4 == 0 && (y % 100 != 0 || y % 400 == 0) then 29 else 28)
  else if m == 4 || m == 6 || m == 9 || m == 11 then 30 else 31

/-- `XSDSimpleTypeDate._check_value`, second half: the day exists in that month of that (proleptic Gregorian) year -/
def dateDayOk (s : List Char) : Bool :=
  (dateParts s).2.2 ≤ daysInMonth (dateParts s).1 (dateParts s).2.1

/-! ### the validator -/
abbrev Patterns := List (Nat × RE Char)

def lookupPat (i : Nat) : Patterns → Option (RE Char)
  | [] => none
  | (j, r) :: t => if i == j then some r else lookupPat i t

def lookupDef (k : Nat) : List SimpleDef → Option SimpleDef
  | [] => none
  | d :: t => if d.key == k then some d else lookupDef k t

def typeGate (types : List Nat) (forced : List String) (v : PyVal) : Bool :=
  inStrs v forced || (match pyTypeOf v with
    | some t => types.contains t
    | Option.none => false)

structure Env where
  defs : List SimpleDef
  pats : Patterns
  datePat : Option (RE Char)     -- XSDSimpleTypeDate._PATTERN
  tokenKey : Nat := 0            -- XSDSimpleTypeToken
  dateKey : Nat := 0
  smuflKey : Nat := 0

def fullmatch (r : RE Char) (s : String) : Bool := RE.rmatch r s.toList

def facetCheck (v : PyVal) : List (Nat × Int) → Res
  | [] => .ok
  | (0, n) :: r =>   -- minLength: len(v) < n
    (match v with
      | .str s => if (s.length : Int) < n then .valueError else facetCheck v r
      | _ => .typeError)
  | (1, n) :: r =>   -- minExclusive: v <= n
    (match cmpInt v n with
      | some c => if c ≤ 0 then .valueError else facetCheck v r
      | Option.none => (match v with
        | .fnan => facetCheck v r       -- nan <= n is False
        | _ => .typeError))
  | (2, n) :: r =>   -- minInclusive: v < n
    (match cmpInt v n with
      | some c => if c < 0 then .valueError else facetCheck v r
      | Option.none => (match v with
        | .fnan => facetCheck v r
        | _ => .typeError))
  | (3, n) :: r =>   -- maxInclusive: v > n
    (match cmpInt v n with
      | some c => if c > 0 then .valueError else facetCheck v r
      | Option.none => (match v with
        | .fnan => facetCheck v r
        | _ => .typeError))
  | _ :: r => facetCheck v r

/-- effective python type gate of a definition (union: concatenation of the members' gates) -/
def gateTypes (env : Env) (d : SimpleDef) : List Nat :=
  if d.union.isEmpty then d.pyTypes
  else d.union.flatMap fun u => match lookupDef u env.defs with
    | some m => m.pyTypes
    | Option.none => []

/-- `T(value)` for a simple type class T: the setter chain of its MRO, then `_check_value`.
    `fuel` bounds the nesting through unions / token / date / smufl pre-checks (depth ≤ 3). -/
def validate (env : Env) : Nat → SimpleDef → PyVal → Res
  | 0, _, _ => .valueError
  | fuel + 1, d, v =>
    let types := gateTypes env d
    -- every setter in the chain starts with _check_value_type
    if !typeGate types d.forced v then .typeError
    else
      let core : Res :=
        if inStrs v d.forced then .ok
        else if !d.union.isEmpty then
          -- try every member; TypeError -> next; ValueError -> collect; none accepted -> ValueError
          if d.union.any (fun u => match lookupDef u env.defs with
              | some m => validate env fuel m v == .ok
              | Option.none => false) then .ok else .valueError
        else if !d.permitted.isEmpty then
          (if inStrs v d.permitted then .ok else .valueError)
        else match d.pattern with
          | some pi =>
            -- pre-checks by base, then fullmatch (a non-str value makes re raise TypeError)
            (match v with
              | .str s =>
                let pre : Res × String :=
                  if d.base == 2 then
                    (match env.datePat with
                      | some dp => (if fullmatch dp s && dateDayOk s.toList then .ok else .valueError, s)
                      | Option.none => (.ok, s))
                  else if d.base == 1 then (.ok, cleanedToken s)
                  else if d.base == 3 then
                    (match lookupDef env.smuflKey env.defs with
                      | some sd => (validate env fuel sd v, s)
                      | Option.none => (.ok, s))
                  else (.ok, s)
                if pre.1 != .ok then pre.1
                else (match lookupPat pi env.pats with
                  | some r =>
                    if fullmatch r pre.2 then
                      -- XSDSimpleTypeDate itself: the day-of-month check after the pattern
                      (if d.key == env.dateKey && !dateDayOk pre.2.toList then .valueError else .ok)
                    else .valueError
                  | Option.none => .ok)
              | _ => .typeError)
          | Option.none => facetCheck v d.facets
      if core != .ok then core
      else if inStrs v d.forced then .ok
      else if d.isNonNeg && !d.isPositive then
        (match cmpInt v 0 with
          | some c => if c < 0 then .valueError else .ok
          | Option.none => .ok)
      else if d.isPositive then
        (match cmpInt v 0 with
          | some c => if c ≤ 0 then .valueError else .ok
          | Option.none => .ok)
      else .ok

end Values
