import MxV.Model.Element
/-! # Parser — the two value-typing ladders of `parser.py:_et_xml_to_music_xml`.
`float(text)` / `int(text)` are Python built-ins: what they return for a given text is supplied by
the harness (`Oracle`), and that they are exactly CPython's is part of the trusted base. -/
namespace Parser
open Values Element

structure Oracle where
  asFloat : Option PyVal     -- none: float(text) raises ValueError
  asInt : Option PyVal       -- none: int(text) raises ValueError

/-- element text: str, then float, then int; only TypeError moves to the next rung -/
def elementValue (check : PyVal → Res) (text : String) (o : Oracle) : Except Res PyVal :=
  match check (.str text) with
  | .ok => .ok (.str text)
  | .valueError => .error .valueError
  | .typeError =>
    match o.asFloat with
    | Option.none => .error .valueError
    | some f =>
      match check f with
      | .ok => .ok f
      | .valueError => .error .valueError
      | .typeError =>
        match o.asInt with
        | Option.none => .error .valueError
        | some z =>
          match check z with
          | .ok => .ok z
          | r => .error r

/-- third rung: `setattr(output, k, float(v))` -/
def attrFloat (set : PyVal → Except AErr Store) (o : Oracle) : Except AErr Store :=
  match o.asFloat with
  | some f => set f
  | Option.none => .error .valueError

/-- second rung: `setattr(output, k, int(v))`, on ValueError (from `int()` or from the setter) the third -/
def attrInt (set : PyVal → Except AErr Store) (o : Oracle) : Except AErr Store :=
  match o.asInt with
  | some z =>
    (match set z with
      | .ok s => .ok s
      | .error .valueError => attrFloat set o
      | .error e => .error e)
  | Option.none => attrFloat set o

/-- attribute text: str, on TypeError/ValueError int, on ValueError float -/
def attrValue (set : PyVal → Except AErr Store) (o : Oracle) (v : String) : Except AErr Store :=
  match set (.str v) with
  | .ok s => .ok s
  | .error .typeError => attrInt set o
  | .error .valueError => attrInt set o
  | .error e => .error e

end Parser
