import MxV.Model.Mslot
import MxV.Model.MsimpleTheory
/-! Language characterisation of `Slotted` particles and the invariant of `Mslot`
(helper lemmas; the property theorems are in `MxV/Props/`). -/

/-! ### restriction of a word to a set of names -/
open Mslot (restr)

theorem restr_append (S u v : List Nat) : restr S (u ++ v) = restr S u ++ restr S v := by simp [restr]

theorem restr_eq_self {S w : List Nat} (h : ∀ x ∈ w, x ∈ S) : restr S w = w := by
  simp only [restr, List.filter_eq_self]
  intro x hx; simpa using h x hx

theorem restr_eq_nil {S w : List Nat} (h : ∀ x ∈ w, x ∉ S) : restr S w = [] := by
  simp only [restr, List.filter_eq_nil_iff]
  intro x hx; simpa using h x hx

theorem restr_subset (S w : List Nat) : ∀ x ∈ restr S w, x ∈ S := by
  intro x hx; simp only [restr, List.mem_filter] at hx; simpa using hx.2

theorem restr_restr_sub {S T w : List Nat} (h : ∀ x ∈ S, x ∈ T) : restr S (restr T w) = restr S w := by
  simp only [restr, List.filter_filter]
  apply List.filter_congr
  intro x _
  by_cases hx : x ∈ S
  · simp [hx, h x hx]
  · simp [hx]

theorem restr_eq_of_sub {S T w w' : List Nat} (hST : ∀ x ∈ S, x ∈ T) (h : restr T w = restr T w') :
    restr S w = restr S w' := by
  rw [← restr_restr_sub hST, h, restr_restr_sub hST]

theorem cnt_restr {S w : List Nat} {n : Nat} (h : n ∈ S) : cnt (restr S w) n = cnt w n := by
  simp only [cnt, restr]
  rw [List.count_filter]
  simpa using h

theorem cnt_of_restr_eq {S w w' : List Nat} (h : restr S w = restr S w') {n : Nat} (hn : n ∈ S) : cnt w n = cnt w' n := by
  rw [← cnt_restr hn, h, cnt_restr hn]

theorem restr_nil_of_cnt_zero {S w : List Nat} (h : ∀ n ∈ S, cnt w n = 0) : restr S w = [] := by
  apply restr_eq_nil
  intro x hx hS
  have := h x hS
  simp only [cnt] at this
  exact (List.count_eq_zero.1 this) hx

namespace Mslot
open Msimple

/-! ### okS / renderS: the word-level analogues of `Particle.ok` / `Particle.render` -/
mutual
def okS (w : List Nat) : Particle → Bool
  | .elem n mi ma => decide (mi ≤ cnt w n) && leMax (cnt w n) ma
  | .seq mi _ ps => (mi == 0 && Particle.empL (cnt w) ps) || okSL w ps
  | .choice mi ma ps =>
    decide (mi ≤ (restr (Particle.leavesL ps) w).length) && leMax (restr (Particle.leavesL ps) w).length ma
  | .group _ mi _ p => (mi == 0 && p.emp (cnt w)) || okS w p
def okSL (w : List Nat) : List Particle → Bool
  | [] => true
  | p :: ps => okS w p && okSL w ps
end

mutual
def renderS (w : List Nat) : Particle → List Nat
  | .elem n _ _ => restr [n] w
  | .seq _ _ ps => renderSL w ps
  | .choice _ _ ps => restr (Particle.leavesL ps) w
  | .group _ _ _ p => renderS w p
def renderSL (w : List Nat) : List Particle → List Nat
  | [] => []
  | p :: ps => renderS w p ++ renderSL w ps
end

mutual
theorem renderS_subset (w : List Nat) : (p : Particle) → ∀ x ∈ renderS w p, x ∈ p.leaves
  | .elem n _ _ => by intro x hx; simpa [renderS, Particle.leaves] using restr_subset [n] w x hx
  | .seq _ _ ps => by simpa [renderS, Particle.leaves] using renderSL_subset w ps
  | .choice _ _ ps => by intro x hx; simpa [renderS, Particle.leaves] using restr_subset _ w x hx
  | .group _ _ _ p => by simpa [renderS, Particle.leaves] using renderS_subset w p
theorem renderSL_subset (w : List Nat) : (ps : List Particle) → ∀ x ∈ renderSL w ps, x ∈ Particle.leavesL ps
  | [] => by intro x hx; simp [renderSL] at hx
  | p :: ps => by
    intro x hx
    simp only [renderSL, List.mem_append] at hx
    simp only [Particle.leavesL, List.mem_append]
    rcases hx with h | h
    · exact .inl (renderS_subset w p x h)
    · exact .inr (renderSL_subset w ps x h)
end

mutual
theorem emp_zero (c : Nat → Nat) : (p : Particle) → p.emp c = true → ∀ n ∈ p.leaves, c n = 0
  | .elem m _ _, h => by
    intro n hn; simp [Particle.leaves] at hn; subst hn; simpa [Particle.emp] using h
  | .seq _ _ ps, h => by simpa [Particle.leaves] using empL_zero c ps (by simpa [Particle.emp] using h)
  | .choice _ _ ps, h => by simpa [Particle.leaves] using empL_zero c ps (by simpa [Particle.emp] using h)
  | .group _ _ _ p, h => by simpa [Particle.leaves] using emp_zero c p (by simpa [Particle.emp] using h)
theorem empL_zero (c : Nat → Nat) : (ps : List Particle) → Particle.empL c ps = true → ∀ n ∈ Particle.leavesL ps, c n = 0
  | [], _ => by intro n hn; simp [Particle.leavesL] at hn
  | p :: ps, h => by
    simp only [Particle.empL, Bool.and_eq_true] at h
    intro n hn
    simp only [Particle.leavesL, List.mem_append] at hn
    rcases hn with hn | hn
    · exact emp_zero c p h.1 n hn
    · exact empL_zero c ps h.2 n hn
end

mutual
theorem renderS_emp (w : List Nat) : (p : Particle) → p.emp (cnt w) = true → renderS w p = []
  | .elem n _ _, h => by
    simp only [Particle.emp, beq_iff_eq] at h
    simp only [renderS]
    exact restr_nil_of_cnt_zero (by intro m hm; simp at hm; subst hm; exact h)
  | .seq _ _ ps, h => by simpa [renderS] using renderSL_emp w ps (by simpa [Particle.emp] using h)
  | .choice _ _ ps, h => by
    simp only [renderS]
    exact restr_nil_of_cnt_zero (empL_zero _ ps (by simpa [Particle.emp] using h))
  | .group _ _ _ p, h => by simpa [renderS] using renderS_emp w p (by simpa [Particle.emp] using h)
theorem renderSL_emp (w : List Nat) : (ps : List Particle) → Particle.empL (cnt w) ps = true → renderSL w ps = []
  | [], _ => rfl
  | p :: ps, h => by
    simp only [Particle.empL, Bool.and_eq_true] at h
    simp [renderSL, renderS_emp w p h.1, renderSL_emp w ps h.2]
end

/-! ### congruence: okS / renderS / emp only look at the restriction of the word to their leaves -/
mutual
theorem okS_congr (w w' : List Nat) : (p : Particle) → restr p.leaves w = restr p.leaves w' → okS w p = okS w' p
  | .elem n _ _, h => by
    have : cnt w n = cnt w' n := cnt_of_restr_eq h (by simp [Particle.leaves])
    simp [okS, this]
  | .seq mi _ ps, h => by
    simp only [Particle.leaves] at h
    have he : Particle.empL (cnt w) ps = Particle.empL (cnt w') ps :=
      Particle.empL_congr _ _ ps (fun n hn => cnt_of_restr_eq h hn)
    simp [okS, he, okSL_congr w w' ps h]
  | .choice mi ma ps, h => by
    simp only [Particle.leaves] at h
    simp [okS, h]
  | .group _ mi _ p, h => by
    simp only [Particle.leaves] at h
    have he : p.emp (cnt w) = p.emp (cnt w') := Particle.emp_congr _ _ p (fun n hn => cnt_of_restr_eq h hn)
    simp [okS, he, okS_congr w w' p h]
theorem okSL_congr (w w' : List Nat) : (ps : List Particle) →
    restr (Particle.leavesL ps) w = restr (Particle.leavesL ps) w' → okSL w ps = okSL w' ps
  | [], _ => rfl
  | p :: ps, h => by
    simp only [okSL]
    rw [okS_congr w w' p (restr_eq_of_sub (by intro x hx; simp [Particle.leavesL, hx]) h),
        okSL_congr w w' ps (restr_eq_of_sub (by intro x hx; simp [Particle.leavesL, hx]) h)]
end

mutual
theorem renderS_congr (w w' : List Nat) : (p : Particle) → restr p.leaves w = restr p.leaves w' →
    renderS w p = renderS w' p
  | .elem n _ _, h => by simpa [renderS, Particle.leaves] using h
  | .seq _ _ ps, h => by simpa [renderS] using renderSL_congr w w' ps (by simpa [Particle.leaves] using h)
  | .choice _ _ ps, h => by simpa [renderS, Particle.leaves] using h
  | .group _ _ _ p, h => by simpa [renderS] using renderS_congr w w' p (by simpa [Particle.leaves] using h)
theorem renderSL_congr (w w' : List Nat) : (ps : List Particle) →
    restr (Particle.leavesL ps) w = restr (Particle.leavesL ps) w' → renderSL w ps = renderSL w' ps
  | [], _ => rfl
  | p :: ps, h => by
    simp only [renderSL]
    rw [renderS_congr w w' p (restr_eq_of_sub (by intro x hx; simp [Particle.leavesL, hx]) h),
        renderSL_congr w w' ps (restr_eq_of_sub (by intro x hx; simp [Particle.leavesL, hx]) h)]
end

/-! ### main characterisation -/
theorem slot_shape {mi : Nat} {ma : Option Nat} {ps : List Particle} (h : isSlot (.choice mi ma ps) = true) :
    mi ≤ 1 ∧ ps ≠ [] ∧ (ma = none ∨ ma = some 1) ∧ ps.all isUnitLeaf = true := by
  simp only [isSlot, Bool.and_eq_true, Bool.or_eq_true, beq_iff_eq, decide_eq_true_eq, Bool.not_eq_true',
    List.isEmpty_eq_false_iff] at h
  exact ⟨h.1.1.1, h.1.1.2, h.1.2, h.2⟩

mutual
theorem slotted_iff : (p : Particle) → slotted p = true → p.leaves.Nodup → (w : List Nat) →
    (p.Lang w ↔ okS w p = true ∧ w = renderS w p)
  | .elem n mi ma, _, _, w => by
    simp only [Particle.Lang, Rep_elem, okS, renderS, Bool.and_eq_true, decide_eq_true_eq]
    constructor
    · rintro ⟨k, hk, hm, rfl⟩
      have hc : cnt (List.replicate k n) n = k := by simp [cnt]
      rw [hc]
      refine ⟨⟨hk, hm⟩, ?_⟩
      exact (restr_eq_self (by intro x hx; simp [(List.mem_replicate.1 hx).2])).symm
    · rintro ⟨⟨hk, hm⟩, hw⟩
      refine ⟨cnt w n, hk, hm, ?_⟩
      have hall : ∀ x ∈ w, x = n := by
        intro x hx; rw [hw] at hx; simpa using restr_subset [n] w x hx
      simp only [cnt]
      exact List.eq_replicate_iff.2 ⟨by rw [List.count_eq_length.2]; intro b hb; exact (hall b hb).symm, hall⟩
  | .seq mi ma ps, hf, hnd, w => by
    simp only [slotted, Bool.and_eq_true, decide_eq_true_eq, beq_iff_eq] at hf
    obtain ⟨⟨hmi, rfl⟩, hfl⟩ := hf
    simp only [Particle.Lang, Rep_one hmi, okS, renderS, Bool.or_eq_true, Bool.and_eq_true, beq_iff_eq]
    have ih := slottedL_iff ps hfl (by simpa [Particle.leaves] using hnd) w
    constructor
    · rintro (⟨rfl, rfl⟩ | h)
      · exact ⟨.inl ⟨rfl, Particle.empL_nil ps⟩, (renderSL_emp _ ps (Particle.empL_nil ps)).symm⟩
      · exact ⟨.inr (ih.1 h).1, (ih.1 h).2⟩
    · rintro ⟨(⟨rfl, he⟩ | hok), hw⟩
      · left; exact ⟨rfl, by rw [hw, renderSL_emp _ ps he]⟩
      · right; exact ih.2 ⟨hok, hw⟩
  | .choice mi ma ps, hf, hnd, w => by
    simp only [slotted] at hf
    obtain ⟨_, _, _, hu⟩ := slot_shape hf
    rw [lang_rootChoice hu]
    simp only [okS, renderS, Bool.and_eq_true, decide_eq_true_eq]
    constructor
    · rintro ⟨hsub, hlo, hhi⟩
      have : restr (Particle.leavesL ps) w = w := restr_eq_self hsub
      rw [this]; exact ⟨⟨hlo, hhi⟩, rfl⟩
    · rintro ⟨⟨hlo, hhi⟩, hw⟩
      rw [← hw] at hlo hhi
      exact ⟨fun x hx => by rw [hw] at hx; exact restr_subset _ w x hx, hlo, hhi⟩
  | .group g mi ma p, hf, hnd, w => by
    simp only [slotted, Bool.and_eq_true, decide_eq_true_eq, beq_iff_eq] at hf
    obtain ⟨⟨hmi, rfl⟩, hfl⟩ := hf
    simp only [Particle.Lang, Rep_one hmi, okS, renderS, Bool.or_eq_true, Bool.and_eq_true, beq_iff_eq]
    have ih := slotted_iff p hfl (by simpa [Particle.leaves] using hnd) w
    constructor
    · rintro (⟨rfl, rfl⟩ | h)
      · exact ⟨.inl ⟨rfl, Particle.emp_nil p⟩, (renderS_emp _ p (Particle.emp_nil p)).symm⟩
      · exact ⟨.inr (ih.1 h).1, (ih.1 h).2⟩
    · rintro ⟨(⟨rfl, he⟩ | hok), hw⟩
      · left; exact ⟨rfl, by rw [hw, renderS_emp _ p he]⟩
      · right; exact ih.2 ⟨hok, hw⟩
theorem slottedL_iff : (ps : List Particle) → slottedL ps = true → (Particle.leavesL ps).Nodup → (w : List Nat) →
    (Particle.LangSeq ps w ↔ okSL w ps = true ∧ w = renderSL w ps)
  | [], _, _, w => by simp [Particle.LangSeq, okSL, renderSL]
  | p :: ps, hf, hnd, w => by
    simp only [slottedL, Bool.and_eq_true] at hf
    simp only [Particle.leavesL, List.nodup_append] at hnd
    obtain ⟨hn1, hn2, hdisj⟩ := hnd
    have hd1 : ∀ n ∈ p.leaves, n ∉ Particle.leavesL ps := fun n hn hn' => hdisj n hn n hn' rfl
    have hd2 : ∀ n ∈ Particle.leavesL ps, n ∉ p.leaves := fun n hn hn' => hdisj n hn' n hn rfl
    simp only [Particle.LangSeq, okSL, renderSL, Bool.and_eq_true]
    constructor
    · rintro ⟨u, v, rfl, hu, hv⟩
      have su := Particle.Lang_subset p u hu
      have sv := Particle.LangSeq_subset ps v hv
      have ru : restr p.leaves (u ++ v) = restr p.leaves u := by
        rw [restr_append, restr_eq_nil (fun x hx hp => hd2 x (sv x hx) hp), List.append_nil]
      have rv : restr (Particle.leavesL ps) (u ++ v) = restr (Particle.leavesL ps) v := by
        rw [restr_append, restr_eq_nil (fun x hx hp => hd1 x (su x hx) hp), List.nil_append]
      have ihu := (slotted_iff p hf.1 hn1 u).1 hu
      have ihv := (slottedL_iff ps hf.2 hn2 v).1 hv
      rw [okS_congr _ _ p ru, okSL_congr _ _ ps rv, renderS_congr _ _ p ru, renderSL_congr _ _ ps rv]
      exact ⟨⟨ihu.1, ihv.1⟩, by rw [← ihu.2, ← ihv.2]⟩
    · rintro ⟨⟨hok1, hok2⟩, hw⟩
      let u := renderS w p
      let v := renderSL w ps
      have su : ∀ x ∈ u, x ∈ p.leaves := renderS_subset _ p
      have sv : ∀ x ∈ v, x ∈ Particle.leavesL ps := renderSL_subset _ ps
      have hwuv : w = u ++ v := hw
      have ru : restr p.leaves w = restr p.leaves u := by
        rw [hwuv, restr_append, restr_eq_nil (fun x hx hp => hd2 x (sv x hx) hp), List.append_nil]
      have rv : restr (Particle.leavesL ps) w = restr (Particle.leavesL ps) v := by
        rw [hwuv, restr_append, restr_eq_nil (fun x hx hp => hd1 x (su x hx) hp), List.nil_append]
      refine ⟨u, v, hwuv, ?_, ?_⟩
      · refine (slotted_iff p hf.1 hn1 u).2 ⟨?_, ?_⟩
        · rw [← okS_congr _ _ p ru]; exact hok1
        · exact renderS_congr _ _ p ru
      · refine (slottedL_iff ps hf.2 hn2 v).2 ⟨?_, ?_⟩
        · rw [← okSL_congr _ _ ps rv]; exact hok2
        · exact renderSL_congr _ _ ps rv
end

end Mslot

namespace Mslot
open Msimple

/-! ### the bound part of the invariant, structurally -/
mutual
def maxOK (w : List Nat) : Particle → Bool
  | .elem n _ ma => leMax (cnt w n) ma
  | .seq _ _ ps => maxOKL w ps
  | .choice _ ma ps => leMax (restr (Particle.leavesL ps) w).length ma
  | .group _ _ _ p => maxOK w p
def maxOKL (w : List Nat) : List Particle → Bool
  | [] => true
  | p :: ps => maxOK w p && maxOKL w ps
end

mutual
theorem maxOK_congr (w w' : List Nat) : (p : Particle) → restr p.leaves w = restr p.leaves w' → maxOK w p = maxOK w' p
  | .elem n _ _, h => by
    have : cnt w n = cnt w' n := cnt_of_restr_eq h (by simp [Particle.leaves])
    simp [maxOK, this]
  | .seq _ _ ps, h => by simpa [maxOK] using maxOKL_congr w w' ps (by simpa [Particle.leaves] using h)
  | .choice _ _ ps, h => by simp only [Particle.leaves] at h; simp [maxOK, h]
  | .group _ _ _ p, h => by simpa [maxOK] using maxOK_congr w w' p (by simpa [Particle.leaves] using h)
theorem maxOKL_congr (w w' : List Nat) : (ps : List Particle) →
    restr (Particle.leavesL ps) w = restr (Particle.leavesL ps) w' → maxOKL w ps = maxOKL w' ps
  | [], _ => rfl
  | p :: ps, h => by
    simp only [maxOKL]
    rw [maxOK_congr w w' p (restr_eq_of_sub (by intro x hx; simp [Particle.leavesL, hx]) h),
        maxOKL_congr w w' ps (restr_eq_of_sub (by intro x hx; simp [Particle.leavesL, hx]) h)]
end

theorem restr_snoc_not_mem {S w : List Nat} {n : Nat} (h : n ∉ S) : restr S (w ++ [n]) = restr S w := by
  have : restr S [n] = [] := restr_eq_nil (by intro x hx; rw [List.mem_singleton] at hx; subst hx; exact h)
  rw [restr_append, this, List.append_nil]

theorem restr_snoc_mem {S w : List Nat} {n : Nat} (h : n ∈ S) : restr S (w ++ [n]) = restr S w ++ [n] := by
  have : restr S [n] = [n] := restr_eq_self (by intro x hx; rw [List.mem_singleton] at hx; subst hx; exact h)
  rw [restr_append, this]

-- where `place` finds the name, it is a leaf of the particle; `absent` means it is not
mutual
theorem place_absent_iff (w : List Nat) (n : Nat) : (p : Particle) → (place w n p = .absent ↔ n ∉ p.leaves)
  | .elem m _ ma => by
    simp only [place, Particle.leaves]
    by_cases h : m = n
    · subst h; simp; split <;> simp
    · have : (m == n) = false := by simpa using h
      simp [this, Ne.symm h]
  | .seq _ _ ps => by simpa [place, Particle.leaves] using placeL_absent_iff w n ps
  | .choice _ ma ps => by
    simp only [place, Particle.leaves]
    by_cases h : n ∈ Particle.leavesL ps
    · simp only [List.contains_iff_mem, h, if_true, not_true_eq_false, iff_false]
      cases ma with
      | none => simp
      | some _ => simp only; split <;> (try split) <;> simp
    · simp [h]
  | .group _ _ _ p => by simpa [place, Particle.leaves] using place_absent_iff w n p
theorem placeL_absent_iff (w : List Nat) (n : Nat) : (ps : List Particle) →
    (placeL w n ps = .absent ↔ n ∉ Particle.leavesL ps)
  | [] => by simp [placeL, Particle.leavesL]
  | p :: ps => by
    simp only [placeL, Particle.leavesL, List.mem_append, not_or]
    have h1 := place_absent_iff w n p
    have h2 := placeL_absent_iff w n ps
    cases hp : place w n p with
    | absent => simp only [hp] at h1; simp [h1.1 trivial, h2]
    | ok => simp only [hp] at h1; simp; intro h; exact absurd (h1.2 h) (by simp)
    | maxOccurs => simp only [hp] at h1; simp; intro h; exact absurd (h1.2 h) (by simp)
    | anotherChosen => simp only [hp] at h1; simp; intro h; exact absurd (h1.2 h) (by simp)
end

-- a successful placement keeps every bound
mutual
theorem place_ok_maxOK (w : List Nat) (n : Nat) : (p : Particle) → slotted p = true → p.leaves.Nodup →
    maxOK w p = true → place w n p = .ok → maxOK (w ++ [n]) p = true
  | .elem m _ ma, _, _, _, h => by
    simp only [place] at h
    split at h
    · rename_i hm
      have hm : m = n := by simpa using hm
      subst hm
      split at h
      · rename_i hle
        simp only [maxOK, cnt, List.count_append, List.count_cons_self, List.count_nil] at hle ⊢
        simpa [cnt] using hle
      · cases h
    · cases h
  | .seq _ _ ps, hs, hnd, hm, h => by
    simp only [slotted, Bool.and_eq_true] at hs
    exact placeL_ok_maxOK w n ps hs.2 (by simpa [Particle.leaves] using hnd) (by simpa [maxOK] using hm)
      (by simpa [place] using h)
  | .choice mi ma ps, hs, _, hm, h => by
    simp only [slotted] at hs
    obtain ⟨_, _, hma, _⟩ := slot_shape hs
    simp only [place] at h
    split at h
    · rename_i hin
      have hin : n ∈ Particle.leavesL ps := by simpa using hin
      simp only [maxOK]
      rcases hma with rfl | rfl
      · simp [leMax]
      · simp only at h
        split at h
        · rename_i he
          rw [restr_snoc_mem hin, he]; simp [leMax]
        · split at h <;> cases h
    · cases h
  | .group _ _ _ p, hs, hnd, hm, h => by
    simp only [slotted, Bool.and_eq_true] at hs
    exact place_ok_maxOK w n p hs.2 (by simpa [Particle.leaves] using hnd) (by simpa [maxOK] using hm)
      (by simpa [place] using h)
theorem placeL_ok_maxOK (w : List Nat) (n : Nat) : (ps : List Particle) → slottedL ps = true →
    (Particle.leavesL ps).Nodup → maxOKL w ps = true → placeL w n ps = .ok → maxOKL (w ++ [n]) ps = true
  | [], _, _, _, h => by simp [placeL] at h
  | p :: ps, hs, hnd, hm, h => by
    simp only [slottedL, Bool.and_eq_true] at hs
    simp only [Particle.leavesL, List.nodup_append] at hnd
    obtain ⟨hn1, hn2, hdisj⟩ := hnd
    simp only [maxOKL, Bool.and_eq_true] at hm ⊢
    simp only [placeL] at h
    cases hp : place w n p with
    | absent =>
      simp only [hp] at h
      have hnp : n ∉ p.leaves := (place_absent_iff w n p).1 hp
      refine ⟨?_, placeL_ok_maxOK w n ps hs.2 hn2 hm.2 h⟩
      rw [maxOK_congr (w ++ [n]) w p (restr_snoc_not_mem hnp)]; exact hm.1
    | ok =>
      have hin : n ∈ p.leaves := by
        apply Classical.byContradiction; intro hc
        rw [(place_absent_iff w n p).2 hc] at hp; cases hp
      have hnps : n ∉ Particle.leavesL ps := fun h' => hdisj n hin n h' rfl
      refine ⟨place_ok_maxOK w n p hs.1 hn1 hm.1 hp, ?_⟩
      rw [maxOKL_congr (w ++ [n]) w ps (restr_snoc_not_mem hnps)]; exact hm.2
    | maxOccurs => simp [hp] at h
    | anotherChosen => simp [hp] at h
end

/-! ### the invariant of reachable states -/
def InvS (p : Particle) (k : Kids) : Prop := (∀ c ∈ k, c.2 ∈ p.leaves) ∧ maxOK (names k) p = true

mutual
theorem maxOK_nil : (p : Particle) → maxOK [] p = true
  | .elem n mi ma => by cases ma <;> simp [maxOK, cnt, leMax]
  | .seq _ _ ps => by simpa [maxOK] using maxOKL_nil ps
  | .choice _ ma ps => by cases ma <;> simp [maxOK, restr, leMax]
  | .group _ _ _ p => by simpa [maxOK] using maxOK_nil p
theorem maxOKL_nil : (ps : List Particle) → maxOKL [] ps = true
  | [] => rfl
  | p :: ps => by simp [maxOKL, maxOK_nil p, maxOKL_nil ps]
end

end Mslot

namespace Mslot
open Msimple

/-! ### monotonicity, permutation invariance -/
theorem restr_sublist {S w w' : List Nat} (h : w'.Sublist w) : (restr S w').Sublist (restr S w) := h.filter _

mutual
theorem maxOK_sublist (w w' : List Nat) (h : w'.Sublist w) : (p : Particle) → maxOK w p = true → maxOK w' p = true
  | .elem n _ ma, hm => by
    simp only [maxOK] at hm ⊢
    exact leMax_mono (h.count_le n) hm
  | .seq _ _ ps, hm => by simpa [maxOK] using maxOKL_sublist w w' h ps (by simpa [maxOK] using hm)
  | .choice _ ma ps, hm => by
    simp only [maxOK] at hm ⊢
    exact leMax_mono (restr_sublist h).length_le hm
  | .group _ _ _ p, hm => by simpa [maxOK] using maxOK_sublist w w' h p (by simpa [maxOK] using hm)
theorem maxOKL_sublist (w w' : List Nat) (h : w'.Sublist w) : (ps : List Particle) → maxOKL w ps = true → maxOKL w' ps = true
  | [], _ => rfl
  | p :: ps, hm => by
    simp only [maxOKL, Bool.and_eq_true] at hm ⊢
    exact ⟨maxOK_sublist w w' h p hm.1, maxOKL_sublist w w' h ps hm.2⟩
end

theorem restr_perm {S w w' : List Nat} (h : w'.Perm w) : (restr S w').length = (restr S w).length :=
  (h.filter _).length_eq

mutual
theorem maxOK_perm (w w' : List Nat) (h : w'.Perm w) : (p : Particle) → maxOK w' p = maxOK w p
  | .elem n _ _ => by simp [maxOK, cnt, h.count_eq n]
  | .seq _ _ ps => by simpa [maxOK] using maxOKL_perm w w' h ps
  | .choice _ _ ps => by simp [maxOK, restr_perm h]
  | .group _ _ _ p => by simpa [maxOK] using maxOK_perm w w' h p
theorem maxOKL_perm (w w' : List Nat) (h : w'.Perm w) : (ps : List Particle) → maxOKL w' ps = maxOKL w ps
  | [] => rfl
  | p :: ps => by simp [maxOKL, maxOK_perm w w' h p, maxOKL_perm w w' h ps]
end

theorem cnt_perm {w w' : List Nat} (h : w'.Perm w) : cnt w' = cnt w := by funext n; exact h.count_eq n

mutual
theorem okS_perm (w w' : List Nat) (h : w'.Perm w) : (p : Particle) → okS w' p = okS w p
  | .elem n _ _ => by simp [okS, cnt_perm h]
  | .seq _ _ ps => by simp [okS, cnt_perm h, okSL_perm w w' h ps]
  | .choice _ _ ps => by simp [okS, restr_perm h]
  | .group _ _ _ p => by simp [okS, cnt_perm h, okS_perm w w' h p]
theorem okSL_perm (w w' : List Nat) (h : w'.Perm w) : (ps : List Particle) → okSL w' ps = okSL w ps
  | [] => rfl
  | p :: ps => by simp [okSL, okS_perm w w' h p, okSL_perm w w' h ps]
end

/-! ### okS = (nothing missing) ∧ (nothing over-full) -/
mutual
theorem emp_of_zero (c : Nat → Nat) : (p : Particle) → (∀ n ∈ p.leaves, c n = 0) → p.emp c = true
  | .elem n _ _, h => by simpa [Particle.emp] using h n (by simp [Particle.leaves])
  | .seq _ _ ps, h => by simpa [Particle.emp] using empL_of_zero c ps (by simpa [Particle.leaves] using h)
  | .choice _ _ ps, h => by simpa [Particle.emp] using empL_of_zero c ps (by simpa [Particle.leaves] using h)
  | .group _ _ _ p, h => by simpa [Particle.emp] using emp_of_zero c p (by simpa [Particle.leaves] using h)
theorem empL_of_zero (c : Nat → Nat) : (ps : List Particle) → (∀ n ∈ Particle.leavesL ps, c n = 0) → Particle.empL c ps = true
  | [], _ => rfl
  | p :: ps, h => by
    simp only [Particle.empL, Bool.and_eq_true]
    exact ⟨emp_of_zero c p (fun n hn => h n (by simp [Particle.leavesL, hn])),
           empL_of_zero c ps (fun n hn => h n (by simp [Particle.leavesL, hn]))⟩
end

theorem empL_iff_restr_nil (w : List Nat) (ps : List Particle) :
    Particle.empL (cnt w) ps = true ↔ restr (Particle.leavesL ps) w = [] := by
  constructor
  · intro h; exact restr_nil_of_cnt_zero (empL_zero _ ps h)
  · intro h
    apply empL_of_zero
    intro n hn
    rw [← cnt_restr hn, h]; simp [cnt]

theorem unit_leaves_ne_nil {ps : List Particle} (hne : ps ≠ []) (hu : ps.all isUnitLeaf = true) :
    Particle.leavesL ps ≠ [] := by
  cases ps with
  | nil => exact absurd rfl hne
  | cons q qs =>
    simp only [List.all_cons, Bool.and_eq_true] at hu
    cases q with
    | elem n _ _ => simp [Particle.leavesL, Particle.leaves]
    | _ => simp [isUnitLeaf] at hu

mutual
theorem okS_iff_missing (w : List Nat) : (p : Particle) → slotted p = true → maxOK w p = true →
    (okS w p = true ↔ missing (cnt w) p = [])
  | .elem n mi ma, _, hm => by
    simp only [maxOK] at hm
    simp only [okS, missing, Bool.and_eq_true, decide_eq_true_eq, hm, and_true]
    constructor
    · intro h; simp [Nat.not_lt.2 h]
    · intro h
      split at h
      · cases h
      · rename_i hlt; exact Nat.le_of_not_lt hlt
  | .seq mi ma ps, hs, hm => by
    simp only [slotted, Bool.and_eq_true] at hs
    simp only [okS, missing, Bool.or_eq_true]
    have ih := okSL_iff_missingL w ps hs.2 (by simpa [maxOK] using hm)
    by_cases hc : (mi == 0 && Particle.empL (cnt w) ps) = true
    · simp [hc]
    · simp only [hc, false_or, Bool.false_eq_true, if_false]; exact ih
  | .choice mi ma ps, hs, hm => by
    simp only [slotted] at hs
    obtain ⟨hmi, hne, _, hu⟩ := slot_shape hs
    simp only [maxOK] at hm
    simp only [okS, missing, Bool.and_eq_true, decide_eq_true_eq, hm, and_true]
    have hl := unit_leaves_ne_nil hne hu
    have he := empL_iff_restr_nil w ps
    constructor
    · intro h
      split
      · rename_i hc
        have hc1 : mi ≥ 1 := hc.1
        have hc2 : Particle.empL (cnt w) ps = true := hc.2
        have := he.1 hc2
        rw [this] at h; simp at h; omega
      · rfl
    · intro h
      split at h
      · exact absurd h hl
      · rename_i hc0
        have hc : mi ≥ 1 → ¬ Particle.empL (cnt w) ps = true := by
          intro h1 h2; exact hc0 (by simp [h1, h2])
        by_cases h1 : mi ≥ 1
        · have hne' : restr (Particle.leavesL ps) w ≠ [] := fun e => hc h1 (he.2 e)
          have : 0 < (restr (Particle.leavesL ps) w).length := List.length_pos_iff.2 hne'
          omega
        · omega
  | .group _ mi ma p, hs, hm => by
    simp only [slotted, Bool.and_eq_true] at hs
    simp only [okS, missing, Bool.or_eq_true]
    have ih := okS_iff_missing w p hs.2 (by simpa [maxOK] using hm)
    by_cases hc : (mi == 0 && p.emp (cnt w)) = true
    · simp [hc]
    · simp only [hc, false_or, Bool.false_eq_true, if_false]; exact ih
theorem okSL_iff_missingL (w : List Nat) : (ps : List Particle) → slottedL ps = true → maxOKL w ps = true →
    (okSL w ps = true ↔ missingL (cnt w) ps = [])
  | [], _, _ => by simp [okSL, missingL]
  | p :: ps, hs, hm => by
    simp only [slottedL, Bool.and_eq_true] at hs
    simp only [maxOKL, Bool.and_eq_true] at hm
    simp only [okSL, missingL, Bool.and_eq_true, List.append_eq_nil_iff,
      okS_iff_missing w p hs.1 hm.1, okSL_iff_missingL w ps hs.2 hm.2]
end

-- okS implies the bounds
mutual
theorem maxOK_of_emp (w : List Nat) : (p : Particle) → p.emp (cnt w) = true → maxOK w p = true
  | .elem n _ ma, h => by
    simp only [Particle.emp, beq_iff_eq] at h
    simp only [maxOK, h]; cases ma <;> simp [leMax]
  | .seq _ _ ps, h => by simpa [maxOK] using maxOKL_of_emp w ps (by simpa [Particle.emp] using h)
  | .choice _ ma ps, h => by
    have := (empL_iff_restr_nil w ps).1 (by simpa [Particle.emp] using h)
    simp only [maxOK, this]; cases ma <;> simp [leMax]
  | .group _ _ _ p, h => by simpa [maxOK] using maxOK_of_emp w p (by simpa [Particle.emp] using h)
theorem maxOKL_of_emp (w : List Nat) : (ps : List Particle) → Particle.empL (cnt w) ps = true → maxOKL w ps = true
  | [], _ => rfl
  | p :: ps, h => by
    simp only [Particle.empL, Bool.and_eq_true] at h
    simp [maxOKL, maxOK_of_emp w p h.1, maxOKL_of_emp w ps h.2]
end

mutual
theorem maxOK_of_okS (w : List Nat) : (p : Particle) → okS w p = true → maxOK w p = true
  | .elem n _ _, h => by simp only [okS, Bool.and_eq_true] at h; simpa [maxOK] using h.2
  | .seq mi _ ps, h => by
    simp only [okS, Bool.or_eq_true, Bool.and_eq_true] at h
    rcases h with h | h
    · simpa [maxOK] using maxOKL_of_emp w ps h.2
    · simpa [maxOK] using maxOKL_of_okSL w ps h
  | .choice _ _ ps, h => by simp only [okS, Bool.and_eq_true] at h; simpa [maxOK] using h.2
  | .group _ mi _ p, h => by
    simp only [okS, Bool.or_eq_true, Bool.and_eq_true] at h
    rcases h with h | h
    · simpa [maxOK] using maxOK_of_emp w p h.2
    · simpa [maxOK] using maxOK_of_okS w p h
theorem maxOKL_of_okSL (w : List Nat) : (ps : List Particle) → okSL w ps = true → maxOKL w ps = true
  | [], _ => rfl
  | p :: ps, h => by
    simp only [okSL, Bool.and_eq_true] at h
    simp [maxOKL, maxOK_of_okS w p h.1, maxOKL_of_okSL w ps h.2]
end

/-! ### what passes the check serialises a word of the language -/
theorem restr_single (n : Nat) (w : List Nat) : restr [n] w = List.replicate (cnt w n) n := by
  have hall : ∀ x ∈ restr [n] w, x = n := by intro x hx; simpa using restr_subset [n] w x hx
  have hlen : (restr [n] w).length = cnt w n := by
    simp only [restr, cnt, List.count]
    rw [← List.countP_eq_length_filter]
    congr 1
    funext x
    by_cases hx : x = n
    · subst hx; simp
    · simp [hx, Ne.symm hx]
  exact List.eq_replicate_iff.2 ⟨hlen, hall⟩

mutual
theorem lang_renderS (w : List Nat) : (p : Particle) → slotted p = true → okS w p = true → p.Lang (renderS w p)
  | .elem n mi ma, _, h => by
    simp only [okS, Bool.and_eq_true, decide_eq_true_eq] at h
    simp only [Particle.Lang, Rep_elem, renderS]
    exact ⟨cnt w n, h.1, h.2, restr_single n w⟩
  | .seq mi ma ps, hs, h => by
    simp only [slotted, Bool.and_eq_true, decide_eq_true_eq, beq_iff_eq] at hs
    obtain ⟨⟨hmi, rfl⟩, hsl⟩ := hs
    simp only [okS, Bool.or_eq_true, Bool.and_eq_true, beq_iff_eq] at h
    simp only [Particle.Lang, Rep_one hmi, renderS]
    rcases h with ⟨rfl, he⟩ | h
    · left; exact ⟨rfl, renderSL_emp w ps he⟩
    · right; exact langSeq_renderSL w ps hsl h
  | .choice mi ma ps, hs, h => by
    simp only [slotted] at hs
    obtain ⟨_, _, _, hu⟩ := slot_shape hs
    simp only [okS, Bool.and_eq_true, decide_eq_true_eq] at h
    rw [lang_rootChoice hu]
    exact ⟨fun x hx => restr_subset _ w x hx, h.1, h.2⟩
  | .group g mi ma p, hs, h => by
    simp only [slotted, Bool.and_eq_true, decide_eq_true_eq, beq_iff_eq] at hs
    obtain ⟨⟨hmi, rfl⟩, hsl⟩ := hs
    simp only [okS, Bool.or_eq_true, Bool.and_eq_true, beq_iff_eq] at h
    simp only [Particle.Lang, Rep_one hmi, renderS]
    rcases h with ⟨rfl, he⟩ | h
    · left; exact ⟨rfl, renderS_emp w p he⟩
    · right; exact lang_renderS w p hsl h
theorem langSeq_renderSL (w : List Nat) : (ps : List Particle) → slottedL ps = true → okSL w ps = true →
    Particle.LangSeq ps (renderSL w ps)
  | [], _, _ => by simp [Particle.LangSeq, renderSL]
  | p :: ps, hs, h => by
    simp only [slottedL, Bool.and_eq_true] at hs
    simp only [okSL, Bool.and_eq_true] at h
    simp only [Particle.LangSeq, renderSL]
    exact ⟨_, _, rfl, lang_renderS w p hs.1 h.1, langSeq_renderSL w ps hs.2 h.2⟩
end

/-! ### the ordered view renders the names -/
theorem names_inBlock (b : Block) (k : Kids) : names (inBlock b k) = restr b.names (names k) := by
  simp only [names, inBlock, restr, List.filter_map]
  rfl

mutual
theorem renderS_blocks (w : List Nat) : (p : Particle) → renderS w p = (blocks p).flatMap (fun b => restr b.names w)
  | .elem n _ _ => by simp [renderS, blocks]
  | .seq _ _ ps => by simpa [renderS, blocks] using renderSL_blocks w ps
  | .choice _ _ ps => by simp [renderS, blocks]
  | .group _ _ _ p => by simpa [renderS, blocks] using renderS_blocks w p
theorem renderSL_blocks (w : List Nat) : (ps : List Particle) →
    renderSL w ps = (blocksL ps).flatMap (fun b => restr b.names w)
  | [] => by simp [renderSL, blocksL]
  | p :: ps => by simp [renderSL, blocksL, renderS_blocks w p, renderSL_blocks w ps]
end

theorem names_ordered (p : Particle) (k : Kids) : names (ordered p k) = renderS (names k) p := by
  rw [renderS_blocks]
  simp only [ordered]
  generalize blocks p = bs
  induction bs with
  | nil => simp [names]
  | cons b r ih => simp [List.flatMap_cons, names_append, names_inBlock, ih]

end Mslot

namespace Mslot
open Msimple

/-! ### placement succeeds whenever the enlarged word respects the bounds -/
mutual
theorem place_ok_of_maxOK (w : List Nat) (n : Nat) : (p : Particle) → slotted p = true → p.leaves.Nodup →
    n ∈ p.leaves → maxOK (w ++ [n]) p = true → place w n p = .ok
  | .elem m _ ma, _, _, hn, hm => by
    simp only [Particle.leaves, List.mem_singleton] at hn
    subst hn
    simp only [maxOK, cnt, List.count_append, List.count_cons_self, List.count_nil] at hm
    simp [place, cnt, hm]
  | .seq _ _ ps, hs, hnd, hn, hm => by
    simp only [slotted, Bool.and_eq_true] at hs
    simpa [place] using placeL_ok_of_maxOK w n ps hs.2 (by simpa [Particle.leaves] using hnd)
      (by simpa [Particle.leaves] using hn) (by simpa [maxOK] using hm)
  | .choice mi ma ps, hs, _, hn, hm => by
    simp only [slotted] at hs
    obtain ⟨_, _, hma, _⟩ := slot_shape hs
    simp only [Particle.leaves] at hn
    simp only [place, List.contains_iff_mem, hn, if_true]
    rcases hma with rfl | rfl
    · rfl
    · simp only [maxOK, restr_snoc_mem hn, List.length_append, List.length_cons, List.length_nil, leMax,
        decide_eq_true_eq] at hm
      have : restr (Particle.leavesL ps) w = [] := List.length_eq_zero_iff.1 (by omega)
      simp [this]
  | .group _ _ _ p, hs, hnd, hn, hm => by
    simp only [slotted, Bool.and_eq_true] at hs
    simpa [place] using place_ok_of_maxOK w n p hs.2 (by simpa [Particle.leaves] using hnd)
      (by simpa [Particle.leaves] using hn) (by simpa [maxOK] using hm)
theorem placeL_ok_of_maxOK (w : List Nat) (n : Nat) : (ps : List Particle) → slottedL ps = true →
    (Particle.leavesL ps).Nodup → n ∈ Particle.leavesL ps → maxOKL (w ++ [n]) ps = true → placeL w n ps = .ok
  | [], _, _, hn, _ => by simp [Particle.leavesL] at hn
  | p :: ps, hs, hnd, hn, hm => by
    simp only [slottedL, Bool.and_eq_true] at hs
    simp only [Particle.leavesL, List.nodup_append] at hnd
    obtain ⟨hn1, hn2, hdisj⟩ := hnd
    simp only [maxOKL, Bool.and_eq_true] at hm
    simp only [Particle.leavesL, List.mem_append] at hn
    simp only [placeL]
    rcases hn with hn | hn
    · rw [place_ok_of_maxOK w n p hs.1 hn1 hn hm.1]
    · have hnp : n ∉ p.leaves := fun h => hdisj n h n hn rfl
      rw [(place_absent_iff w n p).2 hnp]
      exact placeL_ok_of_maxOK w n ps hs.2 hn2 hn hm.2
end

/-! ### histories -/
def stepS (p : Particle) (k : Kids) : Op → Except Err Kids
  | .add c n f => Mslot.add p k c n f
  | .rm c => remove k c
  | .repl o nw n => replace k o nw n

def applyS (p : Particle) (k : Kids) (op : Op) : Kids :=
  match stepS p k op with
  | .ok k' => k'
  | .error _ => k

def runS (p : Particle) (ops : List Op) : Kids := ops.foldl (applyS p) []

def runES (p : Particle) : Kids → List Op → Except Err Kids
  | k, [] => .ok k
  | k, op :: r => match stepS p k op with
    | .ok k' => runES p k' r
    | .error e => .error e

theorem invS_nil (p : Particle) : InvS p [] := ⟨by simp, by simpa [names] using maxOK_nil p⟩

theorem add_ok_iff {p : Particle} {k k' : Kids} {c n : Nat} {f : Option Int} (h : Mslot.add p k c n f = .ok k') :
    place (names k) n p = .ok ∧ k' = k ++ [(c, n)] := by
  unfold Mslot.add at h
  split at h
  · cases h
  · unfold addPlain at h
    split at h
    · cases h
    · rename_i hp; cases h; exact ⟨hp, rfl⟩
    · cases h
    · cases h

theorem invS_add {p : Particle} (hs : isSlotted p = true) {k k' : Kids} {c n : Nat} {f : Option Int}
    (hi : InvS p k) (h : Mslot.add p k c n f = .ok k') : InvS p k' := by
  obtain ⟨hp, rfl⟩ := add_ok_iff h
  simp only [isSlotted, Bool.and_eq_true] at hs
  have hnd := nodupNat_iff.1 hs.2
  have hn : n ∈ p.leaves := by
    apply Classical.byContradiction; intro hc
    rw [(place_absent_iff (names k) n p).2 hc] at hp; cases hp
  refine ⟨?_, ?_⟩
  · intro x hx
    rcases List.mem_append.1 hx with hx | hx
    · exact hi.1 x hx
    · simp at hx; subst hx; exact hn
  · rw [names_append]
    simpa [names] using place_ok_maxOK (names k) n p hs.1 hnd hi.2 hp

theorem invS_remove {p : Particle} {k k' : Kids} {c : Nat} (hi : InvS p k) (h : remove k c = .ok k') : InvS p k' := by
  unfold remove at h
  split at h
  · cases h
    refine ⟨fun x hx => hi.1 x (List.mem_filter.1 hx).1, ?_⟩
    exact maxOK_sublist (names k) _ (List.filter_sublist.map _) p hi.2
  · cases h

theorem invS_replace {p : Particle} {k k' : Kids} {o nw n : Nat} (hi : InvS p k) (h : replace k o nw n = .ok k') :
    InvS p k' := by
  unfold replace at h
  split at h
  · cases h
  · rename_i c m hfind
    split at h
    · rename_i hmn
      cases h
      have hmn : m = n := by simpa using hmn
      subst hmn
      have hn := names_replFirst k o nw m c hfind
      refine ⟨?_, by rw [hn]; exact hi.2⟩
      intro x hx
      have : x.2 ∈ names (replFirst o (nw, m) k) := List.mem_map_of_mem (f := (·.2)) hx
      rw [hn] at this
      obtain ⟨d, hd, hdc⟩ := List.mem_map.1 this
      rw [← hdc]; exact hi.1 d hd
    · cases h

theorem invS_apply {p : Particle} (hs : isSlotted p = true) {k : Kids} (op : Op) (hi : InvS p k) :
    InvS p (applyS p k op) := by
  unfold applyS
  split
  · rename_i k' h
    cases op with
    | add c n f => exact invS_add hs hi h
    | rm c => exact invS_remove hi h
    | repl o nw n => exact invS_replace hi h
  · exact hi

theorem invS_run (p : Particle) (hs : isSlotted p = true) (ops : List Op) : InvS p (runS p ops) := by
  unfold runS
  have : ∀ k, InvS p k → InvS p (ops.foldl (applyS p) k) := by
    induction ops with
    | nil => intro k hk; exact hk
    | cons op r ih => intro k hk; exact ih _ (invS_apply hs op hk)
  exact this [] (invS_nil p)

/-- re-adding any admissible list of children, in any order, is accepted step by step -/
theorem runES_addsK (p : Particle) (hs : isSlotted p = true) (acc k : Kids)
    (hsub : ∀ c ∈ k, c.2 ∈ p.leaves) (hmax : maxOK (names (acc ++ k)) p = true) :
    runES p acc (addOpsK k) = .ok (acc ++ k) := by
  have hs' := hs
  simp only [isSlotted, Bool.and_eq_true] at hs'
  have hnd := nodupNat_iff.1 hs'.2
  induction k generalizing acc with
  | nil => simp [runES, addOpsK]
  | cons c k ih =>
    have hpre : maxOK (names acc ++ [c.2]) p = true := by
      apply maxOK_sublist (names (acc ++ c :: k)) _ _ p hmax
      simp only [names, List.map_append, List.map_cons]
      exact List.Sublist.append_left (List.Sublist.cons_cons _ (List.nil_sublist _)) _
    have hpl := place_ok_of_maxOK (names acc) c.2 p hs'.1 hnd (hsub c (by simp)) hpre
    have hstep : stepS p acc (.add c.1 c.2 none) = .ok (acc ++ [c]) := by
      simp [stepS, Mslot.add, fwdCheck, addPlain, hpl]
    simp only [addOpsK, List.map_cons, runES, hstep]
    have := ih (acc ++ [c]) (fun x hx => hsub x (by simp [hx])) (by simpa using hmax)
    simpa [addOpsK] using this

theorem addOps_eq (i : Nat) (w : List Nat) : addOps i w = addOpsK (zipIds i w) := by
  induction w generalizing i with
  | nil => rfl
  | cons n w ih => simp [addOps, zipIds, addOpsK, ih (i + 1)]

end Mslot
