import MxV.Model.Msimple
/-! # Mslot — the matcher on `Slotted` templates (a superset of `Tame`)

`Slotted`: a skeleton of sequences / groups (`minOccurs ≤ 1`, `maxOccurs = 1`) whose positions are
element leaves or *choice slots* — `choice min..max` of unit leaves (`1..1`), `min ≤ 1`,
`max ∈ {1, unbounded}` — with pairwise distinct leaf names. `Flat` templates have no slot, a
`RootChoice` template is a single slot; the class additionally covers measure, notations,
listening, name-display, notehead-text, play, bend, harmonic, instrument-change,
score-instrument (78 of the 94 content models).

Observable behaviour (tied to the code by the correspondence run): the state is the insertion-
ordered list of live children; the schema-ordered view lists the blocks in document order, an
element leaf's children and a slot's children each in insertion order; an unbounded slot accepts
any of its names, a `max = 1` slot commits to its first child. -/
namespace Mslot
open Msimple

def isSlot : Particle → Bool
  | .choice mi ma ps => decide (mi ≤ 1) && !ps.isEmpty && (ma == none || ma == some 1) && ps.all isUnitLeaf
  | _ => false

mutual
def slotted : Particle → Bool
  | .elem _ _ _ => true
  | .seq mi ma ps => decide (mi ≤ 1) && (ma == some 1) && slottedL ps
  | .choice mi ma ps => isSlot (.choice mi ma ps)
  | .group _ mi ma p => decide (mi ≤ 1) && (ma == some 1) && slotted p
def slottedL : List Particle → Bool
  | [] => true
  | p :: ps => slotted p && slottedL ps
end

def isSlotted (p : Particle) : Bool := slotted p && nodupNat p.leaves

/-- a position of the skeleton: the names it takes, its occurrence bounds, whether it is a slot -/
structure Block where
  names : List Nat
  min : Nat
  max : Option Nat
  slot : Bool
  deriving Repr

mutual
def blocks : Particle → List Block
  | .elem n mi ma => [⟨[n], mi, ma, false⟩]
  | .seq _ _ ps => blocksL ps
  | .choice mi ma ps => [⟨Particle.leavesL ps, mi, ma, true⟩]
  | .group _ _ _ p => blocks p
def blocksL : List Particle → List Block
  | [] => []
  | p :: ps => blocks p ++ blocksL ps
end

def inBlock (b : Block) (k : Kids) : Kids := k.filter fun c => b.names.contains c.2

/-- restriction of a word to a set of names -/
def restr (S : List Nat) (w : List Nat) : List Nat := w.filter fun x => S.contains x

/-- where a child named `n` would go, given the names `w` of the present children -/
inductive Where | absent | ok | maxOccurs | anotherChosen
  deriving DecidableEq, Repr

mutual
def place (w : List Nat) (n : Nat) : Particle → Where
  | .elem m _ ma => if m == n then (if leMax (cnt w n + 1) ma then .ok else .maxOccurs) else .absent
  | .seq _ _ ps => placeL w n ps
  | .choice _ ma ps =>
    if (Particle.leavesL ps).contains n then
      match ma with
      | none => .ok
      | some _ =>
        match restr (Particle.leavesL ps) w with
        | [] => .ok
        | m :: _ => if m == n then .maxOccurs else .anotherChosen
    else .absent
  | .group _ _ _ p => place w n p
def placeL (w : List Nat) (n : Nat) : List Particle → Where
  | [] => .absent
  | p :: ps => match place w n p with
    | .absent => placeL w n ps
    | r => r
end

/-- add_child without an explicit forward index -/
def addPlain (p : Particle) (k : Kids) (cid n : Nat) : Except Err Kids :=
  match place (names k) n p with
  | .absent => .error .wrongElement
  | .ok => .ok (k ++ [(cid, n)])
  | .maxOccurs => .error .maxOccurs
  | .anotherChosen => .error .anotherChosen

/-- the rejections specific to an explicit `forward` index (none: the index is usable) -/
def fwdCheck (p : Particle) (k : Kids) (n : Nat) (fwd : Option Int) : Option Err :=
  match fwd, ((blocks p).find? fun b => b.names.contains n) with
  | none, _ => none
  | some _, none => none          -- unknown name: reported by addPlain as wrongElement
  | some f, some b =>
    let here := inBlock b k
    if !b.slot then (if fwdOk (some f) then none else some .anotherChosen)
    else match here with
      | _ :: _ => some (fwdErrChoice b.max here n f)
      | [] => if fwdOk (some f) then none else some .anotherChosen

/-- schema-ordered view -/
def ordered (p : Particle) (k : Kids) : Kids := (blocks p).flatMap fun b => inBlock b k

def findBlock (p : Particle) (n : Nat) : Option Block := (blocks p).find? fun b => b.names.contains n

/-- add_child -/
def add (p : Particle) (k : Kids) (cid n : Nat) (fwd : Option Int := none) : Except Err Kids :=
  match fwdCheck p k n fwd with
  | some e => .error e
  | none => addPlain p k cid n

-- names the final check reports: under-filled element leaves and empty required slots of every
-- scope that is required or non-empty
mutual
def missing (c : Nat → Nat) : Particle → List Nat
  | .elem n mi _ => if c n < mi then [n] else []
  | .seq mi _ ps => if mi == 0 && Particle.empL c ps then [] else missingL c ps
  | .choice mi _ ps => if decide (mi ≥ 1) && Particle.empL c ps then Particle.leavesL ps else []
  | .group _ mi _ p => if mi == 0 && p.emp c then [] else missing c p
def missingL (c : Nat → Nat) : List Particle → List Nat
  | [] => []
  | p :: ps => missing c p ++ missingL c ps
end

def required (p : Particle) (k : Kids) : List Nat := missing (cnt (names k)) p

end Mslot
