import MxV.Core.Particle
/-! # Mfull — line-by-line executable port of `XMLChildContainer` and of the child-handling half
of `XMLElement` (musicxml/xmlelement/xmlchildcontainer.py, xmlelement.py:249-372), including
`verysimpletree`'s three iterator caches (`_traversed`, `_iterated_leaves`,
`_reversed_path_to_root`) with their exact reset discipline, because stale caches are observable.

Python object identity ↦ index into one arena; discarded intelligent-choice copies stay in the
arena (children's `parent_xsd_element` may keep pointing into them — that is how zombies arise).
Exceptions do not roll back state: the monad is `ExceptT Err (StateM Arena)`.

This model is used for the correspondence check only (all 94 content models, all operations);
every recursive function carries a fuel argument (structural recursion, total, kernel-evaluable): the
negative witnesses of `Tables/D_witnesses.lean` are evaluated on it by the kernel. -/

namespace Mfull

inductive Kind | elem | seq | choice | group | dupseq
  deriving DecidableEq, Repr, Inhabited

inductive Err
  | wrongElement | maxOccurs | anotherChosen | notAChild | cannotHaveChildren
  | internal (n : String)
  deriving DecidableEq, Repr, Inhabited

def Err.str : Err → String
  | .wrongElement => "wrongElement" | .maxOccurs => "maxOccurs" | .anotherChosen => "anotherChosen"
  | .notAChild => "notAChild" | .cannotHaveChildren => "cannotHaveChildren"
  | .internal n => "internal:" ++ n

structure Node where
  kind : Kind
  name : Nat := 0
  min : Nat := 1
  max : Option Nat := some 1
  parent : Option Nat := none
  children : List Nat := []
  chosen : Option Nat := none
  force : Option Bool := none
  reqf : Option Bool := none
  elems : List Nat := []
  cTrav : Option (List Nat) := none
  cLeaves : Option (List Nat) := none
  cPath : Option (List Nat) := none
  tmpl : Particle := .seq 1 (some 1) []
  pxml : Bool := false          -- _parent_xml_element is set (only on the instance's first root)
  deriving Inhabited

structure Child where
  name : Nat
  pxe : Option Nat := none      -- parent_xsd_element (leaf node id)
  par : Bool := false           -- child._parent is the element
  deriving Inhabited

structure Arena where
  nodes : Array Node := #[]
  kids : List (Nat × Child) := []    -- association list (kernel-evaluable; a handful of children per element)
  root : Nat := 0
  unordered : List Nat := []
  deriving Inhabited

abbrev M := ExceptT Err (StateM Arena)

/-- recursion budget of the (structurally recursive) traversals; never reached on real content models -/
def FUEL : Nat := 100000

def getN (i : Nat) : M Node := do return (← get).nodes[i]!
def modN (i : Nat) (f : Node → Node) : M Unit :=
  modify fun a => { a with nodes := a.nodes.modify i f }
def alloc (n : Node) : M Nat := do
  let a ← get
  set { a with nodes := a.nodes.push n }
  return a.nodes.size
def kget (l : List (Nat × Child)) (c : Nat) : Child :=
  match l with
  | [] => { name := 0 }
  | (k, v) :: r => if k == c then v else kget r c
def kset (l : List (Nat × Child)) (c : Nat) (v : Child) : List (Nat × Child) :=
  match l with
  | [] => [(c, v)]
  | (k, w) :: r => if k == c then (k, v) :: r else (k, w) :: kset r c v
def getK (c : Nat) : M Child := do return kget (← get).kids c
def modK (c : Nat) (f : Child → Child) : M Unit :=
  modify fun a => { a with kids := kset a.kids c (f (kget a.kids c)) }

def truthy : Option Bool → Bool
  | some true => true
  | _ => false

def isSeq (k : Kind) : Bool := k == .seq || k == .dupseq

/-! ### verysimpletree.Tree -/
def resetIter (fuel : Nat) (i : Nat) : M Unit :=
  match fuel with
  | 0 => throw (.internal "fuel")
  | fuel + 1 => do
    let n ← getN i
    match n.parent with
    | some p => resetIter fuel p
    | none => pure ()
    modN i fun n => { n with cTrav := none, cLeaves := none, cPath := none }

def treeAddChild (p c : Nat) : M Unit := do
  modN c fun n => { n with parent := some p }
  modN p fun n => { n with children := n.children ++ [c] }
  resetIter FUEL p

def treeRemove (p c : Nat) : M Unit := do
  let pn ← getN p
  if !pn.children.contains c then throw (.internal "ChildNotFoundError")
  modN c fun n => { n with parent := none }
  modN p fun n => { n with children := n.children.erase c }
  resetIter FUEL p

def treeReplace (p old new : Nat) : M Unit := do
  let pn ← getN p
  if !pn.children.contains old then throw (.internal "ValueError")
  modN p fun n => { n with children := n.children.map (fun x => if x == old then new else x) }
  modN old fun n => { n with parent := none }
  resetIter FUEL p
  modN new fun n => { n with parent := some p }

def rawTraverse (fuel : Nat) (a : Arena) (i : Nat) : List Nat :=
  match fuel with
  | 0 => [i]
  | fuel + 1 =>
    i :: (a.nodes[i]!.children.flatMap (rawTraverse fuel a))

def traverse (i : Nat) : M (List Nat) := do
  let n ← getN i
  match n.cTrav with
  | some l => return l
  | none =>
    let l := rawTraverse FUEL (← get) i
    modN i fun n => { n with cTrav := some l }
    return l

def iterLeaves (i : Nat) : M (List Nat) := do
  let n ← getN i
  match n.cLeaves with
  | some l => return l
  | none =>
    let t ← traverse i
    let a ← get
    let l := t.filter (fun j => a.nodes[j]!.kind == .elem)
    modN i fun n => { n with cLeaves := some l }
    return l

def pathToRoot (fuel : Nat) (i : Nat) : M (List Nat) :=
  match fuel with
  | 0 => throw (.internal "fuel")
  | fuel + 1 => do
    let n ← getN i
    match n.cPath with
    | some l => return l
    | none =>
      let rest ← match n.parent with
        | some p => pathToRoot fuel p
        | none => pure []
      let l := i :: rest
      modN i fun n => { n with cPath := some l }
      return l

def choicesInPath (i : Nat) : M (List Nat) := do
  let p ← pathToRoot FUEL i
  let a ← get
  return (p.drop 1).filter (fun j => a.nodes[j]!.kind == .choice)

/-! ### building container trees from particles -/
def build (fuel : Nat) (p : Particle) : M Nat :=
  match fuel with
  | 0 => throw (.internal "fuel")
  | fuel + 1 => do
    match p with
    | .elem n mi ma => alloc { kind := .elem, name := n, min := mi, max := ma, tmpl := p }
    | .seq mi ma ps =>
      let i ← alloc { kind := .seq, min := mi, max := ma, tmpl := p }
      for q in ps do
        let c ← build fuel q
        treeAddChild i c
      return i
    | .choice mi ma ps =>
      let i ← alloc { kind := .choice, min := mi, max := ma, tmpl := p }
      for q in ps do
        let c ← build fuel q
        treeAddChild i c
      return i
    | .group g mi ma q =>
      let i ← alloc { kind := .group, name := g, min := mi, max := ma, tmpl := p }
      let c ← build fuel q
      treeAddChild i c
      return i

/-- `__copy__` of the process-wide template: same shape, fresh flags and caches.
    (`add_child` during the copy resets caches, which are all `None` anyway.) -/
def newInstance (p : Particle) : Arena :=
  let (r, a) := (build FUEL p).run.run {}
  match r with
  | .ok i => { a with root := i, nodes := a.nodes.modify i fun n => { n with pxml := true } }
  | .error _ => a

/-! ### requirement checks (xmlchildcontainer.py:40-116) -/
def maxIsReached (i : Nat) : M Bool := do
  let n ← getN i
  if n.kind != .elem then throw (.internal "TypeError")
  match n.max with
  | none => return false
  | some m =>
    if n.elems.length == m then return true
    else if n.elems.length > m then throw (.internal "ValueError")
    else return false

mutual
def checkContainer (fuel : Nat) (i : Nat) : M Unit :=
  match fuel with
  | 0 => throw (.internal "fuel")
  | fuel + 1 => do
    let n ← getN i
    match n.kind with
    | .seq | .dupseq => checkSeq fuel i
    | .group => checkGroup fuel i
    | .choice => checkChoice fuel i
    | .elem => throw (.internal "NotImplementedError")

def checkChoice (fuel : Nat) (i : Nat) : M Unit :=
  match fuel with
  | 0 => throw (.internal "fuel")
  | fuel + 1 => do
    let n ← getN i
    let mut chosen := false
    for c in n.children do
      let cn ← getN c
      if cn.kind == .group then
        match cn.children with
        | [] => throw (.internal "IndexError")
        | g0 :: _ =>
          if truthy (← getN g0).force then checkContainer fuel g0
      else if truthy cn.force then checkContainer fuel c
      else
        if cn.min == 0 then pure ()
        else if cn.min == 1 then
          if cn.kind == .elem then
            if cn.elems.length == 0 then pure ()
            else chosen := true
          else checkContainer fuel c
        else throw (.internal "NotImplementedError")
    if chosen then modN i fun n => { n with reqf := some true }

def checkGroup (fuel : Nat) (i : Nat) : M Unit :=
  match fuel with
  | 0 => throw (.internal "fuel")
  | fuel + 1 => do
    let n ← getN i
    match n.children with
    | [] => throw (.internal "IndexError")
    | g0 :: _ =>
      if n.min == 0 && !(truthy (← getN g0).force) then return ()
      checkSeq fuel g0

def checkSeq (fuel : Nat) (i : Nat) : M Unit :=
  match fuel with
  | 0 => throw (.internal "fuel")
  | fuel + 1 => do
    let n ← getN i
    if truthy n.force then
      for c in n.children do
        let cn ← getN c
        if cn.kind == .elem then
          if cn.elems.length < cn.min then modN c fun x => { x with reqf := some false }
        else checkContainer fuel c
    if n.min > 0 then
      for c in n.children do
        let cn ← getN c
        if cn.force == some true then checkContainer fuel c
        else if cn.min == 0 then pure ()
        else if cn.min == 1 then
          -- validate_child
          if cn.kind == .elem then
            let ch ← choicesInPath c
            if !ch.isEmpty then pure ()
            else if cn.elems.length < cn.min then modN c fun x => { x with reqf := some false }
            else modN c fun x => { x with reqf := some true }
          else checkContainer fuel c
        else throw (.internal "NotImplementedError")
end

/-! ### flags -/
def setForceValidate (self node : Nat) (val : Bool) : M Unit := do
  modN self fun n => { n with force := some val }
  let sn ← getN self
  for child in sn.children.filter (· != node) do
    let tr ← traverse child
    for j in tr do
      let n ← getN j
      if n.kind == .choice then
        let a ← get
        if n.min != 0 && n.chosen.isNone && (n.children.any fun c => a.nodes[c]!.min != 0) then
          modN j fun x => { x with reqf := some false }
        break
      if isSeq n.kind && n.min == 0 then break
      if isSeq n.kind && n.min != 0 then
        let pg ← match n.parent with
          | some p => do
            let pn ← getN p
            pure (pn.kind == .group && pn.min == 0)
          | none => throw (.internal "AttributeError")
        if !pg then modN j fun x => { x with force := some val }

def updateRequirementsInPath (leaf : Nat) : M Unit := do
  let ln ← getN leaf
  if ln.kind != .elem then throw (.internal "ValueError")
  if (← maxIsReached leaf) then modN leaf fun x => { x with reqf := some true }
  let ln ← getN leaf
  if !ln.elems.isEmpty then
    let path ← pathToRoot FUEL leaf
    for node in path do
      let nn ← getN node
      match nn.parent with
      | none => pure ()
      | some par =>
        let pn ← getN par
        if pn.kind == .choice then
          match pn.chosen with
          | some ch =>
            if ch != node then throw .anotherChosen
            else break
          | none =>
            modN par fun x => { x with chosen := some node }
            if pn.reqf == some false then
              modN par fun x => { x with reqf := some true }
              break
            modN par fun x => { x with reqf := some true }
        else if isSeq pn.kind then
          if truthy pn.force then break
          else setForceValidate par node true

def setRequirementsFulfilled (self : Nat) : M Unit := do
  let tr ← traverse self
  for node in tr do
    let n ← getN node
    let mut special := false
    if n.kind == .choice && n.reqf.isNone then
      let ch ← choicesInPath node
      let a ← get
      if !(ch.any fun c => a.nodes[c]!.reqf == some false) && n.min != 0 then
        special := true
    if special then
      let ls ← iterLeaves node
      for l in ls do
        if !(← getN l).elems.isEmpty then modN node fun x => { x with reqf := some true }
      if (← getN node).reqf.isNone then
        match n.children with
        | c :: _ => if (← getN c).min != 0 then modN node fun x => { x with reqf := some false }
        | [] => pure ()
      if (← getN node).reqf.isNone then modN node fun x => { x with reqf := some true }
    else
      modN node fun x => { x with reqf := some true }

def attachedElements (self : Nat) : M (List Nat) := do
  let ls ← iterLeaves self
  let a ← get
  return ls.flatMap fun l => a.nodes[l]!.elems

/-- `_create_empty_copy`: a fresh container built from the node's XSD definition -/
def createEmptyCopy (self : Nat) : M Nat := do
  let n ← getN self
  if n.kind == .dupseq then throw (.internal "TypeError")   -- DuplicationXSDSequence(xsd_tree)
  let p : Particle := match n.tmpl with
    | .elem a _ _ => .elem a n.min n.max
    | .seq _ _ ps => .seq n.min n.max ps
    | .choice _ _ ps => .choice n.min n.max ps
    | .group g _ _ q => .group g n.min n.max q
  build FUEL p

def addDuplicationParent (self : Nat) : M Unit := do
  let n ← getN self
  match n.parent with
  | none =>
    let pc ← alloc { kind := .dupseq }
    treeAddChild pc self
  | some par =>
    let pn ← getN par
    if pn.kind != .dupseq then
      let pc ← alloc { kind := .dupseq }
      let idx := (pn.children.idxOf self)
      -- parent.remove(self)
      treeRemove par self
      -- parent.get_children().insert(index, parent_container)   (no iterator reset here)
      modN par fun x => { x with children := (x.children.take idx) ++ [pc] ++ (x.children.drop idx) }
      modN pc fun x => { x with parent := some par }
      treeAddChild pc self
      let pn ← getN par
      if pn.kind == .choice && pn.chosen == some self then
        modN par fun x => { x with chosen := some pc }

def duplicate (self : Nat) : M Nat := do
  let n ← getN self
  if n.kind == .elem then throw (.internal "TypeError")
  if n.max.isSome then throw (.internal "ValueError")
  addDuplicationParent self
  let cp ← createEmptyCopy self
  let n ← getN self
  match n.parent with
  | none => throw (.internal "AttributeError")
  | some par =>
    modN cp fun x => { x with parent := some par }
    treeAddChild par cp
    return cp

def duplicateParentInPath (leaf : Nat) : M (Option Nat) := do
  let path ← pathToRoot FUEL leaf
  for node in path.dropLast do
    let nn ← getN node
    match nn.parent with
    | none => throw (.internal "AttributeError")
    | some par =>
      if (← getN par).max.isNone then
        return some (← duplicate par)
  return none

/-- result of `select_valid_leaves`: `none` = Python `None` -/
def selectValidLeaves (leaves : List Nat) : M (Option (List Nat)) := do
  let mut output : List Nat := []
  let mut cwc : Option Nat := none
  for leaf in leaves do
    let path ← pathToRoot FUEL leaf
    for n in path do
      let nn ← getN n
      match nn.parent with
      | none => pure ()
      | some par =>
        let pn ← getN par
        if pn.kind == .choice && pn.chosen.isSome then
          cwc := some par
          if pn.chosen == some n then output := output ++ [leaf]
          break
  match cwc with
  | none => return some leaves
  | some c =>
    if output.isEmpty then
      let cn ← getN c
      if cn.max == some 1 then
        match cn.parent with
        | some up =>
          let un ← getN up
          if isSeq un.kind && un.max.isNone then return some [] else return none
        | none => return none
      else return some []
    else return some output

def addXmlElement (leaf el : Nat) : M Unit := do
  let ln ← getN leaf
  let k ← getK el
  if k.name != ln.name then throw (.internal "TypeError")
  modK el fun c => { c with pxe := some leaf }
  modN leaf fun x => { x with elems := x.elems ++ [el] }

mutual
def checkRequiredElements (fuel : Nat) (self : Nat) (ic : Bool := false) : M Bool :=
  match fuel with
  | 0 => throw (.internal "fuel")
  | fuel + 1 => do
    if (← getN self).reqf.isNone then setRequirementsFulfilled self
    checkContainer fuel self
    let tr ← traverse self
    let a ← get
    let reqExist := tr.any fun j => a.nodes[j]!.reqf == some false
    if reqExist && ic then
      if (← getN self).kind == .choice then return reqExist
      match ← checkChoicesIntelligently fuel self none with
      | some cp =>
        let olds := (← getN self).children
        let news := (← getN cp).children
        for (o, n) in olds.zip news do
          treeReplace self o n
        return false
      | none => pure ()
    return reqExist

def checkChoicesIntelligently (fuel : Nat) (self : Nat) (xmlEl : Option Nat) : M (Option Nat) :=
  match fuel with
  | 0 => throw (.internal "fuel")
  | fuel + 1 => do
    let leaves ← iterLeaves self
    let a ← get
    let nameOf := fun (l : Nat) => a.nodes[l]!.name
    -- same-name leaves after the first one, with their index among the same-name leaves
    let nextOf := fun (nm : Nat) =>
      (((leaves.filter fun l => nameOf l == nm).zipIdx).drop 1)
    let current := leaves.filter fun l => !(a.nodes[l]!.elems.isEmpty)
    let optional := (current.map fun l => (nameOf l, (nextOf (nameOf l)).map (·.2))).filter (fun x => !x.2.isEmpty)
    if optional.isEmpty then return none
    -- dict: first occurrence fixes the position
    let mut options : List (Nat × List Nat) := []
    for (nm, idxs) in optional do
      if !(options.any fun o => o.1 == nm) then options := options ++ [(nm, idxs)]
    let (effName, fwdIdx) := options.getLast!
    let attached ← attachedElements self
    let kids := (← get).kids
    let nm := fun (c : Nat) => (kget kids c).name
    let sortedEls := attached.filter fun c => nm c != effName
    let effEls := attached.filter fun c => nm c == effName
    for element in effEls do
      for fi in fwdIdx do
        let cp ← createEmptyCopy self
        discard <| addElement fuel cp element (some (Int.ofNat fi)) true
        let r ← tryCatch (do
            for el in sortedEls do
              discard <| addElement fuel cp el none false
            match xmlEl with
            | some x =>
              discard <| addElement fuel cp x none false
              return some (some cp)
            | none =>
              if !(← checkRequiredElements fuel cp) then return some (some cp)
              return none)
          (fun e => match e with
            | .anotherChosen => pure none
            | e => throw e)
        match r with
        | some res => return res
        | none => pure ()
    return none

/-- `XMLChildContainer.add_element`; returns the selected leaf -/
def addElement (fuel : Nat) (self el : Nat) (forward : Option Int := none) (ic : Bool := true) : M Nat :=
  match fuel with
  | 0 => throw (.internal "fuel")
  | fuel + 1 => do
    resetIter fuel self
    if (← getN self).reqf.isNone then discard <| checkRequiredElements fuel self
    let elName := (← getK el).name
    let leaves ← iterLeaves self
    let a ← get
    let same := leaves.filter fun l => a.nodes[l]!.name == elName
    if same.isEmpty then throw .wrongElement
    let sel0 ← selectValidLeaves same
    let mut selected : List Nat := []
    match sel0 with
    | none =>
      if forward.isNone && ic then
        match ← checkChoicesIntelligently fuel self (some el) with
        | some cp =>
          let olds := (← getN self).children
          let news := (← getN cp).children
          for (o, n) in olds.zip news do
            treeReplace self o n
          let ls ← iterLeaves cp
          let a ← get
          match ls.find? fun l => a.nodes[l]!.elems.contains el with
          | some l => return l
          | none => throw (.internal "IndexError")
        | none => pure ()
      throw .anotherChosen
    | some s => selected := s
    if selected.isEmpty then
      if forward.isSome then throw .anotherChosen
      match ← duplicateParentInPath same.getLast! with
      | some dp =>
        let ls ← iterLeaves dp
        let mut acc := []
        for l in ls do
          if (← getN l).name == elName then
            if !(← maxIsReached l) then acc := acc ++ [l]
        selected := acc
        let sn ← getN self
        if sn.pxml && sn.parent.isSome then
          modify fun a => { a with root := sn.parent.get! }
      | none => throw .anotherChosen
    let mut target : Nat := 0
    match forward with
    | some f =>
      let n := same.length
      let idx : Int := if f < 0 then f + n else f
      if idx < 0 || idx ≥ n then throw .anotherChosen
      let s := same[idx.toNat]!
      if !selected.contains s then throw .anotherChosen
      if (← maxIsReached s) then throw .maxOccurs
      target := s
    | none =>
      let mut notReached := []
      for l in selected do
        if !(← maxIsReached l) then notReached := notReached ++ [l]
      if notReached.isEmpty then
        match ← duplicateParentInPath selected.getLast! with
        | some dp =>
          let ls ← iterLeaves dp
          let mut acc := []
          for l in ls do
            if (← getN l).name == elName then
              if !(← maxIsReached l) then acc := acc ++ [l]
          notReached := acc
          let sn ← getN self
          if sn.pxml && sn.parent.isSome then
            modify fun a => { a with root := sn.parent.get! }
        | none => throw .maxOccurs
      match notReached with
      | l :: _ => target := l
      | [] => throw (.internal "IndexError")
    addXmlElement target el
    updateRequirementsInPath target
    return target
end

/-- `get_required_element_names`: flattened names of the leaves `func` reports, in leaf order of the
    *current* tree (group → first child only) -/
def requiredLeaves (fuel : Nat) (i : Nat) : M (List Nat) :=
  match fuel with
  | 0 => throw (.internal "fuel")
  | fuel + 1 => do
    let n ← getN i
    match n.kind with
    | .elem =>
      if n.reqf == some false then return [n.name]
      else if n.min != 0 then
        let ch ← choicesInPath i
        let a ← get
        if ch.any fun c => a.nodes[c]!.reqf == some false then
          match n.parent with
          | some p =>
            let pn ← getN p
            if isSeq pn.kind && pn.min == 0 && !(truthy pn.force) then return []
            else return [n.name]
          | none => throw (.internal "AttributeError")
        else return []
      else return []
    | .group =>
      match n.children with
      | c :: _ => requiredLeaves fuel c
      | [] => throw (.internal "IndexError")
    | _ =>
      let mut out := []
      for c in n.children do
        out := out ++ (← requiredLeaves fuel c)
      return out

def getRequiredElementNames (ic : Bool) : M (List Nat) := do
  let root := (← get).root
  discard <| checkRequiredElements FUEL root ic
  requiredLeaves FUEL root

/-! ### XMLElement child handling (checked mode) -/
def elAddChild (cid name : Nat) (forward : Option Int) : M Unit := do
  modK cid fun c => { c with name := name }
  let root := (← get).root
  discard <| addElement FUEL root cid forward true
  modify fun a => { a with unordered := a.unordered ++ [cid] }
  modK cid fun c => { c with par := true }

def orderedChildren : M (List Nat) := do
  let root := (← get).root
  attachedElements root

def elRemove (cid : Nat) : M Unit := do
  let a ← get
  if !a.unordered.contains cid then throw .notAChild
  set { a with unordered := a.unordered.erase cid }
  let k ← getK cid
  match k.pxe with
  | none => throw (.internal "AttributeError")
  | some leaf =>
    let ln ← getN leaf
    match ln.parent with
    | none => throw (.internal "AttributeError")
    | some pc =>
      let pn ← getN pc
      if pn.chosen == some leaf then
        modN pc fun x => { x with chosen := none, reqf := some (x.min == 0) }
      if !ln.elems.contains cid then throw .notAChild
      modN leaf fun x => { x with elems := x.elems.erase cid }
      modK cid fun c => { c with pxe := none }
      -- remove_duplictation()
      let path ← pathToRoot FUEL pc
      for node in path do
        let nn ← getN node
        match nn.parent with
        | none => pure ()
        | some up =>
          let un ← getN up
          if un.kind == .dupseq && un.children.length > 1 then
            let mut rem := false
            let ls ← iterLeaves node
            for l in ls do
              if l != pc && !(← getN l).elems.isEmpty then break
              rem := true
            if rem then treeRemove up node
      -- flag reset of emptied particles
      let path ← pathToRoot FUEL pc
      for node in path do
        let ls ← iterLeaves node
        let a ← get
        if ls.any fun l => !(a.nodes[l]!.elems.isEmpty) then break
        modN node fun x => { x with force := none }
        let tr ← traverse node
        for j in tr do
          modN j fun x => { x with force := none, reqf := if x.kind == .choice then x.reqf else some true }
  modK cid fun c => { c with par := false }

def elReplace (old new newName : Nat) : M Unit := do
  let ord ← orderedChildren
  if !ord.contains old then throw .notAChild
  let k ← getK old
  if k.name != newName then throw .wrongElement
  let a ← get
  if !a.unordered.contains old then throw .notAChild
  -- `index(old)`, `remove`, `insert`: the first occurrence only
  let rec replFirst : List Nat → List Nat
    | [] => []
    | c :: r => if c == old then new :: r else c :: replFirst r
  set { a with unordered := replFirst a.unordered }
  modK new fun c => { c with name := newName, pxe := k.pxe, par := true }
  match k.pxe with
  | some leaf => modN leaf fun x => { x with elems := x.elems.map fun c => if c == old then new else c }
  | none => throw (.internal "AttributeError")
  modK old fun c => { c with par := false }

def run {α} (a : Arena) (m : M α) : Except Err α × Arena := m.run.run a

end Mfull
