import MxV.Model.Values
/-! # get_cleaned_token is XML Schema's `whiteSpace = collapse`

`cleanedTokenL` is the four-statement port of `util/core.py get_cleaned_token` (split at `\n`, strip
the pieces, join with blanks; the same for `\t`, `\r`; finally split at blanks, drop empty pieces,
strip, join). `collapseX` is the schema's definition: the maximal runs of characters other than
#x20 #x9 #xA #xD, joined by single blanks. `cleanedToken_eq_collapse`: they are the same function,
for every string. -/
namespace Values

theorem splitP_ne_nil (p : Char → Bool) (s : List Char) : splitP p s ≠ [] := by
  cases s with
  | nil => simp [splitP]
  | cons c r =>
    simp only [splitP]
    split
    · simp
    · split <;> simp

theorem splitP_cons_neg {p : Char → Bool} {c : Char} {r : List Char} (h : p c = false) :
    ∃ w ws, splitP p r = w :: ws ∧ splitP p (c :: r) = (c :: w) :: ws := by
  cases hs : splitP p r with
  | nil => exact absurd hs (splitP_ne_nil p r)
  | cons w ws => exact ⟨w, ws, rfl, by simp [splitP, h, hs]⟩

theorem splitP_cons_pos {p : Char → Bool} {c : Char} {r : List Char} (h : p c = true) :
    splitP p (c :: r) = [] :: splitP p r := by simp [splitP, h]

theorem splitP_congr {p q : Char → Bool} : ∀ {s : List Char}, (∀ x ∈ s, p x = q x) → splitP p s = splitP q s
  | [], _ => rfl
  | c :: r, h => by
    have hc := h c List.mem_cons_self
    have ih := splitP_congr (s := r) (fun x hx => h x (List.mem_cons_of_mem _ hx))
    simp only [splitP, hc, ih]

/-- the pieces contain no separator, and only characters of the input -/
theorem mem_splitP {p : Char → Bool} : ∀ {s w : List Char} {x : Char}, w ∈ splitP p s → x ∈ w → x ∈ s ∧ p x = false
  | [], w, x, hw, hx => by
    simp [splitP] at hw; subst hw; simp at hx
  | c :: r, w, x, hw, hx => by
    by_cases hc : p c = true
    · rw [splitP_cons_pos hc] at hw
      rcases List.mem_cons.1 hw with rfl | hw
      · simp at hx
      · have := mem_splitP hw hx
        exact ⟨List.mem_cons_of_mem _ this.1, this.2⟩
    · have hc' : p c = false := by simpa using hc
      obtain ⟨w0, ws, e1, e2⟩ := splitP_cons_neg (r := r) hc'
      rw [e2] at hw
      rcases List.mem_cons.1 hw with rfl | hw
      · rcases List.mem_cons.1 hx with rfl | hx
        · exact ⟨List.mem_cons_self, hc'⟩
        · have := mem_splitP (s := r) (w := w0) (by rw [e1]; exact List.mem_cons_self) hx
          exact ⟨List.mem_cons_of_mem _ this.1, this.2⟩
      · have := mem_splitP (s := r) (w := w) (by rw [e1]; exact List.mem_cons_of_mem _ hw) hx
        exact ⟨List.mem_cons_of_mem _ this.1, this.2⟩

theorem joinWith_cons_cons (c : Char) (x : Char) (w : List Char) (ws : List (List Char)) :
    joinWith c ((x :: w) :: ws) = x :: joinWith c (w :: ws) := by
  cases ws <;> simp [joinWith]

/-- `sep.join(s.split(sep)) == s` -/
theorem joinWith_splitP (c : Char) : ∀ s : List Char, joinWith c (splitP (· == c) s) = s
  | [] => by simp [splitP, joinWith]
  | x :: r => by
    by_cases hx : (x == c) = true
    · rw [splitP_cons_pos (p := (· == c)) hx]
      cases hs : splitP (· == c) r with
      | nil => exact absurd hs (splitP_ne_nil _ r)
      | cons w ws =>
        have ih := joinWith_splitP c r
        rw [hs] at ih
        have : x = c := by simpa using hx
        simp [joinWith, ih, this]
    · have hx' : (x == c) = false := by simpa using hx
      obtain ⟨w, ws, e1, e2⟩ := splitP_cons_neg (p := (· == c)) (r := r) hx'
      have ih := joinWith_splitP c r
      rw [e1] at ih
      rw [e2, joinWith_cons_cons, ih]

/-! ### words -/
theorem splitP_append_sep {p : Char → Bool} {c : Char} (hc : p c = true) :
    ∀ (a b : List Char), splitP p (a ++ c :: b) = splitP p a ++ splitP p b
  | [], b => by simp [splitP, hc]
  | x :: a, b => by
    have ih := splitP_append_sep hc a b
    by_cases hx : p x = true
    · simp [splitP, hx, ih]
    · have hx' : p x = false := by simpa using hx
      obtain ⟨w, ws, e1, e2⟩ := splitP_cons_neg (r := a) hx'
      simp only [List.cons_append, splitP, hx', ih, e1, Bool.false_eq_true, if_false, List.cons_append]

theorem wordsX_append_sep {c : Char} (hc : isXs c = true) (a b : List Char) :
    wordsX (a ++ c :: b) = wordsX a ++ wordsX b := by
  simp [wordsX, splitP_append_sep hc]

theorem wordsX_nil : wordsX [] = [] := by simp [wordsX, splitP]

theorem wordsX_cons_sep {c : Char} (hc : isXs c = true) (r : List Char) : wordsX (c :: r) = wordsX r := by
  simp [wordsX, splitP, hc]

theorem wordsX_snoc_sep {c : Char} (hc : isXs c = true) (a : List Char) : wordsX (a ++ [c]) = wordsX a := by
  rw [wordsX_append_sep hc, wordsX_nil, List.append_nil]

theorem wordsX_dropWhile : ∀ a : List Char, wordsX (a.dropWhile isXs) = wordsX a
  | [] => rfl
  | c :: r => by
    by_cases hc : isXs c = true
    · simp only [List.dropWhile, hc, wordsX_cons_sep hc]; exact wordsX_dropWhile r
    · have : isXs c = false := by simpa using hc
      simp [List.dropWhile, this]

theorem wordsX_dropWhile_rev : ∀ b : List Char, wordsX (b.dropWhile isXs).reverse = wordsX b.reverse
  | [] => rfl
  | c :: r => by
    by_cases hc : isXs c = true
    · simp only [List.dropWhile, hc, List.reverse_cons, wordsX_snoc_sep hc]; exact wordsX_dropWhile_rev r
    · have : isXs c = false := by simpa using hc
      simp [List.dropWhile, this]

theorem wordsX_stripX (a : List Char) : wordsX (stripX a) = wordsX a := by
  unfold stripX
  rw [wordsX_dropWhile_rev, List.reverse_reverse, wordsX_dropWhile]

theorem wordsX_joinWith {c : Char} (hc : isXs c = true) : ∀ l : List (List Char),
    wordsX (joinWith c l) = (l.map wordsX).flatten
  | [] => by simp [joinWith, wordsX_nil]
  | [a] => by simp [joinWith]
  | a :: b :: r => by
    simp only [joinWith, wordsX_append_sep hc, List.map, List.flatten_cons]
    rw [wordsX_joinWith hc (b :: r)]; simp

/-- one statement of the function does not change the words -/
theorem wordsX_tokenPass {c : Char} (hc : isXs c = true) (s : List Char) : wordsX (tokenPass c s) = wordsX s := by
  unfold tokenPass joinSp splitOnChar
  rw [wordsX_joinWith (by decide : isXs ' ' = true)]
  have h1 : ((splitP (· == c) s).map stripX).map wordsX = (splitP (· == c) s).map wordsX := by
    simp [List.map_map, Function.comp_def, wordsX_stripX]
  rw [h1, ← wordsX_joinWith hc, joinWith_splitP]

/-! ### which characters survive -/
theorem mem_joinWith {c x : Char} : ∀ {l : List (List Char)}, x ∈ joinWith c l → x = c ∨ ∃ w ∈ l, x ∈ w
  | [], h => by simp [joinWith] at h
  | [a], h => .inr ⟨a, List.mem_cons_self, by simpa [joinWith] using h⟩
  | a :: b :: r, h => by
    simp only [joinWith, List.mem_append, List.mem_cons] at h
    rcases h with h | h | h
    · exact .inr ⟨a, List.mem_cons_self, h⟩
    · exact .inl h
    · rcases mem_joinWith (l := b :: r) h with h | ⟨w, hw, hx⟩
      · exact .inl h
      · exact .inr ⟨w, List.mem_cons_of_mem _ hw, hx⟩

theorem mem_stripX {x : Char} {w : List Char} (h : x ∈ stripX w) : x ∈ w := by
  unfold stripX at h
  have h1 := List.mem_reverse.1 h
  have h2 := (List.dropWhile_sublist _).mem h1
  have h3 := List.mem_reverse.1 h2
  exact (List.dropWhile_sublist _).mem h3

theorem mem_tokenPass {c x : Char} {s : List Char} (h : x ∈ tokenPass c s) : (x = ' ' ∨ x ∈ s) ∧ (x = ' ' ∨ x ≠ c) := by
  unfold tokenPass joinSp splitOnChar at h
  rcases mem_joinWith h with h | ⟨w, hw, hx⟩
  · exact ⟨.inl h, .inl h⟩
  · obtain ⟨w0, hw0, rfl⟩ := List.mem_map.1 hw
    have := mem_splitP hw0 (mem_stripX hx)
    exact ⟨.inr this.1, .inr (by simpa using this.2)⟩

theorem stripX_id {w : List Char} (h : ∀ x ∈ w, isXs x = false) : stripX w = w := by
  have d1 : ∀ l : List Char, (∀ x ∈ l, isXs x = false) → l.dropWhile isXs = l := by
    intro l hl
    cases l with
    | nil => rfl
    | cons c r => simp [List.dropWhile, hl c List.mem_cons_self]
  unfold stripX
  rw [d1 w h, d1 w.reverse (fun x hx => h x (List.mem_reverse.1 hx)), List.reverse_reverse]

/-- **get_cleaned_token is `whiteSpace = collapse`** -/
theorem cleanedTokenL_eq_collapse (s : List Char) : cleanedTokenL s = collapseX s := by
  unfold cleanedTokenL collapseX
  generalize hs3 : tokenPass '\r' (tokenPass '\t' (tokenPass '\n' s)) = s3
  rw [← (show wordsX s3 = wordsX s by
    rw [← hs3, wordsX_tokenPass (by decide), wordsX_tokenPass (by decide), wordsX_tokenPass (by decide)])]
  have hw : wordsX s3 = wordsX s := by
    rw [← hs3, wordsX_tokenPass (by decide), wordsX_tokenPass (by decide), wordsX_tokenPass (by decide)]
  -- after the three statements only blanks are left as white space
  have hfree : ∀ x ∈ s3, isXs x = (x == ' ') := by
    intro x hx
    rw [← hs3] at hx
    have h1 := mem_tokenPass hx
    have hr : x = ' ' ∨ x ≠ '\r' := h1.2
    have ht : x = ' ' ∨ x ≠ '\t' := by
      rcases h1.1 with h | h
      · exact .inl h
      · exact (mem_tokenPass h).2
    have hn : x = ' ' ∨ x ≠ '\n' := by
      rcases h1.1 with h | h
      · exact .inl h
      · rcases (mem_tokenPass h).1 with h | h
        · exact .inl h
        · exact (mem_tokenPass h).2
    by_cases hsp : x = ' '
    · subst hsp; decide
    · have e1 : (x == ' ') = false := by simpa using hsp
      have e2 : (x == '\t') = false := by simpa using ht.resolve_left hsp
      have e3 : (x == '\n') = false := by simpa using hn.resolve_left hsp
      have e4 : (x == '\r') = false := by simpa using hr.resolve_left hsp
      simp [isXs, e1, e2, e3, e4]
  have hsplit : splitOnChar ' ' s3 = splitP isXs s3 := by
    unfold splitOnChar
    exact (splitP_congr (fun x hx => hfree x hx)).symm
  show joinSp (((splitOnChar ' ' s3).filter (· ≠ [])).map stripX) = joinSp (wordsX s3)
  rw [hsplit]
  have hid : ((splitP isXs s3).filter (· ≠ [])).map stripX = (splitP isXs s3).filter (· ≠ []) := by
    rw [List.map_congr_left (g := id)]
    · simp
    · intro w hw'
      have hw'' := (List.mem_filter.1 hw').1
      exact stripX_id (fun x hx => (mem_splitP hw'' hx).2)
  rw [hid]; rfl

theorem cleanedToken_eq_collapse (s : String) : (cleanedToken s).toList = collapseX s.toList := by
  simp [cleanedToken, cleanedTokenL_eq_collapse]

/-- consequences: the result has no leading, trailing or doubled blank and no other white space;
    collapsing is idempotent (stated through the words) -/
theorem wordsX_no_ws {s w : List Char} (hw : w ∈ wordsX s) : w ≠ [] ∧ ∀ x ∈ w, isXs x = false := by
  have h := List.mem_filter.1 hw
  exact ⟨by simpa using h.2, fun x hx => (mem_splitP h.1 hx).2⟩

theorem splitP_no_sep {p : Char → Bool} : ∀ {w : List Char}, (∀ x ∈ w, p x = false) → splitP p w = [w]
  | [], _ => rfl
  | c :: r, h => by
    have hc := h c List.mem_cons_self
    have ih := splitP_no_sep (w := r) (fun x hx => h x (List.mem_cons_of_mem _ hx))
    simp [splitP, hc, ih]

theorem wordsX_word {w : List Char} (hne : w ≠ []) (h : ∀ x ∈ w, isXs x = false) : wordsX w = [w] := by
  simp [wordsX, splitP_no_sep h, hne]

/-- collapsing is idempotent: a collapsed text is its own normal form (what the second half of C05
    offers to the validator) -/
theorem collapseX_idem (s : List Char) : collapseX (collapseX s) = collapseX s := by
  unfold collapseX joinSp
  rw [wordsX_joinWith (by decide : isXs ' ' = true)]
  have : (wordsX s).map wordsX = (wordsX s).map fun w => [w] := by
    apply List.map_congr_left
    intro w hw
    have := wordsX_no_ws hw
    exact wordsX_word this.1 this.2
  have fl : ∀ l : List (List Char), (l.map fun w => [w]).flatten = l := by
    intro l; induction l with
    | nil => rfl
    | cons a r ih => simp [ih]
  rw [this, fl]

end Values

#print axioms Values.cleanedTokenL_eq_collapse
#print axioms Values.collapseX_idem
