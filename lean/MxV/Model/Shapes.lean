/-! # Shapes — effect order of `write()` (C17) and the lazily filled class-level tables (C20).
The programs are extracted from the AST of the current source (extract/shapes.py → Gen/Shapes.lean);
the theorems are generic in the program and are instantiated on the extracted ones. -/
namespace Shapes

/-! ## write(): a byte-file store with a failing pure step -/
inductive Eff
  | compute                                   -- content = self.to_string(...)   (may raise)
  | openTrunc (binary : Bool) (enc : Option String)   -- open(path, 'w', ...)  : truncates
  | writeLit (s : String)
  | writeContent                              -- file.write(content)
  | writeCompute                              -- file.write(self.to_string(...)) : computed after opening
  | close
  | unknown
  deriving DecidableEq, Repr

/-- the file: `none` = does not exist -/
abbrev File := Option String

structure IOSt where
  file : File
  content : Option String := none      -- the local variable holding to_string()'s result
  failed : Bool := false               -- an exception has propagated: nothing after it runs

/-- `res = none`: to_string() raises (validation or serialisation fails) -/
def stepIO (res : Option String) (s : IOSt) : Eff → IOSt
  | .compute => if s.failed then s else match res with
    | some t => { s with content := some t }
    | none => { s with failed := true }
  | .openTrunc _ _ => if s.failed then s else { s with file := some "" }
  | .writeLit l => if s.failed then s else { s with file := s.file.map (· ++ l) }
  | .writeContent => if s.failed then s else match s.content with
    | some t => { s with file := s.file.map (· ++ t) }
    | none => { s with failed := true }
  | .writeCompute => if s.failed then s else match res with
    | some t => { s with file := s.file.map (· ++ t) }
    | none => { s with failed := true }
  | .close => s
  | .unknown => { s with failed := true, file := none }   -- anything may have happened

def runIO (prog : List Eff) (res : Option String) (f : File) : IOSt :=
  prog.foldl (stepIO res) { file := f }

/-- the document text is computed first — before any effect on the file — and never again, and
    nothing unrecognised occurs -/
def validateFirst : List Eff → Bool
  | .compute :: r => r.all fun e => e != .compute && e != .writeCompute && e != .unknown
  | _ => false

theorem failed_stays (res : Option String) (prog : List Eff) (s : IOSt) (h : s.failed = true)
    (hu : prog.all (· != .unknown) = true) :
    (prog.foldl (stepIO res) s).file = s.file := by
  induction prog generalizing s with
  | nil => rfl
  | cons e r ih =>
    simp only [List.all_cons, Bool.and_eq_true] at hu
    have hs : stepIO res s e = s := by
      cases e <;> simp_all [stepIO]
    simp only [List.foldl_cons, hs]
    exact ih s h hu.2

/-- C17, first half: if the document text cannot be produced (validation or serialisation raises),
    the destination is left exactly as it was — whatever it was, existing or not -/
theorem atomic_if_validate_first (prog : List Eff) (hv : validateFirst prog = true) (f : File) :
    (runIO prog none f).file = f := by
  cases prog with
  | nil => simp [validateFirst] at hv
  | cons e r =>
    cases e with
    | compute =>
      simp only [validateFirst] at hv
      have hu : r.all (· != .unknown) = true := by
        simp only [List.all_eq_true] at hv ⊢
        intro x hx
        have := hv x hx
        simp only [Bool.and_eq_true] at this
        exact this.2
      simp only [runIO, List.foldl_cons, stepIO, Bool.false_eq_true, if_false]
      exact failed_stays none r _ rfl hu
    | _ => simp [validateFirst] at hv

/-- the shape the library's write() is expected to have -/
def writeShape (decl : String) : List Eff :=
  [.compute, .openTrunc false (some "utf-8"), .writeLit decl, .writeContent, .close]

/-- C17, second half: on success the file holds the declaration followed by exactly to_string() -/
theorem content_on_success (decl s : String) (f : File) :
    (runIO (writeShape decl) (some s) f).file = some ("" ++ decl ++ s) ∧
    (runIO (writeShape decl) (some s) f).failed = false := by
  simp [runIO, writeShape, stepIO]

/-! ## open() sites: independence of the process locale -/
structure OpenSite where
  file : String
  line : Nat
  binary : Bool
  encoding : Option String
  deriving Repr

/-- bytes ↔ text conversion depends on the locale only through an open() in text mode without an
    explicit encoding -/
def localeFree (o : OpenSite) : Bool := o.binary || o.encoding == some "utf-8"

/-- abstract decoding: the locale is consulted exactly when the site is not `localeFree` -/
def decodeWith (o : OpenSite) (localeEnc : String) : String :=
  if o.binary then "bytes" else (o.encoding.getD localeEnc)

theorem locale_independent (sites : List OpenSite) (h : sites.all localeFree = true) (l l' : String) :
    sites.map (decodeWith · l) = sites.map (decodeWith · l') := by
  apply List.map_congr_left
  intro o ho
  have := List.all_eq_true.1 h o ho
  unfold localeFree at this
  unfold decodeWith
  by_cases hb : o.binary = true
  · simp [hb]
  · simp only [hb, Bool.false_or, beq_iff_eq] at this
    simp [hb, this]

/-! ## lazily filled shared tables: any number of threads, any schedule -/
inductive LStmt
  | ifNone | endIf | newLocal | publishEmpty | appendShared | appendLocal | publishLocal | retShared | unknown
  deriving DecidableEq, Repr

/-- the shape "fill a local list, publish it with one assignment":
    ifNone; newLocal; appendLocal*; publishLocal; endIf; retShared -/
def publishAfterFill : List LStmt → Bool
  | .ifNone :: .newLocal :: r =>
    let body := r.takeWhile (· == .appendLocal)
    let rest := r.dropWhile (· == .appendLocal)
    let _ := body
    rest == [.publishLocal, .endIf, .retShared]
  | _ => false

/-- number of items the complete table has -/
def nItems (p : List LStmt) : Nat := (p.filter (· == .appendLocal)).length

/-- one thread executing the publish-after-fill program (statement-granular steps) -/
inductive Th
  | start                      -- before `if cls._TABLE is None`
  | filling (k : Nat)          -- inside the if-body, k items in the local list so far
  | after                      -- past the if, about to `return cls._TABLE`
  | done (r : Option Nat)      -- returned: none = None, some k = a list with k items
  deriving DecidableEq, Repr

/-- shared cell: none = None, some k = a list with k items -/
structure Sys where
  cell : Option Nat := none
  threads : List Th

/-- one step of a thread for a table of `n` items; returns the new cell and thread state -/
def stepTh (n : Nat) (cell : Option Nat) : Th → Option Nat × Th
  | .start => if cell.isNone then (cell, .filling 0) else (cell, .after)
  | .filling k => if k < n then (cell, .filling (k + 1)) else (some k, .after)
  | .after => (cell, .done cell)
  | .done r => (cell, .done r)

def stepSys (n : Nat) (s : Sys) (i : Nat) : Sys :=
  match s.threads[i]? with
  | none => s
  | some t => { cell := (stepTh n s.cell t).1, threads := s.threads.set i (stepTh n s.cell t).2 }

/-- any schedule: a list of thread indices, one step each -/
def runSched (n : Nat) (s : Sys) (sched : List Nat) : Sys := sched.foldl (stepSys n) s

def ThInv (n : Nat) (cell : Option Nat) : Th → Prop
  | .start => True
  | .filling k => k ≤ n
  | .after => cell = some n
  | .done r => r = some n

def SysInv (n : Nat) (s : Sys) : Prop :=
  (s.cell = none ∨ s.cell = some n) ∧ ∀ t ∈ s.threads, ThInv n s.cell t

theorem thInv_mono (n : Nat) (t : Th) (c : Option Nat) (h : ThInv n c t) (_hc : c = none ∨ c = some n) :
    ThInv n (some n) t := by
  cases t <;> simp_all [ThInv]

theorem stepTh_inv (n : Nat) (cell : Option Nat) (t : Th) (hc : cell = none ∨ cell = some n)
    (ht : ThInv n cell t) :
    ((stepTh n cell t).1 = none ∨ (stepTh n cell t).1 = some n) ∧ ThInv n (stepTh n cell t).1 (stepTh n cell t).2 ∧
    ((stepTh n cell t).1 = cell ∨ (stepTh n cell t).1 = some n) := by
  cases t with
  | start =>
    simp only [stepTh]
    split
    · exact ⟨hc, by simp [ThInv], by simp⟩
    · rename_i hn
      have : cell = some n := by
        rcases hc with h | h
        · simp [h] at hn
        · exact h
      exact ⟨hc, this, by simp⟩
  | filling k =>
    simp only [ThInv] at ht
    simp only [stepTh]
    split
    · rename_i hk
      exact ⟨hc, by simp only [ThInv]; omega, .inl rfl⟩
    · rename_i hk
      have : k = n := by omega
      subst this
      exact ⟨.inr rfl, rfl, .inr rfl⟩
  | after =>
    simp only [ThInv] at ht
    simp only [stepTh]
    exact ⟨hc, ht, by simp⟩
  | done r =>
    simp only [stepTh]
    exact ⟨hc, ht, by simp⟩

theorem stepSys_inv (n : Nat) (s : Sys) (i : Nat) (h : SysInv n s) : SysInv n (stepSys n s i) := by
  unfold stepSys
  split
  · exact h
  · rename_i t hti
    obtain ⟨hc, hts⟩ := h
    have hmem : t ∈ s.threads := List.mem_of_getElem? hti
    obtain ⟨h1, h2, h3⟩ := stepTh_inv n s.cell t hc (hts t hmem)
    refine ⟨h1, ?_⟩
    intro u hu
    rcases List.mem_or_eq_of_mem_set hu with hu' | rfl
    · -- another thread: its invariant survives the (monotone) change of the cell
      show ThInv n (stepTh n s.cell t).1 u
      rcases h3 with h3 | h3
      · rw [h3]; exact hts u hu'
      · rw [h3]; exact thInv_mono n u s.cell (hts u hu') hc
    · exact h2

/-- C20 core: with the publish-after-fill shape, whatever the number of threads and whatever the
    schedule, every thread that has returned got the complete table -/
theorem publish_after_fill_safe (n m : Nat) (sched : List Nat) :
    ∀ t ∈ (runSched n { cell := none, threads := List.replicate m .start } sched).threads,
      ∀ r, t = .done r → r = some n := by
  have hinv : SysInv n (runSched n { cell := none, threads := List.replicate m .start } sched) := by
    unfold runSched
    have : ∀ s, SysInv n s → SysInv n (sched.foldl (stepSys n) s) := by
      induction sched with
      | nil => intro s h; exact h
      | cons i r ih => intro s h; exact ih _ (stepSys_inv n s i h)
    apply this
    refine ⟨.inl rfl, ?_⟩
    intro t ht
    rw [List.eq_of_mem_replicate ht]
    trivial
  intro t ht r hr
  have := hinv.2 t ht
  subst hr
  exact this

/-- and a concrete schedule in which two threads interleave inside the body and both finish -/
example : (runSched 2 { cell := none, threads := [.start, .start] } [0, 1, 0, 1, 0, 0, 1, 1, 0, 1]).threads =
    [.done (some 2), .done (some 2)] := by decide

/-- contrast (the pre-repair shape "publish an empty list, then append to it"): a second thread
    can return a partial table.  Model of that shape: -/
def stepThBad (n : Nat) (cell : Option Nat) : Th → Option Nat × Th
  | .start => if cell.isNone then (some 0, .filling 0) else (cell, .after)
  | .filling k => if k < n then (some (k + 1), .filling (k + 1)) else (cell, .after)
  | .after => (cell, .done cell)
  | .done r => (cell, .done r)
def stepSysBad (n : Nat) (s : Sys) (i : Nat) : Sys :=
  match s.threads[i]? with
  | none => s
  | some t => let r := stepThBad n s.cell t; { cell := r.1, threads := s.threads.set i r.2 }
theorem publish_then_fill_unsafe :
    ∃ sched, ([0, 1, 1].foldl (stepSysBad 2) { cell := none, threads := [.start, .start] }).threads[1]? = some (.done (some 0))
      ∧ sched = [0, 1, 1] := ⟨[0, 1, 1], by decide, rfl⟩

end Shapes
