import MxV.Model.Msimple
/-! Lemmas about `Msimple` (helper lemmas; the property theorems live in `MxV/Props/`). -/

namespace Msimple

/-! ### small facts -/
theorem nodupNat_iff {l : List Nat} : nodupNat l = true ↔ l.Nodup := by
  induction l with
  | nil => simp [nodupNat]
  | cons a r ih => simp [nodupNat, ih]

theorem isFlat_iff {p : Particle} : isFlat p = true ↔ p.flat = true ∧ p.leaves.Nodup := by
  simp [isFlat, nodupNat_iff]

theorem names_append (a b : Kids) : names (a ++ b) = names a ++ names b := by simp [names]
theorem names_filter_name (k : Kids) (n : Nat) :
    names (k.filter (fun c => c.2 == n)) = List.replicate (count k n) n := by
  induction k with
  | nil => simp [names, count]
  | cons c r ih =>
    simp only [count, names] at ih ⊢
    by_cases h : c.2 = n
    · simp [List.filter, h, ih, List.replicate_succ]
    · have h' : (c.2 == n) = false := by simpa using h
      simp [List.filter, h', ih, List.count_cons, h]

theorem count_eq_cnt (k : Kids) (n : Nat) : count k n = cnt (names k) n := rfl

/-! ### render of a flat particle = leaves in order, each repeated -/
mutual
theorem render_flatMap (c : Nat → Nat) : (p : Particle) → p.flat = true →
    p.render c = p.leaves.flatMap (fun n => List.replicate (c n) n)
  | .elem n _ _, _ => by simp [Particle.render, Particle.leaves]
  | .seq _ _ ps, h => by
    simp only [Particle.flat, Bool.and_eq_true] at h
    simpa [Particle.render, Particle.leaves] using renderL_flatMap c ps h.2
  | .choice _ _ _, h => by simp [Particle.flat] at h
  | .group _ _ _ p, h => by
    simp only [Particle.flat, Bool.and_eq_true] at h
    simpa [Particle.render, Particle.leaves] using render_flatMap c p h.2
theorem renderL_flatMap (c : Nat → Nat) : (ps : List Particle) → Particle.flatL ps = true →
    Particle.renderL c ps = (Particle.leavesL ps).flatMap (fun n => List.replicate (c n) n)
  | [], _ => by simp [Particle.renderL, Particle.leavesL]
  | p :: ps, h => by
    simp only [Particle.flatL, Bool.and_eq_true] at h
    simp [Particle.renderL, Particle.leavesL, render_flatMap c p h.1, renderL_flatMap c ps h.2]
end

theorem names_flatMap (L : List Nat) (f : Nat → Kids) :
    names (L.flatMap f) = L.flatMap (fun n => names (f n)) := by
  induction L with
  | nil => simp [names]
  | cons a r ih => simp [List.flatMap_cons, names_append, ih]

/-- the schema-ordered child *names* of a flat element are the leaf-ordered rendering of the counts -/
theorem names_ordered_flat {p : Particle} (hf : isFlat p = true) (k : Kids) :
    names (ordered p k) = p.render (cnt (names k)) := by
  have hfl := (isFlat_iff.1 hf).1
  simp only [ordered, hf, if_true]
  rw [names_flatMap, render_flatMap _ p hfl]
  congr 1
  funext n
  exact names_filter_name k n

/-! ### verdict: `missing = []` ⇔ `ok` once no leaf is over-full -/
mutual
theorem ok_of_missing_nil (c : Nat → Nat) : (p : Particle) → p.flat = true →
    (∀ s ∈ p.specs, leMax (c s.1) s.2.2 = true) → missing c p = [] → p.ok c = true
  | .elem n mi ma, _, hm, h => by
    have := hm (n, mi, ma) (by simp [Particle.specs])
    simp only [missing] at h
    split at h
    · cases h
    · rename_i hlt
      simp only [Particle.ok, Bool.and_eq_true, decide_eq_true_eq]
      exact ⟨Nat.le_of_not_lt hlt, this⟩
  | .seq mi ma ps, hf, hm, h => by
    simp only [Particle.flat, Bool.and_eq_true] at hf
    simp only [missing] at h
    simp only [Particle.ok, Bool.or_eq_true]
    split at h
    · rename_i hc; left; exact hc
    · right; exact okL_of_missingL_nil c ps hf.2 (by simpa [Particle.specs] using hm) h
  | .choice _ _ _, hf, _, _ => by simp [Particle.flat] at hf
  | .group _ mi ma p, hf, hm, h => by
    simp only [Particle.flat, Bool.and_eq_true] at hf
    simp only [missing] at h
    simp only [Particle.ok, Bool.or_eq_true]
    split at h
    · rename_i hc; left; exact hc
    · right; exact ok_of_missing_nil c p hf.2 (by simpa [Particle.specs] using hm) h
theorem okL_of_missingL_nil (c : Nat → Nat) : (ps : List Particle) → Particle.flatL ps = true →
    (∀ s ∈ Particle.specsL ps, leMax (c s.1) s.2.2 = true) → missingL c ps = [] → Particle.okL c ps = true
  | [], _, _, _ => rfl
  | p :: ps, hf, hm, h => by
    simp only [Particle.flatL, Bool.and_eq_true] at hf
    simp only [missingL, List.append_eq_nil_iff] at h
    simp only [Particle.okL, Bool.and_eq_true]
    exact ⟨ok_of_missing_nil c p hf.1 (fun s hs => hm s (by simp [Particle.specsL, hs])) h.1,
           okL_of_missingL_nil c ps hf.2 (fun s hs => hm s (by simp [Particle.specsL, hs])) h.2⟩
end

mutual
theorem missing_nil_of_ok (c : Nat → Nat) : (p : Particle) → p.flat = true → p.ok c = true → missing c p = []
  | .elem n mi ma, _, h => by
    simp only [Particle.ok, Bool.and_eq_true, decide_eq_true_eq] at h
    simp [missing, Nat.not_lt.2 h.1]
  | .seq mi ma ps, hf, h => by
    simp only [Particle.flat, Bool.and_eq_true] at hf
    simp only [Particle.ok, Bool.or_eq_true] at h
    simp only [missing]
    split
    · rfl
    · rename_i hc
      rcases h with h | h
      · exact absurd h hc
      · exact missingL_nil_of_okL c ps hf.2 h
  | .choice _ _ _, hf, _ => by simp [Particle.flat] at hf
  | .group _ mi ma p, hf, h => by
    simp only [Particle.flat, Bool.and_eq_true] at hf
    simp only [Particle.ok, Bool.or_eq_true] at h
    simp only [missing]
    split
    · rfl
    · rename_i hc
      rcases h with h | h
      · exact absurd h hc
      · exact missing_nil_of_ok c p hf.2 h
theorem missingL_nil_of_okL (c : Nat → Nat) : (ps : List Particle) → Particle.flatL ps = true →
    Particle.okL c ps = true → missingL c ps = []
  | [], _, _ => rfl
  | p :: ps, hf, h => by
    simp only [Particle.flatL, Bool.and_eq_true] at hf
    simp only [Particle.okL, Bool.and_eq_true] at h
    simp [missingL, missing_nil_of_ok c p hf.1 h.1, missingL_nil_of_okL c ps hf.2 h.2]
end

/-- admissible counts: the word rendered from them is in the language (general counts) -/
theorem lang_render_of_ok (p : Particle) (hf : p.flat = true) (hnd : p.leaves.Nodup) (c : Nat → Nat)
    (h : p.ok c = true) : p.Lang (p.render c) := by
  have hc := Particle.cnt_render c p hf hnd
  refine (Particle.flat_iff p hf hnd _).2 ⟨?_, ?_⟩
  · rw [Particle.ok_congr _ _ p hc]; exact h
  · exact (Particle.render_congr _ _ p hc).symm

/-! ### the invariant of reachable states -/
def Inv (p : Particle) (k : Kids) : Prop :=
  (∀ c ∈ k, c.2 ∈ p.leaves) ∧
  (isFlat p = true → ∀ s ∈ p.specs, leMax (count k s.1) s.2.2 = true) ∧
  (∀ mi ps, p = .choice mi (some 1) ps → k.length ≤ 1)

theorem inv_nil (p : Particle) : Inv p [] := by
  refine ⟨by simp, ?_, by simp⟩
  intro _ s _
  cases s.2.2 <;> simp [leMax, count, names]

theorem maxOf_some_mem {p : Particle} {n : Nat} {ma : Option Nat} (h : maxOf p n = some ma) :
    ∃ s ∈ p.specs, s.1 = n ∧ s.2.2 = ma := by
  simp only [maxOf, Option.map_eq_some_iff] at h
  obtain ⟨s, hs, rfl⟩ := h
  have := List.find?_some hs
  exact ⟨s, List.mem_of_find?_eq_some hs, by simpa using this, rfl⟩

theorem maxOf_of_mem {p : Particle} (hnd : p.leaves.Nodup) {s : Nat × Nat × Option Nat} (hs : s ∈ p.specs) :
    maxOf p s.1 = some s.2.2 := by
  unfold maxOf
  have hnd' : (p.specs.map (·.1)).Nodup := by rw [Particle.specs_names]; exact hnd
  generalize p.specs = l at hs hnd'
  induction l with
  | nil => cases hs
  | cons t l ih =>
    simp only [List.map_cons, List.nodup_cons] at hnd'
    rcases List.mem_cons.1 hs with rfl | hs'
    · simp [List.find?]
    · have hne : (t.1 == s.1) = false := by
        apply beq_false_of_ne
        intro heq; exact hnd'.1 (heq ▸ List.mem_map_of_mem (f := (·.1)) hs')
      simp only [List.find?, hne]
      exact ih hs' hnd'.2

theorem mem_leaves_of_spec {p : Particle} {s : Nat × Nat × Option Nat} (hs : s ∈ p.specs) : s.1 ∈ p.leaves := by
  rw [← Particle.specs_names]; exact List.mem_map_of_mem (f := (·.1)) hs

theorem count_append_one (k : Kids) (c n m : Nat) :
    count (k ++ [(c, n)]) m = count k m + (if n = m then 1 else 0) := by
  simp only [count, names, List.map_append, List.count_append, List.map_cons, List.map_nil, List.count_cons,
    List.count_nil]
  by_cases h : n = m <;> simp [h]

theorem isRootChoice_shape {p : Particle} (h : isRootChoice p = true) :
    ∃ mi ma ps, p = .choice mi ma ps ∧ mi ≤ 1 ∧ ps ≠ [] ∧ (ma = none ∨ ma = some 1) ∧ ps.all isUnitLeaf = true := by
  cases p with
  | choice mi ma ps =>
    simp only [isRootChoice, Bool.and_eq_true, Bool.or_eq_true, beq_iff_eq, decide_eq_true_eq,
      Bool.not_eq_true', List.isEmpty_eq_false_iff] at h
    exact ⟨mi, ma, ps, rfl, h.1.1.1, h.1.1.2, h.1.2, h.2⟩
  | _ => simp [isRootChoice] at h

theorem flat_not_choice {mi ma ps} : isFlat (.choice mi ma ps) = false := by simp [isFlat, Particle.flat]

/-- a successful add keeps the invariant -/
theorem inv_add {p : Particle} {k k' : Kids} {c n : Nat} {f : Option Int}
    (hi : Inv p k) (h : add p k c n f = .ok k') : Inv p k' ∧ k' = k ++ [(c, n)] := by
  unfold add at h
  split at h
  · -- flat
    rename_i hfl
    split at h
    · cases h
    · rename_i ma hma
      split at h
      · cases h
      · split at h
        · rename_i hle
          cases h
          obtain ⟨s, hs, rfl, rfl⟩ := maxOf_some_mem hma
          refine ⟨⟨?_, ?_, ?_⟩, rfl⟩
          · intro x hx
            rcases List.mem_append.1 hx with hx | hx
            · exact hi.1 x hx
            · simp at hx; subst hx; exact mem_leaves_of_spec hs
          · intro _ t ht
            rw [count_append_one]
            by_cases hst : s.1 = t.1
            · have : maxOf p t.1 = some t.2.2 := maxOf_of_mem (isFlat_iff.1 hfl).2 ht
              rw [← hst, hma] at this
              have hma' : s.2.2 = t.2.2 := Option.some.inj this
              simp only [hst, if_true]
              rw [← hst, ← hma']; exact hle
            · simp only [hst, if_false, Nat.add_zero]; exact hi.2.1 hfl t ht
          · intro mi ps hp; subst hp; simp [flat_not_choice] at hfl
        · cases h
  · rename_i hnf
    split at h
    · rename_i mi ma ps
      split at h
      · cases h
      · rename_i hmem
        split at h
        · cases h
        · split at h
          · cases h
          · split at h
            · cases h
              refine ⟨⟨?_, ?_, ?_⟩, rfl⟩
              · intro x hx
                rcases List.mem_append.1 hx with hx | hx
                · exact hi.1 x hx
                · simp at hx; subst hx; simpa using hmem
              · intro hfl; simp [flat_not_choice] at hfl
              · intro mi' ps' hp; cases hp
            · rename_i m
              split at h
              · cases h
                refine ⟨⟨?_, ?_, ?_⟩, by simp⟩
                · intro x hx; simp at hx; subst hx; simpa using hmem
                · intro hfl; simp [flat_not_choice] at hfl
                · intro _ _ _; simp
              · split at h <;> cases h
    · cases h

theorem count_filter_le (k : Kids) (cid m : Nat) :
    count (k.filter (fun c => c.1 != cid)) m ≤ count k m := by
  simp only [count, names]
  induction k with
  | nil => simp
  | cons a r ih =>
    by_cases h : a.1 = cid
    · have : (a.1 != cid) = false := by simp [h]
      simp only [List.filter, this, List.map_cons, List.count_cons]
      omega
    · have : (a.1 != cid) = true := by simp [h]
      simp only [List.filter, this, List.map_cons, List.count_cons]
      omega

theorem inv_remove {p : Particle} {k k' : Kids} {cid : Nat} (hi : Inv p k) (h : remove k cid = .ok k') :
    Inv p k' ∧ k' = k.filter (fun c => c.1 != cid) := by
  unfold remove at h
  split at h
  · cases h
    refine ⟨⟨?_, ?_, ?_⟩, rfl⟩
    · intro x hx; exact hi.1 x (List.mem_filter.1 hx).1
    · intro hfl s hs
      exact leMax_mono (count_filter_le k cid s.1) (hi.2.1 hfl s hs)
    · intro mi ps hp
      exact Nat.le_trans (List.length_filter_le _ _) (hi.2.2 mi ps hp)
  · cases h

end Msimple

namespace Msimple

theorem inv_of_names_eq {p : Particle} {k k' : Kids} (h : names k' = names k) (hi : Inv p k) : Inv p k' := by
  have hlen : k'.length = k.length := by
    have := congrArg List.length h; simpa [names] using this
  refine ⟨?_, ?_, ?_⟩
  · intro c hc
    have : c.2 ∈ names k' := List.mem_map_of_mem (f := (·.2)) hc
    rw [h] at this
    obtain ⟨d, hd, hdc⟩ := List.mem_map.1 this
    rw [← hdc]; exact hi.1 d hd
  · intro hf s hs
    have := hi.2.1 hf s hs
    simpa [count, h] using this
  · intro mi ps hp; rw [hlen]; exact hi.2.2 mi ps hp

theorem names_replFirst (k : Kids) (old new n : Nat) (c : Nat)
    (h : k.find? (fun x => x.1 == old) = some (c, n)) : names (replFirst old (new, n) k) = names k := by
  induction k with
  | nil => simp at h
  | cons a r ih =>
    simp only [List.find?] at h
    simp only [replFirst]
    split at h
    · rename_i ha
      cases h
      simp [ha, names]
    · rename_i ha
      have ha' : (a.1 == old) = false := by simpa using ha
      simp only [ha', Bool.false_eq_true, if_false]
      simp only [names, List.map_cons] at ih ⊢
      rw [ih h]

theorem inv_replace {p : Particle} {k k' : Kids} {old new n : Nat} (hi : Inv p k)
    (h : replace k old new n = .ok k') : Inv p k' ∧ names k' = names k := by
  unfold replace at h
  split at h
  · cases h
  · rename_i c m hfind
    split at h
    · rename_i hmn
      cases h
      have hmn : m = n := by simpa using hmn
      subst hmn
      have hn := names_replFirst k old new m c hfind
      exact ⟨inv_of_names_eq hn hi, hn⟩
    · cases h

/-- every operation, failed or not, keeps the invariant -/
theorem inv_apply {p : Particle} {k : Kids} (op : Op) (hi : Inv p k) : Inv p (apply p k op) := by
  unfold apply
  split
  · rename_i k' h
    cases op with
    | add c n f => exact (inv_add hi h).1
    | rm c => exact (inv_remove hi h).1
    | repl o nw n => exact (inv_replace hi h).1
  · exact hi

theorem inv_run (p : Particle) (ops : List Op) : Inv p (run p ops) := by
  unfold run
  have : ∀ k, Inv p k → Inv p (ops.foldl (apply p) k) := by
    induction ops with
    | nil => intro k hk; exact hk
    | cons op r ih => intro k hk; exact ih _ (inv_apply op hk)
  exact this [] (inv_nil p)

end Msimple

namespace Msimple

/-! ### language of a RootChoice: any word over the leaves with an admissible length -/
theorem lang_unitLeaf {q : Particle} (h : isUnitLeaf q = true) (u : List Nat) :
    q.Lang u ↔ ∃ n, q.leaves = [n] ∧ u = [n] := by
  cases q with
  | elem n mi ma =>
    have : mi = 1 ∧ ma = some 1 := by
      unfold isUnitLeaf at h
      split at h
      · rename_i heq; cases heq; exact ⟨rfl, rfl⟩
      · cases h
    obtain ⟨rfl, rfl⟩ := this
    simp only [Particle.Lang, Rep_elem, Particle.leaves]
    constructor
    · rintro ⟨k, hk, hm, rfl⟩
      have : k = 1 := by simp [leMax] at hm; omega
      subst this; exact ⟨n, rfl, rfl⟩
    · rintro ⟨m, hm, rfl⟩
      cases hm
      exact ⟨1, Nat.le_refl 1, by simp [leMax], rfl⟩
  | _ => simp [isUnitLeaf] at h

theorem langAlt_unit (ps : List Particle) (h : ps.all isUnitLeaf = true) (u : List Nat) :
    Particle.LangAlt ps u ↔ ∃ n ∈ Particle.leavesL ps, u = [n] := by
  induction ps with
  | nil => simp [Particle.LangAlt, Particle.leavesL]
  | cons q qs ih =>
    simp only [List.all_cons, Bool.and_eq_true] at h
    simp only [Particle.LangAlt, Particle.leavesL, List.mem_append, lang_unitLeaf h.1, ih h.2]
    constructor
    · rintro (⟨n, hn, rfl⟩ | ⟨n, hn, rfl⟩)
      · exact ⟨n, .inl (by simp [hn]), rfl⟩
      · exact ⟨n, .inr hn, rfl⟩
    · rintro ⟨n, hn | hn, rfl⟩
      · obtain ⟨m, hm⟩ : ∃ m, q.leaves = [m] := by
          cases q with
          | elem m _ _ => exact ⟨m, rfl⟩
          | _ => simp [isUnitLeaf] at h
        rw [hm] at hn; simp at hn; subst hn
        exact .inl ⟨n, hm, rfl⟩
      · exact .inr ⟨n, hn, rfl⟩

theorem flatten_singletons (w : List Nat) : (w.map (fun x => [x])).flatten = w := by
  induction w with
  | nil => rfl
  | cons a r ih => simp [ih]

theorem rep_singletons (S : List Nat) (mi : Nat) (ma : Option Nat) (w : List Nat) :
    Rep (fun u => ∃ n ∈ S, u = [n]) mi ma w ↔ (∀ x ∈ w, x ∈ S) ∧ mi ≤ w.length ∧ leMax w.length ma = true := by
  constructor
  · rintro ⟨ws, hl, hmax, hL, rfl⟩
    have hlen : ws.flatten.length = ws.length := by
      clear hl hmax
      induction ws with
      | nil => rfl
      | cons u r ih =>
        obtain ⟨n, _, rfl⟩ := hL u (by simp)
        simp [ih (fun v hv => hL v (by simp [hv]))]
    refine ⟨?_, by omega, ?_⟩
    · intro x hx
      obtain ⟨u, hu, hxu⟩ := List.mem_flatten.1 hx
      obtain ⟨n, hn, rfl⟩ := hL u hu
      simp at hxu; subst hxu; exact hn
    · cases ma with
      | none => rfl
      | some m => simp [leMax, hlen]; exact hmax m rfl
  · rintro ⟨hS, hmi, hma⟩
    refine ⟨w.map (fun x => [x]), by simpa using hmi, ?_, ?_, (flatten_singletons w).symm⟩
    · intro m hm; subst hm; simpa [leMax] using hma
    · intro u hu
      obtain ⟨x, hx, rfl⟩ := List.mem_map.1 hu
      exact ⟨x, hS x hx, rfl⟩

theorem lang_rootChoice {mi : Nat} {ma : Option Nat} {ps : List Particle} (h : ps.all isUnitLeaf = true)
    (w : List Nat) :
    (Particle.choice mi ma ps).Lang w ↔
      (∀ x ∈ w, x ∈ Particle.leavesL ps) ∧ mi ≤ w.length ∧ leMax w.length ma = true := by
  simp only [Particle.Lang]
  rw [← rep_singletons]
  constructor
  · rintro ⟨ws, h1, h2, h3, h4⟩
    exact ⟨ws, h1, h2, fun u hu => (langAlt_unit ps h u).1 (h3 u hu), h4⟩
  · rintro ⟨ws, h1, h2, h3, h4⟩
    exact ⟨ws, h1, h2, fun u hu => (langAlt_unit ps h u).2 (h3 u hu), h4⟩

end Msimple

namespace Msimple

/-! ### strict runs (every operation must succeed) and add-only histories -/
def runE (p : Particle) : Kids → List Op → Except Err Kids
  | k, [] => .ok k
  | k, op :: r => match step p k op with
    | .ok k' => runE p k' r
    | .error e => .error e

/-- supplying the children `w` one at a time, with ids `start, start+1, …` -/
def addOps : Nat → List Nat → List Op
  | _, [] => []
  | i, n :: w => .add i n none :: addOps (i + 1) w

def zipIds : Nat → List Nat → Kids
  | _, [] => []
  | i, n :: w => (i, n) :: zipIds (i + 1) w

theorem names_zipIds (i : Nat) (w : List Nat) : names (zipIds i w) = w := by
  induction w generalizing i with
  | nil => rfl
  | cons n w ih => simp [zipIds, names] at ih ⊢; exact ih (i + 1)

theorem ids_zipIds (i : Nat) (w : List Nat) : ids (zipIds i w) = List.range' i w.length := by
  induction w generalizing i with
  | nil => rfl
  | cons n w ih => simp [zipIds, ids, List.range'] at ih ⊢; exact ih (i + 1)

theorem cnt_names_append (a : Kids) (w : List Nat) (i n : Nat) :
    count (a ++ zipIds i w) n = count a n + w.count n := by
  simp [count, names_append, names_zipIds, List.count_append]

/-- Flat: any children whose total counts respect every maxOccurs are all accepted, in any order -/
theorem runE_adds_flat (p : Particle) (hf : isFlat p = true) (acc : Kids) (i : Nat) (w : List Nat)
    (hsub : ∀ x ∈ w, x ∈ p.leaves)
    (hmax : ∀ s ∈ p.specs, leMax (count acc s.1 + w.count s.1) s.2.2 = true) :
    runE p acc (addOps i w) = .ok (acc ++ zipIds i w) := by
  have hnd := (isFlat_iff.1 hf).2
  induction w generalizing acc i with
  | nil => simp [runE, addOps, zipIds]
  | cons n w ih =>
    have hn : n ∈ p.leaves := hsub n (by simp)
    rw [← Particle.specs_names] at hn
    obtain ⟨s, hs, rfl⟩ := List.mem_map.1 hn
    have hm := hmax s hs
    have hstep : step p acc (.add i s.1 none) = .ok (acc ++ [(i, s.1)]) := by
      simp only [step, add, hf, if_true, maxOf_of_mem hnd hs, fwdOk, Bool.not_true, Bool.false_eq_true, if_false]
      have : leMax (count acc s.1 + 1) s.2.2 = true := by
        apply leMax_mono _ hm
        simp [List.count_cons]
      simp [this]
    simp only [addOps, runE, hstep, zipIds]
    have := ih (acc ++ [(i, s.1)]) (i + 1) (fun x hx => hsub x (by simp [hx])) (by
      intro t ht
      have := hmax t ht
      rw [count_append_one]
      simp only [List.count_cons] at this
      by_cases h : s.1 = t.1
      · simp only [h, if_true, beq_self_eq_true] at this ⊢; simpa [Nat.add_assoc, Nat.add_comm 1] using this
      · have h' : (s.1 == t.1) = false := by simpa using h
        simp only [h, if_false, h'] at this ⊢; simpa using this)
    simpa using this

theorem runE_adds_choice_unbounded (mi : Nat) (ps : List Particle) (acc : Kids) (i : Nat) (w : List Nat)
    (hsub : ∀ x ∈ w, x ∈ Particle.leavesL ps) :
    runE (.choice mi none ps) acc (addOps i w) = .ok (acc ++ zipIds i w) := by
  induction w generalizing acc i with
  | nil => simp [runE, addOps, zipIds]
  | cons n w ih =>
    have hn : n ∈ Particle.leavesL ps := hsub n (by simp)
    have hstep : step (.choice mi none ps) acc (.add i n none) = .ok (acc ++ [(i, n)]) := by
      simp [step, add, flat_not_choice, Particle.leaves, hn, fwdOk]
    simp only [addOps, runE, hstep, zipIds]
    have := ih (acc ++ [(i, n)]) (i + 1) (fun x hx => hsub x (by simp [hx]))
    simpa using this

end Msimple

namespace Msimple

/-! ### re-adding the children of a state rebuilds the state -/
def addOpsK (k : Kids) : List Op := k.map (fun c => .add c.1 c.2 none)

theorem runE_addsK_flat (p : Particle) (hf : isFlat p = true) (acc k : Kids)
    (hsub : ∀ c ∈ k, c.2 ∈ p.leaves)
    (hmax : ∀ s ∈ p.specs, leMax (count acc s.1 + count k s.1) s.2.2 = true) :
    runE p acc (addOpsK k) = .ok (acc ++ k) := by
  have hnd := (isFlat_iff.1 hf).2
  induction k generalizing acc with
  | nil => simp [runE, addOpsK]
  | cons c k ih =>
    have hn : c.2 ∈ p.leaves := hsub c (by simp)
    rw [← Particle.specs_names] at hn
    obtain ⟨s, hs, hsc⟩ := List.mem_map.1 hn
    have hm := hmax s hs
    have hstep : step p acc (.add c.1 c.2 none) = .ok (acc ++ [c]) := by
      rw [← hsc]
      simp only [step, add, hf, if_true, maxOf_of_mem hnd hs, fwdOk, Bool.not_true, Bool.false_eq_true, if_false]
      have : leMax (count acc s.1 + 1) s.2.2 = true := by
        apply leMax_mono _ hm
        simp [count, names, hsc]
      rw [if_pos this, hsc]
    simp only [addOpsK, List.map_cons, runE, hstep]
    have := ih (acc ++ [c]) (fun x hx => hsub x (by simp [hx])) (by
      intro t ht
      have := hmax t ht
      have e1 : count (acc ++ [c]) t.1 = count acc t.1 + (if c.2 = t.1 then 1 else 0) := by
        have := count_append_one acc c.1 c.2 t.1; simpa using this
      have e2 : count (c :: k) t.1 = (if c.2 = t.1 then 1 else 0) + count k t.1 := by
        simp only [count, names, List.map_cons, List.count_cons]
        by_cases h : c.2 = t.1 <;> simp [h, Nat.add_comm]
      rw [e1]; rw [e2] at this
      by_cases h : c.2 = t.1 <;> simp only [h, if_true, if_false] at this ⊢ <;>
        simpa [Nat.add_assoc] using this)
    simpa [addOpsK] using this

theorem count_le_of_split (a b : Kids) (n : Nat) : count (a ++ b) n = count a n + count b n := by
  simp [count, names_append, List.count_append]

end Msimple

namespace Msimple

/-! ### completion of a Flat state: add the missing required leaves of every active scope -/
mutual
def need (c : Nat → Nat) : Particle → List Nat
  | .elem n mi _ => List.replicate (mi - c n) n
  | .seq mi _ ps => if mi == 0 && Particle.empL c ps then [] else needL c ps
  | .choice _ _ _ => []
  | .group _ mi _ p => if mi == 0 && p.emp c then [] else need c p
def needL (c : Nat → Nat) : List Particle → List Nat
  | [] => []
  | p :: ps => need c p ++ needL c ps
end

mutual
theorem need_subset (c : Nat → Nat) : (p : Particle) → ∀ x ∈ need c p, x ∈ p.leaves
  | .elem n mi ma => by
    intro x hx; simp only [need] at hx
    simp [Particle.leaves, (List.mem_replicate.1 hx).2]
  | .seq mi ma ps => by
    intro x hx; simp only [need] at hx
    split at hx
    · cases hx
    · simpa [Particle.leaves] using needL_subset c ps x hx
  | .choice _ _ _ => by intro x hx; simp [need] at hx
  | .group _ mi ma p => by
    intro x hx; simp only [need] at hx
    split at hx
    · cases hx
    · simpa [Particle.leaves] using need_subset c p x hx
theorem needL_subset (c : Nat → Nat) : (ps : List Particle) → ∀ x ∈ needL c ps, x ∈ Particle.leavesL ps
  | [] => by intro x hx; simp [needL] at hx
  | p :: ps => by
    intro x hx
    simp only [needL, List.mem_append] at hx
    simp only [Particle.leavesL, List.mem_append]
    rcases hx with h | h
    · exact .inl (need_subset c p x h)
    · exact .inr (needL_subset c ps x h)
end

theorem count_zero_of_not_leaf {c : Nat → Nat} {p : Particle} {n : Nat} (h : n ∉ p.leaves) : (need c p).count n = 0 :=
  List.count_eq_zero.2 fun hx => h (need_subset c p n hx)
theorem countL_zero_of_not_leaf {c : Nat → Nat} {ps : List Particle} {n : Nat} (h : n ∉ Particle.leavesL ps) :
    (needL c ps).count n = 0 :=
  List.count_eq_zero.2 fun hx => h (needL_subset c ps n hx)

-- after adding `need`, nothing is missing any more: stated for any count function `d` that
-- agrees with `c + count (need …)` on the leaves of the particle
mutual
theorem missing_after_need (c d : Nat → Nat) : (p : Particle) → p.flat = true → p.leaves.Nodup →
    (∀ n ∈ p.leaves, d n = c n + (need c p).count n) → missing d p = []
  | .elem n mi ma, _, _, hd => by
    have := hd n (by simp [Particle.leaves])
    simp only [need, List.count_replicate_self] at this
    simp only [missing]
    split
    · rename_i hlt; omega
    · rfl
  | .seq mi ma ps, hf, hnd, hd => by
    simp only [Particle.flat, Bool.and_eq_true] at hf
    simp only [Particle.leaves] at hnd hd
    simp only [missing]
    by_cases hc : (mi == 0 && Particle.empL c ps) = true
    · have hdc : ∀ n ∈ Particle.leavesL ps, d n = c n := by
        intro n hn; have := hd n hn; simpa [need, hc] using this
      have : Particle.empL d ps = Particle.empL c ps := Particle.empL_congr d c ps hdc
      simp only [Bool.and_eq_true] at hc
      simp [hc.1, this, hc.2]
    · have hd' : ∀ n ∈ Particle.leavesL ps, d n = c n + (needL c ps).count n := by
        intro n hn; have := hd n hn; simpa [need, hc] using this
      have := missingL_after_need c d ps hf.2 hnd hd'
      split
      · rfl
      · exact this
  | .choice _ _ _, hf, _, _ => by simp [Particle.flat] at hf
  | .group g mi ma p, hf, hnd, hd => by
    simp only [Particle.flat, Bool.and_eq_true] at hf
    simp only [Particle.leaves] at hnd hd
    simp only [missing]
    by_cases hc : (mi == 0 && p.emp c) = true
    · have hdc : ∀ n ∈ p.leaves, d n = c n := by
        intro n hn; have := hd n hn; simpa [need, hc] using this
      have : p.emp d = p.emp c := Particle.emp_congr d c p hdc
      simp only [Bool.and_eq_true] at hc
      simp [hc.1, this, hc.2]
    · have hd' : ∀ n ∈ p.leaves, d n = c n + (need c p).count n := by
        intro n hn; have := hd n hn; simpa [need, hc] using this
      have := missing_after_need c d p hf.2 hnd hd'
      split
      · rfl
      · exact this
theorem missingL_after_need (c d : Nat → Nat) : (ps : List Particle) → Particle.flatL ps = true →
    (Particle.leavesL ps).Nodup → (∀ n ∈ Particle.leavesL ps, d n = c n + (needL c ps).count n) →
    missingL d ps = []
  | [], _, _, _ => rfl
  | p :: ps, hf, hnd, hd => by
    simp only [Particle.flatL, Bool.and_eq_true] at hf
    simp only [Particle.leavesL, List.nodup_append] at hnd
    obtain ⟨hn1, hn2, hdisj⟩ := hnd
    have h1 : ∀ n ∈ p.leaves, d n = c n + (need c p).count n := by
      intro n hn
      have := hd n (by simp [Particle.leavesL, hn])
      have hz : (needL c ps).count n = 0 := countL_zero_of_not_leaf (fun h => hdisj n hn n h rfl)
      simpa [needL, List.count_append, hz] using this
    have h2 : ∀ n ∈ Particle.leavesL ps, d n = c n + (needL c ps).count n := by
      intro n hn
      have := hd n (by simp [Particle.leavesL, hn])
      have hz : (need c p).count n = 0 := count_zero_of_not_leaf (fun h => hdisj n h n hn rfl)
      simpa [needL, List.count_append, hz] using this
    simp [missingL, missing_after_need c d p hf.1 hn1 h1, missingL_after_need c d ps hf.2 hn2 h2]
end

-- the completion never asks for more than a leaf's minimum
mutual
theorem need_count_le (c : Nat → Nat) : (p : Particle) → p.leaves.Nodup →
    ∀ s ∈ p.specs, (need c p).count s.1 ≤ s.2.1 - c s.1
  | .elem n mi ma, _ => by
    intro s hs; simp [Particle.specs] at hs; subst hs; simp [need]
  | .seq mi ma ps, hnd => by
    intro s hs
    simp only [need]
    split
    · simp
    · exact needL_count_le c ps (by simpa [Particle.leaves] using hnd) s (by simpa [Particle.specs] using hs)
  | .choice _ _ _, _ => by intro s _; simp [need]
  | .group _ mi ma p, hnd => by
    intro s hs
    simp only [need]
    split
    · simp
    · exact need_count_le c p (by simpa [Particle.leaves] using hnd) s (by simpa [Particle.specs] using hs)
theorem needL_count_le (c : Nat → Nat) : (ps : List Particle) → (Particle.leavesL ps).Nodup →
    ∀ s ∈ Particle.specsL ps, (needL c ps).count s.1 ≤ s.2.1 - c s.1
  | [], _ => by intro s hs; simp [Particle.specsL] at hs
  | p :: ps, hnd => by
    simp only [Particle.leavesL, List.nodup_append] at hnd
    obtain ⟨hn1, hn2, hdisj⟩ := hnd
    intro s hs
    simp only [Particle.specsL, List.mem_append] at hs
    simp only [needL, List.count_append]
    rcases hs with hs | hs
    · have hl : s.1 ∈ p.leaves := mem_leaves_of_spec hs
      have hz : (needL c ps).count s.1 = 0 := countL_zero_of_not_leaf (fun h => hdisj s.1 hl s.1 h rfl)
      rw [hz, Nat.add_zero]; exact need_count_le c p hn1 s hs
    · have hl : s.1 ∈ Particle.leavesL ps := by
        rw [← Particle.specsL_names]; exact List.mem_map_of_mem (f := (·.1)) hs
      have hz : (need c p).count s.1 = 0 := count_zero_of_not_leaf (fun h => hdisj s.1 h s.1 hl rfl)
      rw [hz, Nat.zero_add]; exact needL_count_le c ps hn2 s hs
end

end Msimple
