import MxV.Core.Particle
/-! Decidable, structural language inclusion between particles (`sub`), sound for `Lang`.
    `sub p q = true` demands the same shape except that the branches of a `choice` may be
    listed in any order (each branch of `p` must be included in some branch of `q`).
    `sub p q && sub q p` is the relation the C03 table theorem `templates_equiv` decides. -/

def optLe : Option Nat → Option Nat → Bool
  | _, none => true
  | none, some _ => false
  | some a, some b => decide (a ≤ b)

mutual
def Particle.sub : Particle → Particle → Bool
  | .elem n mi ma, q =>
    match q with
    | .elem n' mi' ma' => n == n' && decide (mi' ≤ mi) && optLe ma ma'
    | _ => false
  | .seq mi ma ps, q =>
    match q with
    | .seq mi' ma' qs => decide (mi' ≤ mi) && optLe ma ma' && Particle.subSeq ps qs
    | _ => false
  | .choice mi ma ps, q =>
    match q with
    | .choice mi' ma' qs => decide (mi' ≤ mi) && optLe ma ma' && Particle.subAlt ps qs
    | _ => false
  | .group _ mi ma p, q =>
    match q with
    | .group _ mi' ma' p' => decide (mi' ≤ mi) && optLe ma ma' && Particle.sub p p'
    | _ => false
def Particle.subSeq : List Particle → List Particle → Bool
  | [], qs => qs.isEmpty
  | p :: ps, qs =>
    match qs with
    | [] => false
    | q :: qs' => Particle.sub p q && Particle.subSeq ps qs'
def Particle.subAlt : List Particle → List Particle → Bool
  | [], _ => true
  | p :: ps, qs => qs.any (fun q => Particle.sub p q) && Particle.subAlt ps qs
end

theorem Rep_mono {L L' : List Nat → Prop} {mi mi' : Nat} {ma ma' : Option Nat} {w : List Nat}
    (hL : ∀ u, L u → L' u) (hmi : mi' ≤ mi) (hma : optLe ma ma' = true) (h : Rep L mi ma w) :
    Rep L' mi' ma' w := by
  obtain ⟨ws, hl, hmax, hws, rfl⟩ := h
  refine ⟨ws, Nat.le_trans hmi hl, ?_, fun u hu => hL u (hws u hu), rfl⟩
  intro m hm; subst hm
  cases ma with
  | none => simp [optLe] at hma
  | some a =>
    simp only [optLe, decide_eq_true_eq] at hma
    exact Nat.le_trans (hmax a rfl) hma

theorem LangAlt_iff (ps : List Particle) (w : List Nat) :
    Particle.LangAlt ps w ↔ ∃ p ∈ ps, p.Lang w := by
  induction ps with
  | nil => simp [Particle.LangAlt]
  | cons p ps ih => simp [Particle.LangAlt, ih]

mutual
theorem Particle.sub_sound : (p q : Particle) → p.sub q = true → ∀ w, p.Lang w → q.Lang w
  | .elem n mi ma, q, h => by
    cases q with
    | elem n' mi' ma' =>
      simp only [Particle.sub, Bool.and_eq_true, beq_iff_eq, decide_eq_true_eq] at h
      obtain ⟨⟨rfl, hmi⟩, hma⟩ := h
      intro w hw; simp only [Particle.Lang] at hw ⊢
      exact Rep_mono (fun _ hu => hu) hmi hma hw
    | seq _ _ _ => simp [Particle.sub] at h
    | choice _ _ _ => simp [Particle.sub] at h
    | group _ _ _ _ => simp [Particle.sub] at h
  | .seq mi ma ps, q, h => by
    cases q with
    | seq mi' ma' qs =>
      simp only [Particle.sub, Bool.and_eq_true, decide_eq_true_eq] at h
      obtain ⟨⟨hmi, hma⟩, hs⟩ := h
      intro w hw; simp only [Particle.Lang] at hw ⊢
      exact Rep_mono (Particle.subSeq_sound ps qs hs) hmi hma hw
    | elem _ _ _ => simp [Particle.sub] at h
    | choice _ _ _ => simp [Particle.sub] at h
    | group _ _ _ _ => simp [Particle.sub] at h
  | .choice mi ma ps, q, h => by
    cases q with
    | choice mi' ma' qs =>
      simp only [Particle.sub, Bool.and_eq_true, decide_eq_true_eq] at h
      obtain ⟨⟨hmi, hma⟩, hs⟩ := h
      intro w hw; simp only [Particle.Lang] at hw ⊢
      exact Rep_mono (Particle.subAlt_sound ps qs hs) hmi hma hw
    | elem _ _ _ => simp [Particle.sub] at h
    | seq _ _ _ => simp [Particle.sub] at h
    | group _ _ _ _ => simp [Particle.sub] at h
  | .group g mi ma p, q, h => by
    cases q with
    | group g' mi' ma' p' =>
      simp only [Particle.sub, Bool.and_eq_true, decide_eq_true_eq] at h
      obtain ⟨⟨hmi, hma⟩, hs⟩ := h
      intro w hw; simp only [Particle.Lang] at hw ⊢
      exact Rep_mono (Particle.sub_sound p p' hs) hmi hma hw
    | elem _ _ _ => simp [Particle.sub] at h
    | seq _ _ _ => simp [Particle.sub] at h
    | choice _ _ _ => simp [Particle.sub] at h
theorem Particle.subSeq_sound : (ps qs : List Particle) → Particle.subSeq ps qs = true →
    ∀ w, Particle.LangSeq ps w → Particle.LangSeq qs w
  | [], qs, h => by
    cases qs with
    | nil => intro w hw; exact hw
    | cons _ _ => simp [Particle.subSeq] at h
  | p :: ps, qs, h => by
    cases qs with
    | nil => simp [Particle.subSeq] at h
    | cons q qs' =>
      simp only [Particle.subSeq, Bool.and_eq_true] at h
      intro w hw
      simp only [Particle.LangSeq] at hw ⊢
      obtain ⟨u, v, rfl, hu, hv⟩ := hw
      exact ⟨u, v, rfl, Particle.sub_sound p q h.1 u hu, Particle.subSeq_sound ps qs' h.2 v hv⟩
theorem Particle.subAlt_sound : (ps qs : List Particle) → Particle.subAlt ps qs = true →
    ∀ w, Particle.LangAlt ps w → Particle.LangAlt qs w
  | [], _, _ => by intro w hw; simp [Particle.LangAlt] at hw
  | p :: ps, qs, h => by
    simp only [Particle.subAlt, Bool.and_eq_true, List.any_eq_true] at h
    obtain ⟨⟨q, hq, hpq⟩, hrest⟩ := h
    intro w hw
    simp only [Particle.LangAlt] at hw
    rcases hw with hw | hw
    · exact (LangAlt_iff qs w).2 ⟨q, hq, Particle.sub_sound p q hpq w hw⟩
    · exact Particle.subAlt_sound ps qs hrest w hw
end

/-- the relation decided over the regenerated tables -/
def Particle.equivB (p q : Particle) : Bool := p.sub q && q.sub p

theorem Particle.equivB_sound {p q : Particle} (h : p.equivB q = true) (w : List Nat) :
    p.Lang w ↔ q.Lang w := by
  simp only [Particle.equivB, Bool.and_eq_true] at h
  exact ⟨Particle.sub_sound p q h.1 w, Particle.sub_sound q p h.2 w⟩

-- structural equality (used for "per-instance copy = process-wide template")
mutual
def Particle.beq : Particle → Particle → Bool
  | .elem n mi ma, q => match q with
    | .elem n' mi' ma' => n == n' && mi == mi' && ma == ma'
    | _ => false
  | .seq mi ma ps, q => match q with
    | .seq mi' ma' qs => mi == mi' && ma == ma' && Particle.beqL ps qs
    | _ => false
  | .choice mi ma ps, q => match q with
    | .choice mi' ma' qs => mi == mi' && ma == ma' && Particle.beqL ps qs
    | _ => false
  | .group g mi ma p, q => match q with
    | .group g' mi' ma' p' => g == g' && mi == mi' && ma == ma' && Particle.beq p p'
    | _ => false
def Particle.beqL : List Particle → List Particle → Bool
  | [], qs => qs.isEmpty
  | p :: ps, qs => match qs with
    | [] => false
    | q :: qs' => Particle.beq p q && Particle.beqL ps qs'
end

mutual
theorem Particle.beq_eq : (p q : Particle) → p.beq q = true → p = q
  | .elem n mi ma, q, h => by
    cases q <;> simp_all [Particle.beq]
  | .seq mi ma ps, q, h => by
    cases q with
    | seq mi' ma' qs =>
      simp only [Particle.beq, Bool.and_eq_true, beq_iff_eq] at h
      obtain ⟨⟨rfl, rfl⟩, hl⟩ := h
      rw [Particle.beqL_eq ps qs hl]
    | _ => simp [Particle.beq] at h
  | .choice mi ma ps, q, h => by
    cases q with
    | choice mi' ma' qs =>
      simp only [Particle.beq, Bool.and_eq_true, beq_iff_eq] at h
      obtain ⟨⟨rfl, rfl⟩, hl⟩ := h
      rw [Particle.beqL_eq ps qs hl]
    | _ => simp [Particle.beq] at h
  | .group g mi ma p, q, h => by
    cases q with
    | group g' mi' ma' p' =>
      simp only [Particle.beq, Bool.and_eq_true, beq_iff_eq] at h
      obtain ⟨⟨⟨rfl, rfl⟩, rfl⟩, hl⟩ := h
      rw [Particle.beq_eq p p' hl]
    | _ => simp [Particle.beq] at h
theorem Particle.beqL_eq : (ps qs : List Particle) → Particle.beqL ps qs = true → ps = qs
  | [], qs, h => by cases qs <;> simp_all [Particle.beqL]
  | p :: ps, qs, h => by
    cases qs with
    | nil => simp [Particle.beqL] at h
    | cons q qs' =>
      simp only [Particle.beqL, Bool.and_eq_true] at h
      rw [Particle.beq_eq p q h.1, Particle.beqL_eq ps qs' h.2]
end
