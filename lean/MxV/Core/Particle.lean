import MxV.Core.RE
/-! feasibility: XSD particles, denotational language, expansion to RE, correctness -/
open RE

inductive Particle where
  | elem   (name : Nat) (min : Nat) (max : Option Nat)
  | seq    (min : Nat) (max : Option Nat) (ps : List Particle)
  | choice (min : Nat) (max : Option Nat) (ps : List Particle)
  | group  (g : Nat) (min : Nat) (max : Option Nat) (p : Particle)

def Rep (L : List Nat → Prop) (min : Nat) (max : Option Nat) (w : List Nat) : Prop :=
  ∃ ws : List (List Nat), min ≤ ws.length ∧ (∀ m, max = some m → ws.length ≤ m) ∧
    (∀ u ∈ ws, L u) ∧ w = ws.flatten

mutual
def Particle.Lang : Particle → List Nat → Prop
  | .elem n mi ma => Rep (fun u => u = [n]) mi ma
  | .seq mi ma ps => Rep (Particle.LangSeq ps) mi ma
  | .choice mi ma ps => Rep (Particle.LangAlt ps) mi ma
  | .group _ mi ma p => Rep p.Lang mi ma
def Particle.LangSeq : List Particle → List Nat → Prop
  | [] => fun w => w = []
  | p :: ps => fun w => ∃ u v, w = u ++ v ∧ p.Lang u ∧ Particle.LangSeq ps v
def Particle.LangAlt : List Particle → List Nat → Prop
  | [] => fun _ => False
  | p :: ps => fun w => p.Lang w ∨ Particle.LangAlt ps w
end

def repN (r : RE Nat) : Nat → RE Nat
  | 0 => .eps
  | n+1 => .cat r (repN r n)
def optN (r : RE Nat) : Nat → RE Nat
  | 0 => .eps
  | n+1 => .alt .eps (.cat r (optN r n))
def occ (r : RE Nat) (mi : Nat) : Option Nat → RE Nat
  | none => .cat (repN r mi) (.star r)
  | some ma => if mi ≤ ma then .cat (repN r mi) (optN r (ma - mi)) else .zero

mutual
def Particle.toRE : Particle → RE Nat
  | .elem n mi ma => occ (.atom (· == n)) mi ma
  | .seq mi ma ps => occ (Particle.seqRE ps) mi ma
  | .choice mi ma ps => occ (Particle.altRE ps) mi ma
  | .group _ mi ma p => occ p.toRE mi ma
def Particle.seqRE : List Particle → RE Nat
  | [] => .eps
  | p :: ps => .cat p.toRE (Particle.seqRE ps)
def Particle.altRE : List Particle → RE Nat
  | [] => .zero
  | p :: ps => .alt p.toRE (Particle.altRE ps)
end

section occ
variable {r : RE Nat} {L : List Nat → Prop} (h : ∀ u, Matches r u ↔ L u)
include h

theorem repN_iff (n : Nat) (w : List Nat) :
    Matches (repN r n) w ↔ ∃ ws : List (List Nat), ws.length = n ∧ (∀ u ∈ ws, L u) ∧ w = ws.flatten := by
  induction n generalizing w with
  | zero =>
    simp only [repN]; constructor
    · intro hm; cases hm; exact ⟨[], rfl, by simp, rfl⟩
    · rintro ⟨ws, hl, _, rfl⟩
      have : ws = [] := List.length_eq_zero_iff.mp hl
      subst this; exact .eps
  | succ n ih =>
    simp only [repN]; constructor
    · intro hm; cases hm with
      | cat h1 h2 =>
        obtain ⟨ws, hl, hL, rfl⟩ := (ih _).1 h2
        exact ⟨_ :: ws, by simp [hl], by
          intro u hu; rcases List.mem_cons.1 hu with rfl | hu
          · exact (h _).1 h1
          · exact hL _ hu, by simp⟩
    · rintro ⟨ws, hl, hL, rfl⟩
      cases ws with
      | nil => simp at hl
      | cons u ws =>
        simp only [List.flatten_cons]
        exact .cat ((h _).2 (hL _ (by simp))) ((ih _).2 ⟨ws, by simpa using hl, fun v hv => hL _ (by simp [hv]), rfl⟩)

theorem optN_iff (n : Nat) (w : List Nat) :
    Matches (optN r n) w ↔ ∃ ws : List (List Nat), ws.length ≤ n ∧ (∀ u ∈ ws, L u) ∧ w = ws.flatten := by
  induction n generalizing w with
  | zero =>
    simp only [optN]; constructor
    · intro hm; cases hm; exact ⟨[], by simp, by simp, rfl⟩
    · rintro ⟨ws, hl, _, rfl⟩
      have : ws = [] := List.length_eq_zero_iff.mp (Nat.le_zero.mp hl)
      subst this; exact .eps
  | succ n ih =>
    simp only [optN]; constructor
    · intro hm; cases hm with
      | altL h0 => cases h0; exact ⟨[], by simp, by simp, rfl⟩
      | altR h1 =>
        cases h1 with
        | cat h1 h2 =>
          obtain ⟨ws, hl, hL, rfl⟩ := (ih _).1 h2
          exact ⟨_ :: ws, by simp; omega, by
            intro u hu; rcases List.mem_cons.1 hu with rfl | hu
            · exact (h _).1 h1
            · exact hL _ hu, by simp⟩
    · rintro ⟨ws, hl, hL, rfl⟩
      cases ws with
      | nil => exact .altL .eps
      | cons u ws =>
        simp only [List.flatten_cons]
        exact .altR (.cat ((h _).2 (hL _ (by simp))) ((ih _).2 ⟨ws, by simp at hl; omega, fun v hv => hL _ (by simp [hv]), rfl⟩))

theorem star_iff (w : List Nat) :
    Matches (.star r) w ↔ ∃ ws : List (List Nat), (∀ u ∈ ws, L u) ∧ w = ws.flatten := by
  constructor
  · intro hm
    generalize hs : RE.star r = s at hm
    induction hm with
    | eps | atom _ | altL _ | altR _ | cat _ _ => cases hs
    | starNil => exact ⟨[], by simp, rfl⟩
    | @starCons r' u v h1 _ _ ih2 =>
      cases hs
      obtain ⟨ws, hL, rfl⟩ := ih2 rfl
      exact ⟨u :: ws, by
        intro x hx; rcases List.mem_cons.1 hx with rfl | hx
        · exact (h _).1 h1
        · exact hL _ hx, by simp⟩
  · rintro ⟨ws, hL, rfl⟩
    induction ws with
    | nil => exact .starNil
    | cons u ws ih =>
      simp only [List.flatten_cons]
      exact .starCons ((h _).2 (hL _ (by simp))) (ih (fun v hv => hL _ (by simp [hv])))

theorem occ_iff (mi : Nat) (ma : Option Nat) (w : List Nat) :
    Matches (occ r mi ma) w ↔ Rep L mi ma w := by
  cases ma with
  | none =>
    simp only [occ, Rep]; constructor
    · intro hm; cases hm with
      | cat h1 h2 =>
        obtain ⟨ws1, hl1, hL1, rfl⟩ := (repN_iff h _ _).1 h1
        obtain ⟨ws2, hL2, rfl⟩ := (star_iff h _).1 h2
        refine ⟨ws1 ++ ws2, by simp; omega, by simp, ?_, by simp⟩
        intro u hu; rcases List.mem_append.1 hu with hu | hu
        · exact hL1 _ hu
        · exact hL2 _ hu
    · rintro ⟨ws, hl, _, hL, rfl⟩
      have : ws = ws.take mi ++ ws.drop mi := (List.take_append_drop mi ws).symm
      rw [this, List.flatten_append]
      exact .cat ((repN_iff h _ _).2 ⟨_, by simp; omega, fun u hu => hL _ (List.mem_of_mem_take hu), rfl⟩)
        ((star_iff h _).2 ⟨_, fun u hu => hL _ (List.mem_of_mem_drop hu), rfl⟩)
  | some ma =>
    simp only [occ, Rep]; split
    · rename_i hle
      constructor
      · intro hm; cases hm with
        | cat h1 h2 =>
          obtain ⟨ws1, hl1, hL1, rfl⟩ := (repN_iff h _ _).1 h1
          obtain ⟨ws2, hl2, hL2, rfl⟩ := (optN_iff h _ _).1 h2
          refine ⟨ws1 ++ ws2, by simp; omega, by intro m hm; cases hm; simp; omega, ?_, by simp⟩
          intro u hu; rcases List.mem_append.1 hu with hu | hu
          · exact hL1 _ hu
          · exact hL2 _ hu
      · rintro ⟨ws, hl, hmax, hL, rfl⟩
        have hm := hmax ma rfl
        have : ws = ws.take mi ++ ws.drop mi := (List.take_append_drop mi ws).symm
        rw [this, List.flatten_append]
        exact .cat ((repN_iff h _ _).2 ⟨_, by simp; omega, fun u hu => hL _ (List.mem_of_mem_take hu), rfl⟩)
          ((optN_iff h _ _).2 ⟨_, by simp; omega, fun u hu => hL _ (List.mem_of_mem_drop hu), rfl⟩)
    · rename_i hle
      constructor
      · intro hm; cases hm
      · rintro ⟨ws, hl, hmax, _, _⟩
        have := hmax ma rfl; omega
end occ

mutual
theorem Particle.toRE_iff : (p : Particle) → (w : List Nat) → (Matches p.toRE w ↔ p.Lang w)
  | .elem n mi ma, w => by
    simp only [Particle.toRE, Particle.Lang]
    apply occ_iff
    intro u; constructor
    · intro hm; cases hm with
      | atom hp => simp at hp; simp [hp]
    · rintro rfl; exact .atom (by simp)
  | .seq mi ma ps, w => by
    simp only [Particle.toRE, Particle.Lang]
    exact occ_iff (Particle.seqRE_iff ps) mi ma w
  | .choice mi ma ps, w => by
    simp only [Particle.toRE, Particle.Lang]
    exact occ_iff (Particle.altRE_iff ps) mi ma w
  | .group _ mi ma p, w => by
    simp only [Particle.toRE, Particle.Lang]
    exact occ_iff (Particle.toRE_iff p) mi ma w
theorem Particle.seqRE_iff : (ps : List Particle) → (w : List Nat) → (Matches (Particle.seqRE ps) w ↔ Particle.LangSeq ps w)
  | [], w => by
    simp only [Particle.seqRE, Particle.LangSeq]; constructor
    · intro hm; cases hm; rfl
    · rintro rfl; exact .eps
  | p :: ps, w => by
    simp only [Particle.seqRE, Particle.LangSeq]; constructor
    · intro hm; cases hm with
      | cat h1 h2 => exact ⟨_, _, rfl, (Particle.toRE_iff p _).1 h1, (Particle.seqRE_iff ps _).1 h2⟩
    · rintro ⟨u, v, rfl, h1, h2⟩
      exact .cat ((Particle.toRE_iff p _).2 h1) ((Particle.seqRE_iff ps _).2 h2)
theorem Particle.altRE_iff : (ps : List Particle) → (w : List Nat) → (Matches (Particle.altRE ps) w ↔ Particle.LangAlt ps w)
  | [], w => by
    simp only [Particle.altRE, Particle.LangAlt]; constructor
    · intro hm; cases hm
    · exact False.elim
  | p :: ps, w => by
    simp only [Particle.altRE, Particle.LangAlt]; constructor
    · intro hm; cases hm with
      | altL h1 => exact .inl ((Particle.toRE_iff p _).1 h1)
      | altR h2 => exact .inr ((Particle.altRE_iff ps _).1 h2)
    · rintro (h1 | h2)
      · exact .altL ((Particle.toRE_iff p _).2 h1)
      · exact .altR ((Particle.altRE_iff ps _).2 h2)
end

def Particle.accepts (p : Particle) (w : List Nat) : Bool := rmatch p.toRE w

theorem Particle.accepts_iff (p : Particle) (w : List Nat) : p.accepts w = true ↔ p.Lang w := by
  simp [Particle.accepts, rmatch_iff, Particle.toRE_iff]

