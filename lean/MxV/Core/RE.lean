/-! feasibility: regex with predicate atoms, Brzozowski derivatives, correctness (core only) -/
inductive RE (α : Type) where
  | zero | eps
  | atom (p : α → Bool)
  | alt (r s : RE α)
  | cat (r s : RE α)
  | star (r : RE α)

namespace RE
variable {α : Type}

inductive Matches : RE α → List α → Prop
  | eps : Matches .eps []
  | atom {p a} : p a = true → Matches (.atom p) [a]
  | altL {r s w} : Matches r w → Matches (.alt r s) w
  | altR {r s w} : Matches s w → Matches (.alt r s) w
  | cat {r s u v} : Matches r u → Matches s v → Matches (.cat r s) (u ++ v)
  | starNil {r} : Matches (.star r) []
  | starCons {r u v} : Matches r u → Matches (.star r) v → Matches (.star r) (u ++ v)

def nullable : RE α → Bool
  | zero => false | eps => true | atom _ => false
  | alt r s => nullable r || nullable s
  | cat r s => nullable r && nullable s
  | star _ => true

def deriv (a : α) : RE α → RE α
  | zero => zero | eps => zero
  | atom p => if p a then eps else zero
  | alt r s => alt (deriv a r) (deriv a s)
  | cat r s => if nullable r then alt (cat (deriv a r) s) (deriv a s) else cat (deriv a r) s
  | star r => cat (deriv a r) (star r)

def rmatch (r : RE α) : List α → Bool
  | [] => nullable r
  | a :: w => rmatch (deriv a r) w

theorem nullable_iff (r : RE α) : nullable r = true ↔ Matches r [] := by
  induction r with
  | zero => simp [nullable]; intro h; cases h
  | eps => simp [nullable]; exact .eps
  | atom p => simp [nullable]; intro h; cases h
  | alt r s ihr ihs =>
    simp [nullable, ihr, ihs]; constructor
    · rintro (h | h); exact .altL h; exact .altR h
    · intro h; cases h with
      | altL h => exact .inl h
      | altR h => exact .inr h
  | cat r s ihr ihs =>
    simp [nullable, ihr, ihs]; constructor
    · rintro ⟨h1, h2⟩; exact (Matches.cat h1 h2)
    · intro h
      generalize hw : ([] : List α) = w at h
      cases h with
      | cat h1 h2 =>
        rename_i u v
        have : u = [] ∧ v = [] := by simpa using hw.symm
        obtain ⟨rfl, rfl⟩ := this
        exact ⟨h1, h2⟩
  | star r _ => simp [nullable]; exact .starNil

theorem star_cons_inv {r : RE α} {a : α} {w : List α} (h : Matches (.star r) (a :: w)) :
    ∃ u v, w = u ++ v ∧ Matches r (a :: u) ∧ Matches (.star r) v := by
  generalize hx : a :: w = x at h
  generalize hs : RE.star r = s at h
  induction h with
  | eps | atom _ | altL _ | altR _ | cat _ _ => cases hs
  | starNil => cases hx
  | @starCons r' u v h1 h2 _ ih2 =>
    cases hs
    cases u with
    | nil => exact ih2 (by simpa using hx) rfl
    | cons b u' =>
      simp only [List.cons_append, List.cons.injEq] at hx; obtain ⟨rfl, rfl⟩ := hx
      exact ⟨u', v, rfl, h1, h2⟩

theorem deriv_iff (r : RE α) (a : α) (w : List α) : Matches (deriv a r) w ↔ Matches r (a :: w) := by
  induction r generalizing w with
  | zero => simp [deriv]; constructor <;> (intro h; cases h)
  | eps => simp [deriv]; constructor <;> (intro h; cases h)
  | atom p =>
    simp only [deriv]; split
    · constructor
      · intro h; cases h; exact .atom ‹_›
      · intro h; cases h; exact .eps
    · constructor
      · intro h; cases h
      · intro h; cases h; contradiction
  | alt r s ihr ihs =>
    simp only [deriv]; constructor
    · intro h; cases h with
      | altL h => exact .altL ((ihr w).1 h)
      | altR h => exact .altR ((ihs w).1 h)
    · intro h; cases h with
      | altL h => exact .altL ((ihr w).2 h)
      | altR h => exact .altR ((ihs w).2 h)
  | cat r s ihr ihs =>
    have key : Matches (.cat r s) (a :: w) ↔
        (∃ u v, w = u ++ v ∧ Matches r (a :: u) ∧ Matches s v) ∨ (Matches r [] ∧ Matches s (a :: w)) := by
      constructor
      · intro h
        generalize hx : a :: w = x at h
        cases h with
        | cat h1 h2 =>
          rename_i u v
          cases u with
          | nil => simp at hx; subst hx; exact .inr ⟨h1, h2⟩
          | cons b u' => simp at hx; obtain ⟨rfl, rfl⟩ := hx; exact .inl ⟨u', v, rfl, h1, h2⟩
      · rintro (⟨u, v, rfl, h1, h2⟩ | ⟨h1, h2⟩)
        · exact Matches.cat h1 h2
        · exact Matches.cat (u := []) h1 h2
    rw [key]; simp only [deriv]
    have catD : Matches (.cat (deriv a r) s) w ↔ ∃ u v, w = u ++ v ∧ Matches r (a :: u) ∧ Matches s v := by
      constructor
      · intro h; cases h with
        | cat h1 h2 => exact ⟨_, _, rfl, (ihr _).1 h1, h2⟩
      · rintro ⟨u, v, rfl, h1, h2⟩; exact .cat ((ihr _).2 h1) h2
    split
    · rename_i hn
      constructor
      · intro h; cases h with
        | altL h => exact .inl (catD.1 h)
        | altR h => exact .inr ⟨(nullable_iff r).1 hn, (ihs w).1 h⟩
      · rintro (h | ⟨_, h2⟩)
        · exact .altL (catD.2 h)
        · exact .altR ((ihs w).2 h2)
    · rename_i hn
      rw [catD]; constructor
      · exact .inl
      · rintro (h | ⟨h1, _⟩)
        · exact h
        · exact absurd ((nullable_iff r).2 h1) hn
  | star r ih =>
    simp only [deriv]; constructor
    · intro h; cases h with
      | cat h1 h2 => exact Matches.starCons ((ih _).1 h1) h2
    · intro h
      obtain ⟨u, v, rfl, h1, h2⟩ := star_cons_inv h
      exact .cat ((ih _).2 h1) h2

theorem rmatch_iff (r : RE α) (w : List α) : rmatch r w = true ↔ Matches r w := by
  induction w generalizing r with
  | nil => simp [rmatch, nullable_iff]
  | cons a w ih => simp [rmatch, ih, deriv_iff]
end RE
