import MxV.Core.RE
/-! generic counted repetition and character-range atoms for `RE α` (used by the generated
    pattern table) -/
namespace RE
variable {α : Type}
def rep (r : RE α) : Nat → RE α
  | 0 => .eps
  | n + 1 => .cat r (rep r n)
def opt (r : RE α) : Nat → RE α
  | 0 => .eps
  | n + 1 => .alt .eps (.cat r (opt r n))
/-- `r{lo,hi}`; `hi = none` is unbounded -/
def bounded (r : RE α) (lo : Nat) : Option Nat → RE α
  | none => .cat (rep r lo) (.star r)
  | some hi => .cat (rep r lo) (opt r (hi - lo))
def inRanges (l : List (Nat × Nat)) (c : Char) : Bool := l.any fun (lo, hi) => lo ≤ c.val.toNat && c.val.toNat ≤ hi
def cls (l : List (Nat × Nat)) : RE Char := .atom (inRanges l)
def ncls (l : List (Nat × Nat)) : RE Char := .atom (fun c => !inRanges l c)
def seqs : List (RE α) → RE α
  | [] => .eps
  | [r] => r
  | r :: rs => .cat r (seqs rs)
def alts : List (RE α) → RE α
  | [] => .zero
  | [r] => r
  | r :: rs => .alt r (alts rs)
end RE
