import MxV.Core.Flat
/-! leaf specifications (name, min, max) in leaf order, and facts about admissible counts -/

mutual
def Particle.specs : Particle → List (Nat × Nat × Option Nat)
  | .elem n mi ma => [(n, mi, ma)]
  | .seq _ _ ps => Particle.specsL ps
  | .choice _ _ ps => Particle.specsL ps
  | .group _ _ _ p => p.specs
def Particle.specsL : List Particle → List (Nat × Nat × Option Nat)
  | [] => []
  | p :: ps => p.specs ++ Particle.specsL ps
end

mutual
theorem Particle.specs_names : (p : Particle) → p.specs.map (·.1) = p.leaves
  | .elem _ _ _ => rfl
  | .seq _ _ ps => by simpa [Particle.specs, Particle.leaves] using Particle.specsL_names ps
  | .choice _ _ ps => by simpa [Particle.specs, Particle.leaves] using Particle.specsL_names ps
  | .group _ _ _ p => by simpa [Particle.specs, Particle.leaves] using Particle.specs_names p
theorem Particle.specsL_names : (ps : List Particle) → (Particle.specsL ps).map (·.1) = Particle.leavesL ps
  | [] => rfl
  | p :: ps => by simp [Particle.specsL, Particle.leavesL, Particle.specs_names p, Particle.specsL_names ps]
end

theorem leMax_mono {k k' : Nat} {ma : Option Nat} (h : k ≤ k') (h' : leMax k' ma = true) : leMax k ma = true := by
  cases ma with
  | none => rfl
  | some m => simp [leMax] at *; omega

-- admissible counts never exceed a leaf maxOccurs
mutual
theorem Particle.ok_le_max (c : Nat → Nat) : (p : Particle) → p.flat = true → p.ok c = true →
    ∀ s ∈ p.specs, leMax (c s.1) s.2.2 = true
  | .elem n mi ma, _, h => by
    simp only [Particle.ok, Bool.and_eq_true] at h
    intro s hs; simp [Particle.specs] at hs; subst hs; exact h.2
  | .seq mi ma ps, hf, h => by
    simp only [Particle.flat, Bool.and_eq_true] at hf
    simp only [Particle.ok, Bool.or_eq_true, Bool.and_eq_true] at h
    rcases h with ⟨_, he⟩ | h
    · exact Particle.empL_le_max c ps he
    · exact Particle.okL_le_max c ps hf.2 h
  | .choice _ _ _, hf, _ => by simp [Particle.flat] at hf
  | .group _ mi ma p, hf, h => by
    simp only [Particle.flat, Bool.and_eq_true] at hf
    simp only [Particle.ok, Bool.or_eq_true, Bool.and_eq_true] at h
    rcases h with ⟨_, he⟩ | h
    · exact Particle.emp_le_max c p he
    · exact Particle.ok_le_max c p hf.2 h
theorem Particle.okL_le_max (c : Nat → Nat) : (ps : List Particle) → Particle.flatL ps = true → Particle.okL c ps = true →
    ∀ s ∈ Particle.specsL ps, leMax (c s.1) s.2.2 = true
  | [], _, _ => by intro s hs; simp [Particle.specsL] at hs
  | p :: ps, hf, h => by
    simp only [Particle.flatL, Bool.and_eq_true] at hf
    simp only [Particle.okL, Bool.and_eq_true] at h
    intro s hs
    simp only [Particle.specsL, List.mem_append] at hs
    rcases hs with hs | hs
    · exact Particle.ok_le_max c p hf.1 h.1 s hs
    · exact Particle.okL_le_max c ps hf.2 h.2 s hs
theorem Particle.emp_le_max (c : Nat → Nat) : (p : Particle) → p.emp c = true →
    ∀ s ∈ p.specs, leMax (c s.1) s.2.2 = true
  | .elem n mi ma, h => by
    simp only [Particle.emp, beq_iff_eq] at h
    intro s hs; simp [Particle.specs] at hs; subst hs
    simp only [h]; cases ma <;> simp [leMax]
  | .seq _ _ ps, h => Particle.empL_le_max c ps (by simpa [Particle.emp] using h)
  | .choice _ _ ps, h => Particle.empL_le_max c ps (by simpa [Particle.emp] using h)
  | .group _ _ _ p, h => Particle.emp_le_max c p (by simpa [Particle.emp] using h)
theorem Particle.empL_le_max (c : Nat → Nat) : (ps : List Particle) → Particle.empL c ps = true →
    ∀ s ∈ Particle.specsL ps, leMax (c s.1) s.2.2 = true
  | [], _ => by intro s hs; simp [Particle.specsL] at hs
  | p :: ps, h => by
    simp only [Particle.empL, Bool.and_eq_true] at h
    intro s hs
    simp only [Particle.specsL, List.mem_append] at hs
    rcases hs with hs | hs
    · exact Particle.emp_le_max c p h.1 s hs
    · exact Particle.empL_le_max c ps h.2 s hs
end


mutual
theorem Particle.cnt_render (c : Nat → Nat) : (p : Particle) → p.flat = true → p.leaves.Nodup →
    ∀ n ∈ p.leaves, cnt (p.render c) n = c n
  | .elem m _ _, _, _ => by
    intro n hn; simp [Particle.leaves] at hn; subst hn; simp [Particle.render, cnt]
  | .seq _ _ ps, hf, hnd => by
    simp only [Particle.flat, Bool.and_eq_true] at hf
    simpa [Particle.render, Particle.leaves] using
      Particle.cnt_renderL c ps hf.2 (by simpa [Particle.leaves] using hnd)
  | .choice _ _ _, hf, _ => by simp [Particle.flat] at hf
  | .group _ _ _ p, hf, hnd => by
    simp only [Particle.flat, Bool.and_eq_true] at hf
    simpa [Particle.render, Particle.leaves] using
      Particle.cnt_render c p hf.2 (by simpa [Particle.leaves] using hnd)
theorem Particle.cnt_renderL (c : Nat → Nat) : (ps : List Particle) → Particle.flatL ps = true →
    (Particle.leavesL ps).Nodup → ∀ n ∈ Particle.leavesL ps, cnt (Particle.renderL c ps) n = c n
  | [], _, _ => by intro n hn; simp [Particle.leavesL] at hn
  | p :: ps, hf, hnd => by
    simp only [Particle.flatL, Bool.and_eq_true] at hf
    simp only [Particle.leavesL, List.nodup_append] at hnd
    obtain ⟨hn1, hn2, hdisj⟩ := hnd
    intro n hn
    simp only [Particle.leavesL, List.mem_append] at hn
    simp only [Particle.renderL]
    rcases hn with hn | hn
    · rw [cnt_append_left (fun h' => hdisj n hn n (Particle.renderL_subset c ps n h') rfl)]
      exact Particle.cnt_render c p hf.1 hn1 n hn
    · rw [cnt_append_right (fun h' => hdisj n (Particle.render_subset c p n h') n hn rfl)]
      exact Particle.cnt_renderL c ps hf.2 hn2 n hn
end

