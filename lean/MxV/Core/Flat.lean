import MxV.Core.Particle
/-! feasibility: on Flat particles, Lang ⇔ per-leaf counts OK ∧ word is the leaf-ordered rendering -/

def cnt (w : List Nat) : Nat → Nat := fun n => w.count n

mutual
def Particle.leaves : Particle → List Nat
  | .elem n _ _ => [n]
  | .seq _ _ ps => Particle.leavesL ps
  | .choice _ _ ps => Particle.leavesL ps
  | .group _ _ _ p => p.leaves
def Particle.leavesL : List Particle → List Nat
  | [] => []
  | p :: ps => p.leaves ++ Particle.leavesL ps
end

mutual
def Particle.flat : Particle → Bool
  | .elem _ _ _ => true
  | .seq mi ma ps => decide (mi ≤ 1) && (ma == some 1) && Particle.flatL ps
  | .choice _ _ _ => false
  | .group _ mi ma p => decide (mi ≤ 1) && (ma == some 1) && p.flat
def Particle.flatL : List Particle → Bool
  | [] => true
  | p :: ps => p.flat && Particle.flatL ps
end

mutual
def Particle.render (c : Nat → Nat) : Particle → List Nat
  | .elem n _ _ => List.replicate (c n) n
  | .seq _ _ ps => Particle.renderL c ps
  | .choice _ _ _ => []
  | .group _ _ _ p => p.render c
def Particle.renderL (c : Nat → Nat) : List Particle → List Nat
  | [] => []
  | p :: ps => p.render c ++ Particle.renderL c ps
end

mutual
def Particle.emp (c : Nat → Nat) : Particle → Bool
  | .elem n _ _ => c n == 0
  | .seq _ _ ps => Particle.empL c ps
  | .choice _ _ ps => Particle.empL c ps
  | .group _ _ _ p => p.emp c
def Particle.empL (c : Nat → Nat) : List Particle → Bool
  | [] => true
  | p :: ps => p.emp c && Particle.empL c ps
end

def leMax (k : Nat) : Option Nat → Bool
  | none => true
  | some m => decide (k ≤ m)

mutual
def Particle.ok (c : Nat → Nat) : Particle → Bool
  | .elem n mi ma => decide (mi ≤ c n) && leMax (c n) ma
  | .seq mi _ ps => (mi == 0 && Particle.empL c ps) || Particle.okL c ps
  | .choice _ _ _ => false
  | .group _ mi _ p => (mi == 0 && p.emp c) || p.ok c
def Particle.okL (c : Nat → Nat) : List Particle → Bool
  | [] => true
  | p :: ps => p.ok c && Particle.okL c ps
end

/-! ### Rep lemmas -/
theorem Rep_one {L : List Nat → Prop} {mi : Nat} {w : List Nat} (hmi : mi ≤ 1) :
    Rep L mi (some 1) w ↔ (mi = 0 ∧ w = []) ∨ L w := by
  constructor
  · rintro ⟨ws, hl, hmax, hL, rfl⟩
    have h1 := hmax 1 rfl
    match ws, hl, h1, hL with
    | [], hl, _, _ => left; exact ⟨by simpa using hl, rfl⟩
    | [u], _, _, hL => right; simpa using hL u (by simp)
    | _ :: _ :: _, _, h1, _ => simp at h1
  · rintro (⟨rfl, rfl⟩ | h)
    · exact ⟨[], by simp, by simp, by simp, rfl⟩
    · exact ⟨[w], by simpa using hmi, by intro m hm; cases hm; simp, by simpa using h, by simp⟩

theorem flatten_const (n : Nat) (ws : List (List Nat)) (h : ∀ u ∈ ws, u = [n]) :
    ws.flatten = List.replicate ws.length n := by
  induction ws with
  | nil => rfl
  | cons u ws ih =>
    have hu := h u (by simp); subst hu
    simp [List.replicate_succ, ih (fun v hv => h v (by simp [hv]))]

theorem Rep_elem {n mi : Nat} {ma : Option Nat} {w : List Nat} :
    Rep (fun u => u = [n]) mi ma w ↔ ∃ k, mi ≤ k ∧ leMax k ma = true ∧ w = List.replicate k n := by
  constructor
  · rintro ⟨ws, hl, hmax, hL, rfl⟩
    refine ⟨ws.length, hl, ?_, flatten_const n ws hL⟩
    cases ma with
    | none => rfl
    | some m => simpa [leMax] using hmax m rfl
  · rintro ⟨k, hk, hm, rfl⟩
    refine ⟨List.replicate k [n], by simpa using hk, ?_, ?_, ?_⟩
    · intro m hm'; subst hm'; simpa [leMax] using hm
    · intro u hu; exact (List.mem_replicate.1 hu).2
    · rw [flatten_const n _ (fun u hu => (List.mem_replicate.1 hu).2)]; simp

theorem Rep_subset {L : List Nat → Prop} {S : List Nat} {mi ma w}
    (hL : ∀ u, L u → ∀ x ∈ u, x ∈ S) (h : Rep L mi ma w) : ∀ x ∈ w, x ∈ S := by
  obtain ⟨ws, _, _, hws, rfl⟩ := h
  intro x hx
  obtain ⟨u, hu, hxu⟩ := List.mem_flatten.1 hx
  exact hL u (hws u hu) x hxu

/-! ### words only use leaf names -/
mutual
theorem Particle.Lang_subset : (p : Particle) → (w : List Nat) → p.Lang w → ∀ x ∈ w, x ∈ p.leaves
  | .elem n mi ma, w, h => by
    simp only [Particle.Lang] at h
    exact Rep_subset (S := [n]) (fun u hu x hx => by subst hu; simpa using hx) h
  | .seq mi ma ps, w, h => by
    simp only [Particle.Lang] at h
    exact Rep_subset (fun u hu => Particle.LangSeq_subset ps u hu) h
  | .choice mi ma ps, w, h => by
    simp only [Particle.Lang] at h
    exact Rep_subset (fun u hu => Particle.LangAlt_subset ps u hu) h
  | .group _ mi ma p, w, h => by
    simp only [Particle.Lang] at h
    exact Rep_subset (fun u hu => Particle.Lang_subset p u hu) h
theorem Particle.LangSeq_subset : (ps : List Particle) → (w : List Nat) → Particle.LangSeq ps w → ∀ x ∈ w, x ∈ Particle.leavesL ps
  | [], w, h => by simp only [Particle.LangSeq] at h; subst h; simp
  | p :: ps, w, h => by
    simp only [Particle.LangSeq] at h
    obtain ⟨u, v, rfl, hu, hv⟩ := h
    intro x hx
    simp only [Particle.leavesL, List.mem_append]
    rcases List.mem_append.1 hx with hx | hx
    · exact .inl (Particle.Lang_subset p u hu x hx)
    · exact .inr (Particle.LangSeq_subset ps v hv x hx)
theorem Particle.LangAlt_subset : (ps : List Particle) → (w : List Nat) → Particle.LangAlt ps w → ∀ x ∈ w, x ∈ Particle.leavesL ps
  | [], w, h => by simp only [Particle.LangAlt] at h
  | p :: ps, w, h => by
    simp only [Particle.LangAlt] at h
    intro x hx
    simp only [Particle.leavesL, List.mem_append]
    rcases h with h | h
    · exact .inl (Particle.Lang_subset p w h x hx)
    · exact .inr (Particle.LangAlt_subset ps w h x hx)
end

/-! ### congruence: ok / render / emp only look at the counts of their own leaves -/
mutual
theorem Particle.render_congr (c c' : Nat → Nat) : (p : Particle) → (∀ n ∈ p.leaves, c n = c' n) → p.render c = p.render c'
  | .elem n _ _, h => by simp [Particle.render, h n (by simp [Particle.leaves])]
  | .seq _ _ ps, h => by simpa [Particle.render] using Particle.renderL_congr c c' ps (by simpa [Particle.leaves] using h)
  | .choice _ _ _, _ => rfl
  | .group _ _ _ p, h => by simpa [Particle.render] using Particle.render_congr c c' p (by simpa [Particle.leaves] using h)
theorem Particle.renderL_congr (c c' : Nat → Nat) : (ps : List Particle) → (∀ n ∈ Particle.leavesL ps, c n = c' n) → Particle.renderL c ps = Particle.renderL c' ps
  | [], _ => rfl
  | p :: ps, h => by
    simp only [Particle.renderL]
    rw [Particle.render_congr c c' p (fun n hn => h n (by simp [Particle.leavesL, hn])),
        Particle.renderL_congr c c' ps (fun n hn => h n (by simp [Particle.leavesL, hn]))]
end
mutual
theorem Particle.emp_congr (c c' : Nat → Nat) : (p : Particle) → (∀ n ∈ p.leaves, c n = c' n) → p.emp c = p.emp c'
  | .elem n _ _, h => by simp [Particle.emp, h n (by simp [Particle.leaves])]
  | .seq _ _ ps, h => by simpa [Particle.emp] using Particle.empL_congr c c' ps (by simpa [Particle.leaves] using h)
  | .choice _ _ ps, h => by simpa [Particle.emp] using Particle.empL_congr c c' ps (by simpa [Particle.leaves] using h)
  | .group _ _ _ p, h => by simpa [Particle.emp] using Particle.emp_congr c c' p (by simpa [Particle.leaves] using h)
theorem Particle.empL_congr (c c' : Nat → Nat) : (ps : List Particle) → (∀ n ∈ Particle.leavesL ps, c n = c' n) → Particle.empL c ps = Particle.empL c' ps
  | [], _ => rfl
  | p :: ps, h => by
    simp only [Particle.empL]
    rw [Particle.emp_congr c c' p (fun n hn => h n (by simp [Particle.leavesL, hn])),
        Particle.empL_congr c c' ps (fun n hn => h n (by simp [Particle.leavesL, hn]))]
end
mutual
theorem Particle.ok_congr (c c' : Nat → Nat) : (p : Particle) → (∀ n ∈ p.leaves, c n = c' n) → p.ok c = p.ok c'
  | .elem n _ _, h => by simp [Particle.ok, h n (by simp [Particle.leaves])]
  | .seq _ _ ps, h => by
    have h' : ∀ n ∈ Particle.leavesL ps, c n = c' n := by simpa [Particle.leaves] using h
    simp [Particle.ok, Particle.okL_congr c c' ps h', Particle.empL_congr c c' ps h']
  | .choice _ _ _, _ => rfl
  | .group _ _ _ p, h => by
    have h' : ∀ n ∈ p.leaves, c n = c' n := by simpa [Particle.leaves] using h
    simp [Particle.ok, Particle.ok_congr c c' p h', Particle.emp_congr c c' p h']
theorem Particle.okL_congr (c c' : Nat → Nat) : (ps : List Particle) → (∀ n ∈ Particle.leavesL ps, c n = c' n) → Particle.okL c ps = Particle.okL c' ps
  | [], _ => rfl
  | p :: ps, h => by
    simp only [Particle.okL]
    rw [Particle.ok_congr c c' p (fun n hn => h n (by simp [Particle.leavesL, hn])),
        Particle.okL_congr c c' ps (fun n hn => h n (by simp [Particle.leavesL, hn]))]
end

/-! ### render produces only leaf names; empty counts render to [] -/
mutual
theorem Particle.render_subset (c : Nat → Nat) : (p : Particle) → ∀ x ∈ p.render c, x ∈ p.leaves
  | .elem n _ _ => by intro x hx; simp [Particle.render] at hx; simp [Particle.leaves, hx.2]
  | .seq _ _ ps => by simpa [Particle.render, Particle.leaves] using Particle.renderL_subset c ps
  | .choice _ _ _ => by intro x hx; simp [Particle.render] at hx
  | .group _ _ _ p => by simpa [Particle.render, Particle.leaves] using Particle.render_subset c p
theorem Particle.renderL_subset (c : Nat → Nat) : (ps : List Particle) → ∀ x ∈ Particle.renderL c ps, x ∈ Particle.leavesL ps
  | [] => by intro x hx; simp [Particle.renderL] at hx
  | p :: ps => by
    intro x hx
    simp only [Particle.renderL, List.mem_append] at hx
    simp only [Particle.leavesL, List.mem_append]
    rcases hx with hx | hx
    · exact .inl (Particle.render_subset c p x hx)
    · exact .inr (Particle.renderL_subset c ps x hx)
end
mutual
theorem Particle.render_emp (c : Nat → Nat) : (p : Particle) → p.emp c = true → p.render c = []
  | .elem n _ _, h => by simp [Particle.emp] at h; simp [Particle.render, h]
  | .seq _ _ ps, h => by simpa [Particle.render] using Particle.renderL_emp c ps (by simpa [Particle.emp] using h)
  | .choice _ _ _, _ => rfl
  | .group _ _ _ p, h => by simpa [Particle.render] using Particle.render_emp c p (by simpa [Particle.emp] using h)
theorem Particle.renderL_emp (c : Nat → Nat) : (ps : List Particle) → Particle.empL c ps = true → Particle.renderL c ps = []
  | [], _ => rfl
  | p :: ps, h => by
    simp only [Particle.empL, Bool.and_eq_true] at h
    simp [Particle.renderL, Particle.render_emp c p h.1, Particle.renderL_emp c ps h.2]
end
mutual
theorem Particle.emp_nil : (p : Particle) → p.emp (cnt []) = true
  | .elem n _ _ => by simp [Particle.emp, cnt]
  | .seq _ _ ps => by simpa [Particle.emp] using Particle.empL_nil ps
  | .choice _ _ ps => by simpa [Particle.emp] using Particle.empL_nil ps
  | .group _ _ _ p => by simpa [Particle.emp] using Particle.emp_nil p
theorem Particle.empL_nil : (ps : List Particle) → Particle.empL (cnt []) ps = true
  | [] => rfl
  | p :: ps => by simp [Particle.empL, Particle.emp_nil p, Particle.empL_nil ps]
end

theorem cnt_append_left {u v : List Nat} {n : Nat} (h : n ∉ v) : cnt (u ++ v) n = cnt u n := by
  simp [cnt, List.count_append, List.count_eq_zero.2 h]
theorem cnt_append_right {u v : List Nat} {n : Nat} (h : n ∉ u) : cnt (u ++ v) n = cnt v n := by
  simp [cnt, List.count_append, List.count_eq_zero.2 h]

/-! ### main characterisation -/
mutual
theorem Particle.flat_iff : (p : Particle) → p.flat = true → p.leaves.Nodup → (w : List Nat) →
    (p.Lang w ↔ p.ok (cnt w) = true ∧ w = p.render (cnt w))
  | .elem n mi ma, _, _, w => by
    simp only [Particle.Lang, Rep_elem, Particle.ok, Particle.render, Bool.and_eq_true, decide_eq_true_eq]
    constructor
    · rintro ⟨k, hk, hm, rfl⟩
      have : cnt (List.replicate k n) n = k := by simp [cnt]
      rw [this]; exact ⟨⟨hk, hm⟩, rfl⟩
    · rintro ⟨⟨hk, hm⟩, hw⟩
      exact ⟨cnt w n, hk, hm, hw⟩
  | .seq mi ma ps, hf, hnd, w => by
    simp only [Particle.flat, Bool.and_eq_true, decide_eq_true_eq, beq_iff_eq] at hf
    obtain ⟨⟨hmi, rfl⟩, hfl⟩ := hf
    simp only [Particle.Lang, Rep_one hmi, Particle.ok, Particle.render, Bool.or_eq_true, Bool.and_eq_true, beq_iff_eq]
    have ih := Particle.flatL_iff ps hfl (by simpa [Particle.leaves] using hnd) w
    constructor
    · rintro (⟨rfl, rfl⟩ | h)
      · exact ⟨.inl ⟨rfl, Particle.empL_nil ps⟩, (Particle.renderL_emp _ ps (Particle.empL_nil ps)).symm⟩
      · exact ⟨.inr (ih.1 h).1, (ih.1 h).2⟩
    · rintro ⟨(⟨rfl, he⟩ | hok), hw⟩
      · left; exact ⟨rfl, by rw [hw, Particle.renderL_emp _ ps he]⟩
      · right; exact ih.2 ⟨hok, hw⟩
  | .choice _ _ _, hf, _, _ => by simp [Particle.flat] at hf
  | .group g mi ma p, hf, hnd, w => by
    simp only [Particle.flat, Bool.and_eq_true, decide_eq_true_eq, beq_iff_eq] at hf
    obtain ⟨⟨hmi, rfl⟩, hfl⟩ := hf
    simp only [Particle.Lang, Rep_one hmi, Particle.ok, Particle.render, Bool.or_eq_true, Bool.and_eq_true, beq_iff_eq]
    have ih := Particle.flat_iff p hfl (by simpa [Particle.leaves] using hnd) w
    constructor
    · rintro (⟨rfl, rfl⟩ | h)
      · exact ⟨.inl ⟨rfl, Particle.emp_nil p⟩, (Particle.render_emp _ p (Particle.emp_nil p)).symm⟩
      · exact ⟨.inr (ih.1 h).1, (ih.1 h).2⟩
    · rintro ⟨(⟨rfl, he⟩ | hok), hw⟩
      · left; exact ⟨rfl, by rw [hw, Particle.render_emp _ p he]⟩
      · right; exact ih.2 ⟨hok, hw⟩
theorem Particle.flatL_iff : (ps : List Particle) → Particle.flatL ps = true → (Particle.leavesL ps).Nodup → (w : List Nat) →
    (Particle.LangSeq ps w ↔ Particle.okL (cnt w) ps = true ∧ w = Particle.renderL (cnt w) ps)
  | [], _, _, w => by simp [Particle.LangSeq, Particle.okL, Particle.renderL]
  | p :: ps, hf, hnd, w => by
    simp only [Particle.flatL, Bool.and_eq_true] at hf
    simp only [Particle.leavesL, List.nodup_append] at hnd
    obtain ⟨hn1, hn2, hdisj⟩ := hnd
    have hd1 : ∀ n ∈ p.leaves, n ∉ Particle.leavesL ps := fun n hn hn' => hdisj n hn n hn' rfl
    have hd2 : ∀ n ∈ Particle.leavesL ps, n ∉ p.leaves := fun n hn hn' => hdisj n hn' n hn rfl
    simp only [Particle.LangSeq, Particle.okL, Particle.renderL, Bool.and_eq_true]
    constructor
    · rintro ⟨u, v, rfl, hu, hv⟩
      have su := Particle.Lang_subset p u hu
      have sv := Particle.LangSeq_subset ps v hv
      have cu : ∀ n ∈ p.leaves, cnt (u ++ v) n = cnt u n :=
        fun n hn => cnt_append_left (fun hv' => hd1 n hn (sv n hv'))
      have cv : ∀ n ∈ Particle.leavesL ps, cnt (u ++ v) n = cnt v n :=
        fun n hn => cnt_append_right (fun hu' => hd2 n hn (su n hu'))
      have ihu := (Particle.flat_iff p hf.1 hn1 u).1 hu
      have ihv := (Particle.flatL_iff ps hf.2 hn2 v).1 hv
      rw [Particle.ok_congr _ _ p cu, Particle.okL_congr _ _ ps cv,
          Particle.render_congr _ _ p cu, Particle.renderL_congr _ _ ps cv]
      exact ⟨⟨ihu.1, ihv.1⟩, by rw [← ihu.2, ← ihv.2]⟩
    · rintro ⟨⟨hok1, hok2⟩, hw⟩
      let u := p.render (cnt w)
      let v := Particle.renderL (cnt w) ps
      have su : ∀ x ∈ u, x ∈ p.leaves := Particle.render_subset _ p
      have sv : ∀ x ∈ v, x ∈ Particle.leavesL ps := Particle.renderL_subset _ ps
      have hwuv : w = u ++ v := hw
      have cu : ∀ n ∈ p.leaves, cnt w n = cnt u n := fun n hn => by
        rw [hwuv]; exact cnt_append_left (fun hv' => hd1 n hn (sv n hv'))
      have cv : ∀ n ∈ Particle.leavesL ps, cnt w n = cnt v n := fun n hn => by
        rw [hwuv]; exact cnt_append_right (fun hu' => hd2 n hn (su n hu'))
      refine ⟨u, v, hwuv, ?_, ?_⟩
      · refine (Particle.flat_iff p hf.1 hn1 u).2 ⟨?_, ?_⟩
        · rw [← Particle.ok_congr _ _ p cu]; exact hok1
        · exact Particle.render_congr _ _ p cu
      · refine (Particle.flatL_iff ps hf.2 hn2 v).2 ⟨?_, ?_⟩
        · rw [← Particle.okL_congr _ _ ps cv]; exact hok2
        · exact Particle.renderL_congr _ _ ps cv
end

