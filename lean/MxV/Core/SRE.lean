import MxV.Core.RE
/-! # SRE — first-order regular expressions over code points, with a verified equivalence checker

`RE α` has predicate atoms (functions), so two of them cannot be compared. `SRE` is the syntactic
fragment the translators emit: atoms are (possibly negated) unions of code-point ranges. On it

* `sd` is the Brzozowski derivative with normalising constructors (`mkAlt`: associativity,
  idempotence, `zero` unit; `mkCat`: `zero` absorbing, `eps` unit) — `sd_lang` ties it to `RE.deriv`;
* `equiv r s` explores the pairs of simultaneous derivatives over one representative code point per
  block of the partition that the atoms of `r` and `s` induce on ℕ, and answers `true` only when
  the explored set is a bisimulation;
* `equiv_sound : equiv r s = true → ∀ w, rmatch r.toRE w = rmatch s.toRE w` — for **all** words over
  **all** code points (and `equiv_sound_char` for `List Char`).

Nothing here is specific to MusicXML. -/

namespace RE
variable {α β : Type}

/-- a regular expression over `β` read over `α` through `f` -/
def comap (f : α → β) : RE β → RE α
  | zero => zero | eps => eps
  | atom p => atom (fun a => p (f a))
  | alt r s => alt (comap f r) (comap f s)
  | cat r s => cat (comap f r) (comap f s)
  | star r => star (comap f r)

theorem nullable_comap (f : α → β) (r : RE β) : nullable (comap f r) = nullable r := by
  induction r with
  | zero | eps | atom _ => rfl
  | alt r s ihr ihs => simp [comap, nullable, ihr, ihs]
  | cat r s ihr ihs => simp [comap, nullable, ihr, ihs]
  | star r _ => rfl

theorem deriv_comap (f : α → β) (a : α) (r : RE β) : deriv a (comap f r) = comap f (deriv (f a) r) := by
  induction r with
  | zero | eps => rfl
  | atom p => simp only [comap, deriv]; split <;> rfl
  | alt r s ihr ihs => simp [comap, deriv, ihr, ihs]
  | cat r s ihr ihs =>
    simp only [comap, deriv, nullable_comap, ihr, ihs]
    split <;> rfl
  | star r ih => simp [comap, deriv, ih]

theorem rmatch_comap (f : α → β) (r : RE β) (w : List α) : rmatch (comap f r) w = rmatch r (w.map f) := by
  induction w generalizing r with
  | nil => simp [rmatch, nullable_comap]
  | cons a w ih => simp [rmatch, deriv_comap, ih]

theorem matches_alt {r s : RE α} {w : List α} : Matches (.alt r s) w ↔ Matches r w ∨ Matches s w := by
  constructor
  · intro h; cases h with
    | altL h => exact .inl h
    | altR h => exact .inr h
  · rintro (h | h)
    · exact .altL h
    · exact .altR h

theorem matches_cat {r s : RE α} {w : List α} :
    Matches (.cat r s) w ↔ ∃ u v, w = u ++ v ∧ Matches r u ∧ Matches s v := by
  constructor
  · intro h; cases h with
    | cat h1 h2 => exact ⟨_, _, rfl, h1, h2⟩
  · rintro ⟨u, v, rfl, h1, h2⟩; exact .cat h1 h2

theorem not_matches_zero {w : List α} : ¬ Matches (.zero : RE α) w := by intro h; cases h

theorem matches_eps {w : List α} : Matches (.eps : RE α) w ↔ w = [] := by
  constructor
  · intro h; cases h; rfl
  · rintro rfl; exact .eps
end RE

inductive SRE where
  | zero | eps
  | cls (neg : Bool) (rs : List (Nat × Nat))
  | alt (r s : SRE)
  | cat (r s : SRE)
  | star (r : SRE)
  deriving DecidableEq, Repr, Inhabited

namespace SRE

def inR (rs : List (Nat × Nat)) (n : Nat) : Bool := rs.any fun p => decide (p.1 ≤ n) && decide (n ≤ p.2)
/-- the atom: a code point inside (outside, when negated) the union of the ranges -/
def atomP (neg : Bool) (rs : List (Nat × Nat)) (n : Nat) : Bool := neg != inR rs n

def toRE : SRE → RE Nat
  | zero => .zero | eps => .eps
  | cls neg rs => .atom (atomP neg rs)
  | alt r s => .alt r.toRE s.toRE
  | cat r s => .cat r.toRE s.toRE
  | star r => .star r.toRE

/-- the same expression over `Char` (what the validator model runs) -/
def toREc (r : SRE) : RE Char := RE.comap (fun c : Char => c.val.toNat) r.toRE

/-- language -/
def L (r : SRE) (w : List Nat) : Prop := RE.Matches r.toRE w

def nullable : SRE → Bool
  | zero => false | eps => true | cls _ _ => false
  | alt r s => nullable r || nullable s
  | cat r s => nullable r && nullable s
  | star _ => true

theorem nullable_toRE (r : SRE) : RE.nullable r.toRE = nullable r := by
  induction r with
  | zero | eps | cls _ _ => rfl
  | alt r s ihr ihs => simp [toRE, RE.nullable, nullable, ihr, ihs]
  | cat r s ihr ihs => simp [toRE, RE.nullable, nullable, ihr, ihs]
  | star r _ => rfl

/-! ### normalising constructors -/
def altList : SRE → List SRE
  | alt r s => altList r ++ altList s
  | zero => []
  | r => [r]

def ofAltList : List SRE → SRE
  | [] => zero
  | [r] => r
  | r :: r' :: rs => alt r (ofAltList (r' :: rs))

def dedup : List SRE → List SRE
  | [] => []
  | x :: xs => if xs.contains x then dedup xs else x :: dedup xs

def mkAlt (r s : SRE) : SRE := ofAltList (dedup (altList r ++ altList s))

def mkCat (r s : SRE) : SRE :=
  if r = zero ∨ s = zero then zero
  else if r = eps then s
  else if s = eps then r
  else cat r s

theorem mem_dedup {a : SRE} {l : List SRE} : a ∈ dedup l ↔ a ∈ l := by
  induction l with
  | nil => simp [dedup]
  | cons x xs ih =>
    simp only [dedup]
    split
    · rename_i h
      have hx : x ∈ xs := by simpa using h
      rw [ih]; constructor
      · exact fun h => List.mem_cons_of_mem _ h
      · intro h; rcases List.mem_cons.1 h with rfl | h
        · exact hx
        · exact h
    · simp [ih]

theorem L_ofAltList (l : List SRE) (w : List Nat) : L (ofAltList l) w ↔ ∃ r ∈ l, L r w := by
  induction l with
  | nil => simp [ofAltList, L, toRE, RE.not_matches_zero]
  | cons r rs ih =>
    cases rs with
    | nil => simp [ofAltList]
    | cons r' rs' =>
      simp only [ofAltList, L, toRE, RE.matches_alt]
      have := ih
      simp only [L] at this
      rw [this]
      constructor
      · rintro (h | ⟨x, hx, h⟩)
        · exact ⟨r, List.mem_cons_self, h⟩
        · exact ⟨x, List.mem_cons_of_mem _ hx, h⟩
      · rintro ⟨x, hx, h⟩
        rcases List.mem_cons.1 hx with rfl | hx
        · exact .inl h
        · exact .inr ⟨x, hx, h⟩

theorem L_altList (r : SRE) (w : List Nat) : (∃ x ∈ altList r, L x w) ↔ L r w := by
  induction r with
  | zero => simp [altList, L, toRE, RE.not_matches_zero]
  | eps => simp [altList]
  | cls _ _ => simp [altList]
  | cat _ _ _ _ => simp [altList]
  | star _ _ => simp [altList]
  | alt r s ihr ihs =>
    simp only [altList, List.mem_append]
    have e : L (alt r s) w ↔ L r w ∨ L s w := by simp [L, toRE, RE.matches_alt]
    rw [e, ← ihr, ← ihs]
    constructor
    · rintro ⟨x, hx | hx, h⟩
      · exact .inl ⟨x, hx, h⟩
      · exact .inr ⟨x, hx, h⟩
    · rintro (⟨x, hx, h⟩ | ⟨x, hx, h⟩)
      · exact ⟨x, .inl hx, h⟩
      · exact ⟨x, .inr hx, h⟩

theorem L_mkAlt (r s : SRE) (w : List Nat) : L (mkAlt r s) w ↔ L r w ∨ L s w := by
  simp only [mkAlt, L_ofAltList, mem_dedup, List.mem_append]
  rw [← L_altList r, ← L_altList s]
  constructor
  · rintro ⟨x, hx | hx, h⟩
    · exact .inl ⟨x, hx, h⟩
    · exact .inr ⟨x, hx, h⟩
  · rintro (⟨x, hx, h⟩ | ⟨x, hx, h⟩)
    · exact ⟨x, .inl hx, h⟩
    · exact ⟨x, .inr hx, h⟩

theorem L_cat (r s : SRE) (w : List Nat) : L (cat r s) w ↔ ∃ u v, w = u ++ v ∧ L r u ∧ L s v := by
  simp [L, toRE, RE.matches_cat]

theorem L_mkCat (r s : SRE) (w : List Nat) : L (mkCat r s) w ↔ ∃ u v, w = u ++ v ∧ L r u ∧ L s v := by
  unfold mkCat
  split
  · rename_i h
    constructor
    · intro h'; exact absurd h' RE.not_matches_zero
    · rintro ⟨u, v, _, h1, h2⟩
      rcases h with rfl | rfl
      · exact absurd h1 RE.not_matches_zero
      · exact absurd h2 RE.not_matches_zero
  · split
    · rename_i h; subst h
      constructor
      · intro h'; exact ⟨[], w, rfl, RE.Matches.eps, h'⟩
      · rintro ⟨u, v, rfl, h1, h2⟩
        have : u = [] := RE.matches_eps.1 h1
        subst this; simpa using h2
    · split
      · rename_i h; subst h
        constructor
        · intro h'; exact ⟨w, [], by simp, h', RE.Matches.eps⟩
        · rintro ⟨u, v, rfl, h1, h2⟩
          have : v = [] := RE.matches_eps.1 h2
          subst this; simpa using h1
      · exact L_cat r s w

/-! ### derivative -/
def sd (a : Nat) : SRE → SRE
  | zero => zero | eps => zero
  | cls neg rs => if atomP neg rs a then eps else zero
  | alt r s => mkAlt (sd a r) (sd a s)
  | cat r s => if nullable r then mkAlt (mkCat (sd a r) s) (sd a s) else mkCat (sd a r) s
  | star r => mkCat (sd a r) (star r)

theorem sd_deriv (a : Nat) (r : SRE) : ∀ w, L (sd a r) w ↔ RE.Matches (RE.deriv a r.toRE) w := by
  induction r with
  | zero => intro w; simp [sd, L, toRE, RE.deriv]
  | eps => intro w; simp [sd, L, toRE, RE.deriv]
  | cls neg rs =>
    intro w
    simp only [sd, toRE, RE.deriv]
    split <;> simp [L, toRE]
  | alt r s ihr ihs =>
    intro w
    simp only [sd, L_mkAlt, ihr, ihs, toRE, RE.deriv, RE.matches_alt]
  | cat r s ihr ihs =>
    intro w
    simp only [sd, toRE, RE.deriv, nullable_toRE]
    split
    · simp only [L_mkAlt, L_mkCat, RE.matches_alt, RE.matches_cat, ihs]
      constructor
      · rintro (⟨u, v, e, h1, h2⟩ | h)
        · exact .inl ⟨u, v, e, (ihr u).1 h1, h2⟩
        · exact .inr h
      · rintro (⟨u, v, e, h1, h2⟩ | h)
        · exact .inl ⟨u, v, e, (ihr u).2 h1, h2⟩
        · exact .inr h
    · simp only [L_mkCat, RE.matches_cat]
      constructor
      · rintro ⟨u, v, e, h1, h2⟩; exact ⟨u, v, e, (ihr u).1 h1, h2⟩
      · rintro ⟨u, v, e, h1, h2⟩; exact ⟨u, v, e, (ihr u).2 h1, h2⟩
  | star r ih =>
    intro w
    simp only [sd, toRE, RE.deriv, L_mkCat, RE.matches_cat]
    constructor
    · rintro ⟨u, v, e, h1, h2⟩; exact ⟨u, v, e, (ih u).1 h1, h2⟩
    · rintro ⟨u, v, e, h1, h2⟩; exact ⟨u, v, e, (ih u).2 h1, h2⟩

theorem sd_lang (a : Nat) (r : SRE) (w : List Nat) : L (sd a r) w ↔ L r (a :: w) := by
  rw [sd_deriv]; exact RE.deriv_iff _ _ _

/-- matcher on the syntactic side -/
def smatch (r : SRE) : List Nat → Bool
  | [] => nullable r
  | a :: w => smatch (sd a r) w

theorem smatch_iff (r : SRE) (w : List Nat) : smatch r w = true ↔ L r w := by
  induction w generalizing r with
  | nil => simp [smatch, L, ← nullable_toRE, RE.nullable_iff]
  | cons a w ih => simp [smatch, ih, sd_lang]

theorem smatch_eq (r : SRE) (w : List Nat) : smatch r w = RE.rmatch r.toRE w := by
  have h1 := smatch_iff r w
  have h2 := RE.rmatch_iff r.toRE w
  cases hs : smatch r w <;> cases hr : RE.rmatch r.toRE w <;> simp_all [L]

/-! ### atoms, and one representative code point per block -/
def atoms : SRE → List (Bool × List (Nat × Nat))
  | zero => [] | eps => []
  | cls neg rs => [(neg, rs)]
  | alt r s => atoms r ++ atoms s
  | cat r s => atoms r ++ atoms s
  | star r => atoms r

/-- `a` and `b` are not told apart by any atom of `A` -/
def Agree (A : List (Bool × List (Nat × Nat))) (a b : Nat) : Prop :=
  ∀ p ∈ A, atomP p.1 p.2 a = atomP p.1 p.2 b

theorem atoms_ofAltList {p} : ∀ {l : List SRE}, p ∈ atoms (ofAltList l) → ∃ r ∈ l, p ∈ atoms r
  | [], h => by simp [ofAltList, atoms] at h
  | [r], h => ⟨r, List.mem_cons_self, by simpa [ofAltList] using h⟩
  | r :: r' :: rs, h => by
    simp only [ofAltList, atoms, List.mem_append] at h
    rcases h with h | h
    · exact ⟨r, List.mem_cons_self, h⟩
    · obtain ⟨x, hx, hp⟩ := atoms_ofAltList (l := r' :: rs) h
      exact ⟨x, List.mem_cons_of_mem _ hx, hp⟩

theorem atoms_altList {p} {r x : SRE} (hx : x ∈ altList r) (hp : p ∈ atoms x) : p ∈ atoms r := by
  induction r with
  | zero => simp [altList] at hx
  | eps => simp [altList] at hx; subst hx; exact hp
  | cls _ _ => simp [altList] at hx; subst hx; exact hp
  | cat _ _ _ _ => simp [altList] at hx; subst hx; exact hp
  | star _ _ => simp [altList] at hx; subst hx; exact hp
  | alt r s ihr ihs =>
    simp only [altList, List.mem_append] at hx
    simp only [atoms, List.mem_append]
    rcases hx with hx | hx
    · exact .inl (ihr hx)
    · exact .inr (ihs hx)

theorem atoms_mkAlt {p} {r s : SRE} (h : p ∈ atoms (mkAlt r s)) : p ∈ atoms r ∨ p ∈ atoms s := by
  obtain ⟨x, hx, hp⟩ := atoms_ofAltList h
  rw [mem_dedup, List.mem_append] at hx
  rcases hx with hx | hx
  · exact .inl (atoms_altList hx hp)
  · exact .inr (atoms_altList hx hp)

theorem atoms_mkCat {p} {r s : SRE} (h : p ∈ atoms (mkCat r s)) : p ∈ atoms r ∨ p ∈ atoms s := by
  unfold mkCat at h
  split at h
  · simp [atoms] at h
  · split at h
    · exact .inr h
    · split at h
      · exact .inl h
      · simpa [atoms] using h

theorem atoms_sd {p} (a : Nat) (r : SRE) (h : p ∈ atoms (sd a r)) : p ∈ atoms r := by
  induction r with
  | zero => simp [sd, atoms] at h
  | eps => simp [sd, atoms] at h
  | cls neg rs => simp only [sd] at h; split at h <;> simp [atoms] at h
  | alt r s ihr ihs =>
    simp only [sd] at h
    simp only [atoms, List.mem_append]
    rcases atoms_mkAlt h with h | h
    · exact .inl (ihr h)
    · exact .inr (ihs h)
  | cat r s ihr ihs =>
    simp only [sd] at h
    simp only [atoms, List.mem_append]
    split at h
    · rcases atoms_mkAlt h with h | h
      · rcases atoms_mkCat h with h | h
        · exact .inl (ihr h)
        · exact .inr h
      · exact .inr (ihs h)
    · rcases atoms_mkCat h with h | h
      · exact .inl (ihr h)
      · exact .inr h
  | star r ih =>
    simp only [sd] at h
    rcases atoms_mkCat h with h | h
    · exact ih h
    · exact h

theorem sd_congr {a b : Nat} (r : SRE) (h : Agree (atoms r) a b) : sd a r = sd b r := by
  induction r with
  | zero | eps => rfl
  | cls neg rs =>
    have := h (neg, rs) (by simp [atoms])
    simp only [sd, this]
  | alt r s ihr ihs =>
    simp only [sd]
    rw [ihr (fun p hp => h p (by simp [atoms, hp])), ihs (fun p hp => h p (by simp [atoms, hp]))]
  | cat r s ihr ihs =>
    simp only [sd]
    rw [ihr (fun p hp => h p (by simp [atoms, hp])), ihs (fun p hp => h p (by simp [atoms, hp]))]
  | star r ih =>
    simp only [sd]
    rw [ih (fun p hp => h p (by simpa [atoms] using hp))]

/-- range ends of all atoms: the block boundaries -/
def bounds (A : List (Bool × List (Nat × Nat))) : List Nat :=
  0 :: A.flatMap fun p => p.2.flatMap fun q => [q.1, q.2 + 1]

/-- the largest boundary `≤ a` (0 when there is none) -/
def floorB : List Nat → Nat → Nat
  | [], _ => 0
  | b :: bs, a => if b ≤ a ∧ floorB bs a ≤ b then b else floorB bs a

theorem floorB_le (bs : List Nat) (a : Nat) : floorB bs a ≤ a := by
  induction bs with
  | nil => simp [floorB]
  | cons b bs ih => simp only [floorB]; split <;> omega

theorem floorB_max {bs : List Nat} {a b : Nat} (hb : b ∈ bs) (hle : b ≤ a) : b ≤ floorB bs a := by
  induction bs with
  | nil => simp at hb
  | cons c cs ih =>
    simp only [floorB]
    rcases List.mem_cons.1 hb with rfl | hb
    · split <;> omega
    · have := ih hb
      split <;> omega

theorem floorB_mem (bs : List Nat) (a : Nat) : floorB bs a = 0 ∨ floorB bs a ∈ bs := by
  induction bs with
  | nil => simp [floorB]
  | cons b bs ih =>
    simp only [floorB]
    split
    · exact .inr List.mem_cons_self
    · rcases ih with h | h
      · exact .inl h
      · exact .inr (List.mem_cons_of_mem _ h)

theorem inR_iff (rs : List (Nat × Nat)) (n : Nat) : inR rs n = true ↔ ∃ q ∈ rs, q.1 ≤ n ∧ n ≤ q.2 := by
  simp [inR]

theorem inR_floor {bs : List Nat} {rs : List (Nat × Nat)}
    (h : ∀ q ∈ rs, q.1 ∈ bs ∧ q.2 + 1 ∈ bs) (a : Nat) : inR rs (floorB bs a) = inR rs a := by
  have key : inR rs (floorB bs a) = true ↔ inR rs a = true := by
    rw [inR_iff, inR_iff]
    constructor
    · rintro ⟨q, hq, h1, h2⟩
      refine ⟨q, hq, Nat.le_trans h1 (floorB_le bs a), ?_⟩
      by_cases hc : a ≤ q.2
      · exact hc
      · have : q.2 + 1 ≤ floorB bs a := floorB_max (h q hq).2 (by omega)
        omega
    · rintro ⟨q, hq, h1, h2⟩
      exact ⟨q, hq, floorB_max (h q hq).1 h1, Nat.le_trans (floorB_le bs a) h2⟩
  cases h1 : inR rs (floorB bs a) <;> cases h2 : inR rs a <;> simp_all

theorem agree_floor (A : List (Bool × List (Nat × Nat))) (a : Nat) : Agree A a (floorB (bounds A) a) := by
  intro p hp
  have h : ∀ q ∈ p.2, q.1 ∈ bounds A ∧ q.2 + 1 ∈ bounds A := by
    intro q hq
    constructor
    · exact List.mem_cons_of_mem _ (List.mem_flatMap.2 ⟨p, hp, List.mem_flatMap.2 ⟨q, hq, by simp⟩⟩)
    · exact List.mem_cons_of_mem _ (List.mem_flatMap.2 ⟨p, hp, List.mem_flatMap.2 ⟨q, hq, by simp⟩⟩)
  simp only [atomP, inR_floor h a]

theorem floor_mem_bounds (A : List (Bool × List (Nat × Nat))) (a : Nat) : floorB (bounds A) a ∈ bounds A := by
  rcases floorB_mem (bounds A) a with h | h
  · rw [h]; exact List.mem_cons_self
  · exact h

/-! ### the checker -/
def checkEq (reps : List Nat) : Nat → List (SRE × SRE) → List (SRE × SRE) → Bool
  | _, [], _ => true
  | 0, _ :: _, _ => false
  | f + 1, p :: rest, seen =>
    if seen.contains p then checkEq reps f rest seen
    else if nullable p.1 != nullable p.2 then false
    else checkEq reps f (reps.map (fun a => (sd a p.1, sd a p.2)) ++ rest) (p :: seen)

/-- `p` is consistent and closed under the representative derivatives inside `R` -/
def Good (reps : List Nat) (R : List (SRE × SRE)) (p : SRE × SRE) : Prop :=
  nullable p.1 = nullable p.2 ∧ ∀ a ∈ reps, (sd a p.1, sd a p.2) ∈ R

theorem checkEq_inv (reps : List Nat) : ∀ (fuel : Nat) (todo seen : List (SRE × SRE)),
    checkEq reps fuel todo seen = true →
    ∃ R : List (SRE × SRE), (∀ p ∈ seen, p ∈ R) ∧ (∀ p ∈ todo, p ∈ R) ∧ ∀ p ∈ R, p ∈ seen ∨ Good reps R p := by
  intro fuel
  induction fuel with
  | zero =>
    intro todo seen h
    cases todo with
    | nil => exact ⟨seen, fun _ h => h, by simp, fun _ h => .inl h⟩
    | cons p rest => simp [checkEq] at h
  | succ f ih =>
    intro todo seen h
    cases todo with
    | nil => exact ⟨seen, fun _ h => h, by simp, fun _ h => .inl h⟩
    | cons p rest =>
      simp only [checkEq] at h
      split at h
      · rename_i hc
        obtain ⟨R, h1, h2, h3⟩ := ih rest seen h
        refine ⟨R, h1, ?_, h3⟩
        intro q hq
        rcases List.mem_cons.1 hq with rfl | hq
        · exact h1 _ (by simpa using hc)
        · exact h2 _ hq
      · split at h
        · simp at h
        · rename_i hc hn
          obtain ⟨R, h1, h2, h3⟩ := ih _ _ h
          refine ⟨R, fun q hq => h1 q (List.mem_cons_of_mem _ hq), ?_, ?_⟩
          · intro q hq
            rcases List.mem_cons.1 hq with rfl | hq
            · exact h1 _ List.mem_cons_self
            · exact h2 _ (List.mem_append.2 (.inr hq))
          · intro q hq
            rcases h3 q hq with hs | hg
            · rcases List.mem_cons.1 hs with rfl | hs
              · refine .inr ⟨by simpa using hn, fun a ha => ?_⟩
                exact h2 _ (List.mem_append.2 (.inl (List.mem_map.2 ⟨a, ha, rfl⟩)))
              · exact .inl hs
            · exact .inr hg

theorem bisim_sound (A : List (Bool × List (Nat × Nat))) (R : List (SRE × SRE))
    (hR : ∀ p ∈ R, Good (bounds A) R p) :
    ∀ (w : List Nat) (r s : SRE), (r, s) ∈ R → (∀ p ∈ atoms r, p ∈ A) → (∀ p ∈ atoms s, p ∈ A) →
      smatch r w = smatch s w := by
  intro w
  induction w with
  | nil => intro r s h _ _; exact (hR _ h).1
  | cons a w ih =>
    intro r s h hr hs
    simp only [smatch]
    have ag := agree_floor A a
    have e1 : sd a r = sd (floorB (bounds A) a) r := sd_congr r (fun p hp => ag p (hr p hp))
    have e2 : sd a s = sd (floorB (bounds A) a) s := sd_congr s (fun p hp => ag p (hs p hp))
    rw [e1, e2]
    exact ih _ _ ((hR _ h).2 _ (floor_mem_bounds A a))
      (fun p hp => hr p (atoms_sd _ _ hp)) (fun p hp => hs p (atoms_sd _ _ hp))

/-- language equivalence, decided by exploring simultaneous derivatives (fuel: number of pairs visited) -/
def equiv (r s : SRE) (fuel : Nat := 100000) : Bool :=
  checkEq (bounds (atoms r ++ atoms s)) fuel [(r, s)] []

theorem equiv_smatch {r s : SRE} {fuel : Nat} (h : equiv r s fuel = true) (w : List Nat) : smatch r w = smatch s w := by
  obtain ⟨R, _, h2, h3⟩ := checkEq_inv _ _ _ _ h
  have hR : ∀ p ∈ R, Good (bounds (atoms r ++ atoms s)) R p := by
    intro p hp
    rcases h3 p hp with h | h
    · simp at h
    · exact h
  exact bisim_sound _ R hR w r s (h2 _ List.mem_cons_self)
    (fun p hp => List.mem_append.2 (.inl hp)) (fun p hp => List.mem_append.2 (.inr hp))

/-- **soundness**: a `true` answer means the two expressions match exactly the same words, over all code points -/
theorem equiv_sound {r s : SRE} {fuel : Nat} (h : equiv r s fuel = true) (w : List Nat) :
    RE.rmatch r.toRE w = RE.rmatch s.toRE w := by
  rw [← smatch_eq, ← smatch_eq]; exact equiv_smatch h w

theorem equiv_sound_char {r s : SRE} {fuel : Nat} (h : equiv r s fuel = true) (w : List Char) :
    RE.rmatch r.toREc w = RE.rmatch s.toREc w := by
  simp only [toREc, RE.rmatch_comap]; exact equiv_sound h _

/-- a word on which the two expressions differ, if the exploration meets one (failing-input search;
    not part of any proof — its answer is checked by running `smatch` on it) -/
def findDiff (reps : List Nat) : Nat → List (SRE × SRE × List Nat) → List (SRE × SRE) → Option (List Nat)
  | _, [], _ => none
  | 0, _ :: _, _ => none
  | f + 1, (r, s, w) :: rest, seen =>
    if seen.contains (r, s) then findDiff reps f rest seen
    else if nullable r != nullable s then some w.reverse
    else findDiff reps f (rest ++ reps.map (fun a => (sd a r, sd a s, a :: w))) ((r, s) :: seen)

def witness (r s : SRE) (fuel : Nat := 100000) : Option (List Nat) :=
  findDiff (bounds (atoms r ++ atoms s)) fuel [(r, s, [])] []

/-! ### derived forms used by the translators -/
def rep (r : SRE) : Nat → SRE
  | 0 => eps
  | n + 1 => cat r (rep r n)
def opt (r : SRE) : Nat → SRE
  | 0 => eps
  | n + 1 => alt eps (cat r (opt r n))
/-- `r{lo,hi}`; `hi = none` is unbounded -/
def bounded (r : SRE) (lo : Nat) : Option Nat → SRE
  | none => cat (rep r lo) (star r)
  | some hi => cat (rep r lo) (opt r (hi - lo))
def seqs : List SRE → SRE
  | [] => eps
  | [r] => r
  | r :: r' :: rs => cat r (seqs (r' :: rs))
def alts : List SRE → SRE
  | [] => zero
  | [r] => r
  | r :: r' :: rs => alt r (alts (r' :: rs))
/-- a literal string -/
def lit (s : String) : SRE := seqs (s.toList.map fun c => cls false [(c.val.toNat, c.val.toNat)])

end SRE
