import MxV.Core.Particle
/-! # An upper bound on how often a name can occur in any word of a content model
`maxCount p n = some k`: no word of `p.Lang` contains `n` more than `k` times (`none`: no bound claimed).
Used to refute completability: children that already exceed the bound cannot be extended to a
schema-valid element, whatever is added. -/

def omul : Option Nat → Option Nat → Option Nat
  | _, some 0 => some 0
  | some a, some b => some (a * b)
  | _, _ => none

def oadd : Option Nat → Option Nat → Option Nat
  | some a, some b => some (a + b)
  | _, _ => none

def omax : Option Nat → Option Nat → Option Nat
  | some a, some b => some (max a b)
  | _, _ => none

mutual
def Particle.maxCount (n : Nat) : Particle → Option Nat
  | .elem m _ ma => if m == n then omul ma (some 1) else some 0
  | .seq _ ma ps => omul ma (Particle.maxCountSeq n ps)
  | .choice _ ma ps => omul ma (Particle.maxCountAlt n ps)
  | .group _ _ ma p => omul ma (p.maxCount n)
def Particle.maxCountSeq (n : Nat) : List Particle → Option Nat
  | [] => some 0
  | p :: ps => oadd (p.maxCount n) (Particle.maxCountSeq n ps)
def Particle.maxCountAlt (n : Nat) : List Particle → Option Nat
  | [] => some 0
  | p :: ps => omax (p.maxCount n) (Particle.maxCountAlt n ps)
end

def occ_ (n : Nat) (w : List Nat) : Nat := (w.filter (· == n)).length

theorem cnt_append (n : Nat) (u v : List Nat) : occ_ n (u ++ v) = occ_ n u + occ_ n v := by
  simp [occ_, List.filter_append]

theorem cnt_flatten_le (n k : Nat) : ∀ (ws : List (List Nat)), (∀ u ∈ ws, occ_ n u ≤ k) → occ_ n ws.flatten ≤ ws.length * k
  | [], _ => by simp [occ_]
  | u :: r, h => by
    have ih := cnt_flatten_le n k r (fun x hx => h x (List.mem_cons_of_mem _ hx))
    have hu := h u List.mem_cons_self
    simp only [List.flatten_cons, cnt_append, List.length_cons]
    rw [Nat.add_mul]; omega

/-- repetition: if every block has at most `k` occurrences, a word of `Rep L mi ma` has at most `omul ma (some k)` -/
theorem rep_bound {L : List Nat → Prop} {n k : Nat} (hL : ∀ u, L u → occ_ n u ≤ k) {mi : Nat} {ma : Option Nat}
    {w : List Nat} (hw : Rep L mi ma w) {b : Nat} (hb : omul ma (some k) = some b) : occ_ n w ≤ b := by
  obtain ⟨ws, _, hmax, hall, rfl⟩ := hw
  have hle := cnt_flatten_le n k ws (fun u hu => hL u (hall u hu))
  cases k with
  | zero =>
    simp only [Nat.mul_zero, Nat.le_zero] at hle
    omega
  | succ k =>
    cases ma with
    | none => simp [omul] at hb
    | some m =>
      simp only [omul, Option.some.injEq] at hb
      have := hmax m rfl
      subst hb
      calc occ_ n ws.flatten ≤ ws.length * (k + 1) := hle
        _ ≤ m * (k + 1) := Nat.mul_le_mul_right _ this

mutual
theorem Particle.maxCount_bound (n : Nat) : (p : Particle) → (w : List Nat) → p.Lang w → (b : Nat) → p.maxCount n = some b → occ_ n w ≤ b
  | .elem m mi ma, w, hw, b, hb => by
    simp only [Particle.Lang] at hw
    simp only [Particle.maxCount] at hb
    by_cases hm : (m == n) = true
    · simp only [hm, if_true] at hb
      exact rep_bound (L := fun u => u = [m]) (k := 1) (fun u hu => by
        subst hu
        have : ([m].filter (· == n)).length ≤ [m].length := List.length_filter_le _ _
        simpa [occ_] using this) hw hb
    · simp only [hm, Bool.false_eq_true, if_false, Option.some.injEq] at hb
      subst hb
      obtain ⟨ws, _, _, hall, rfl⟩ := hw
      have : ∀ u ∈ ws, occ_ n u ≤ 0 := by
        intro u hu
        have := hall u hu
        subst this
        have hm' : (m == n) = false := by simpa using hm
        simp [occ_, hm']
      have := cnt_flatten_le n 0 ws this
      simpa using this
  | .seq mi ma ps, w, hw, b, hb => by
    simp only [Particle.Lang] at hw
    simp only [Particle.maxCount] at hb
    cases hk : Particle.maxCountSeq n ps with
    | none => rw [hk] at hb; cases ma <;> simp [omul] at hb
    | some k =>
      rw [hk] at hb
      exact rep_bound (fun u hu => Particle.maxCountSeq_bound n ps u hu k hk) hw hb
  | .choice mi ma ps, w, hw, b, hb => by
    simp only [Particle.Lang] at hw
    simp only [Particle.maxCount] at hb
    cases hk : Particle.maxCountAlt n ps with
    | none => rw [hk] at hb; cases ma <;> simp [omul] at hb
    | some k =>
      rw [hk] at hb
      exact rep_bound (fun u hu => Particle.maxCountAlt_bound n ps u hu k hk) hw hb
  | .group _ mi ma p, w, hw, b, hb => by
    simp only [Particle.Lang] at hw
    simp only [Particle.maxCount] at hb
    cases hk : p.maxCount n with
    | none => rw [hk] at hb; cases ma <;> simp [omul] at hb
    | some k =>
      rw [hk] at hb
      exact rep_bound (fun u hu => Particle.maxCount_bound n p u hu k hk) hw hb
theorem Particle.maxCountSeq_bound (n : Nat) : (ps : List Particle) → (w : List Nat) → Particle.LangSeq ps w → (b : Nat) →
    Particle.maxCountSeq n ps = some b → occ_ n w ≤ b
  | [], w, hw, b, hb => by
    simp only [Particle.LangSeq] at hw
    subst hw
    simp [occ_]
  | p :: ps, w, hw, b, hb => by
    simp only [Particle.LangSeq] at hw
    obtain ⟨u, v, rfl, hu, hv⟩ := hw
    simp only [Particle.maxCountSeq] at hb
    cases h1 : p.maxCount n with
    | none => rw [h1] at hb; simp [oadd] at hb
    | some a =>
      cases h2 : Particle.maxCountSeq n ps with
      | none => rw [h1, h2] at hb; simp [oadd] at hb
      | some c =>
        rw [h1, h2] at hb
        simp only [oadd, Option.some.injEq] at hb
        have := Particle.maxCount_bound n p u hu a h1
        have := Particle.maxCountSeq_bound n ps v hv c h2
        rw [cnt_append]; omega
theorem Particle.maxCountAlt_bound (n : Nat) : (ps : List Particle) → (w : List Nat) → Particle.LangAlt ps w → (b : Nat) →
    Particle.maxCountAlt n ps = some b → occ_ n w ≤ b
  | [], w, hw, b, hb => by simp [Particle.LangAlt] at hw
  | p :: ps, w, hw, b, hb => by
    simp only [Particle.LangAlt] at hw
    simp only [Particle.maxCountAlt] at hb
    cases h1 : p.maxCount n with
    | none => rw [h1] at hb; simp [omax] at hb
    | some a =>
      cases h2 : Particle.maxCountAlt n ps with
      | none => rw [h1, h2] at hb; simp [omax] at hb
      | some c =>
        rw [h1, h2] at hb
        simp only [omax, Option.some.injEq] at hb
        rcases hw with hw | hw
        · have := Particle.maxCount_bound n p w hw a h1
          omega
        · have := Particle.maxCountAlt_bound n ps w hw c h2
          omega
end

/-- children that exceed the bound cannot be completed: no word of the content model contains them all -/
theorem Particle.not_completable {p : Particle} {n b : Nat} (hb : p.maxCount n = some b) {have_ : List Nat}
    (h : b < occ_ n have_) : ∀ w, (∀ x, occ_ x have_ ≤ occ_ x w) → ¬ p.Lang w := by
  intro w hsub hw
  have := Particle.maxCount_bound n p w hw b hb
  have := hsub n
  omega

#print axioms Particle.not_completable
