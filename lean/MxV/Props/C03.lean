import MxV.Tables.D_templates_equiv
import MxV.Tables.D_inst_templates_eq
import MxV.Tables.D_groups_eq
import MxV.Tables.D_elements_bijective
import MxV.Tables.D_name_rule_ok
import MxV.Tables.D_elem_projections_ok
import MxV.Tables.D_type_binding_eq
import MxV.Tables.D_attr_tables_eq
import MxV.Tables.D_attr_exceptions_bound
import MxV.Tables.D_attr_groups_eq
import MxV.Tables.D_attr_names_nodup
import MxV.Tables.D_simple_defs_eq
import MxV.Tables.D_simple_sub
import MxV.Tables.D_schema_copy_eq
/-! # C03 — every element class is a faithful translation of its XSD declaration

All statements are over the tables regenerated from `/repo`'s working tree (`Gen.impl*`) and
from the pinned schema (`Gen.spec*`); they are re-decided by the kernel on every run
(`decide +kernel` = kernel evaluation of a closed Boolean term over the *complete* finite table;
no axiom is added). `templates_lang_eq` lifts the table fact to all words with the generic
lemma `Particle.equivB_sound`. -/
namespace C03
open Gen

/-- For every element-content type, the template the library built at import and the pinned
    schema's particle accept exactly the same child sequences. -/
theorem templates_lang_eq (k : Nat) (p q : Particle)
    (hp : lookup k implTemplates = some p) (hq : lookup k specTemplates = some q) (w : List Nat) :
    p.Lang w ↔ q.Lang w := by
  have h := templates_equiv
  simp only [templatesEquivB, Bool.and_eq_true, List.all_eq_true] at h
  have h1 := h.1 (k, p) (lookup_mem hp)
  simp only [hq] at h1
  exact Particle.equivB_sound h1 w

/-- ... and both are decided by the verified matcher. -/
theorem templates_accepts_eq (k : Nat) (p q : Particle)
    (hp : lookup k implTemplates = some p) (hq : lookup k specTemplates = some q) (w : List Nat) :
    p.accepts w = q.accepts w := by
  have := templates_lang_eq k p q hp hq w
  rw [← Particle.accepts_iff, ← Particle.accepts_iff] at this
  cases h1 : p.accepts w <;> cases h2 : q.accepts w <;> simp_all

theorem inst_template_is_template (c k : Nat) (p : Particle) (h : (c, k, p) ∈ instTemplates) :
    lookup k implTemplates = some p := by
  have := inst_templates_eq
  simp only [instTemplatesB, List.all_eq_true] at this
  have h1 := this (c, k, p) h
  simp only at h1
  split at h1
  · rename_i q hq; rw [hq, Particle.beq_eq p q h1]
  · cases h1

end C03


#print axioms C03.templates_lang_eq
#print axioms C03.templates_accepts_eq
#print axioms C03.inst_template_is_template
#print axioms C03.groups_eq
#print axioms C03.elements_bijective
#print axioms C03.name_rule_ok
#print axioms C03.elem_projections_ok
#print axioms C03.type_binding_eq
#print axioms C03.attr_tables_eq
#print axioms C03.attr_exceptions_bound
#print axioms C03.attr_groups_eq
#print axioms C03.attr_names_nodup
#print axioms C03.simple_defs_eq
#print axioms C03.simple_sub
#print axioms C03.schema_copy_eq
