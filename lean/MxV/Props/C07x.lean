import MxV.Model.MfullWitness
/-! # C07, schema side: when is a set of children beyond completion?
`Particle.maxCount p n` bounds the occurrences of `n` in every word of the content model
(`maxCount_bounds_every_word`, by mutual induction over the particle); children that exceed it cannot
be completed to a schema-valid element whatever is added (`over_the_bound_is_hopeless`). On the
Slotted class the model refuses such a child (`Slotted.C07_reject_needed_slotted` is the converse
direction); the open C07 findings are of another kind — children the *schema* could still complete
but the matcher no longer can — and stay replayed on the real library only. -/
namespace C07
theorem maxCount_bounds_every_word (p : Particle) (n b : Nat) (hb : p.maxCount n = some b) (w : List Nat)
    (hw : p.Lang w) : occ_ n w ≤ b :=
  Particle.maxCount_bound n p w hw b hb

theorem over_the_bound_is_hopeless (p : Particle) (n b : Nat) (hb : p.maxCount n = some b) (children : List Nat)
    (h : b < occ_ n children) (w : List Nat) (hsub : ∀ x, occ_ x children ≤ occ_ x w) : ¬ p.Lang w :=
  Particle.not_completable hb h w hsub

/-- non-vacuity on a concrete content model: `(a, b?)` — two `a` are beyond completion -/
example : (Particle.seq 1 (some 1) [.elem 1 1 (some 1), .elem 2 0 (some 1)]).maxCount 1 = some 1 := by decide
end C07

#print axioms C07.maxCount_bounds_every_word
#print axioms C07.over_the_bound_is_hopeless
