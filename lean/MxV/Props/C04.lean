import MxV.Model.Element
import MxV.Tables.D_names
import MxV.Props.C03
/-! # C04 — the attribute interface of each element is exactly the schema's
Generic laws of the attribute store (`Element.setAttr` models `_set_attributes({key: value})`),
valid for every attribute table; the tables themselves are tied to the schema by
`C03.attr_tables_eq` (re-decided every run) and value validation by C05.
Partial: the six classes whose schema attribute `name` is shadowed by the Python property `name`
(dot assignment raises; open finding F10), xml:lang / xlink:* are exposed without their prefix
(open finding F12), and the 7 attribute tables the library cannot build (F9). -/
namespace C04
open Element Values

theorem storeGet_set (s : Store) (k : String) (v : PyVal) : storeGet (storeSet s k v) k = some v := by
  unfold storeSet storeGet
  split
  · rename_i h
    induction s with
    | nil => simp at h
    | cons e r ih =>
      by_cases he : e.1 = k
      · simp [List.find?, he]
      · have he' : (e.1 == k) = false := by simpa using he
        simp only [List.any_cons, he', Bool.false_or] at h
        simp only [List.map_cons, he', Bool.false_eq_true, if_false, List.find?]
        exact ih h
  · rename_i h
    simp only [List.find?_append]
    have : List.find? (fun x => x.1 == k) s = none := by
      simp only [List.find?_eq_none]
      intro x hx hk
      exact h (List.any_eq_true.2 ⟨x, hx, hk⟩)
    simp [this]

theorem storeGet_del (s : Store) (k : String) : storeGet (storeDel s k) k = Option.none := by
  unfold storeDel storeGet
  simp only [Option.map_eq_none_iff, List.find?_eq_none]
  intro x hx
  simp only [List.mem_filter] at hx
  simpa using hx.2

theorem setAttr_eq (validate : Nat → PyVal → Res) (t : Tbl) (s : Store) (key : String) (v : PyVal)
    (hv : v ≠ .none) :
    setAttr validate t s key v =
      match tblFind t (normKey key) with
      | Option.none => .error .wrongAttribute
      | some (ty, _) =>
        match validate ty v with
        | .ok => .ok (storeSet s (normKey key) v)
        | .typeError => .error .typeError
        | .valueError => .error .valueError := by
  cases v <;> first | rfl | exact absurd rfl hv

/-- assignment succeeds iff the (hyphenated) name is declared for the type and the value is valid
    for the attribute's simple type; then exactly that value is stored -/
theorem setAttr_ok_iff (validate : Nat → PyVal → Res) (t : Tbl) (s s' : Store) (key : String) (v : PyVal)
    (hv : v ≠ .none) :
    setAttr validate t s key v = .ok s' ↔
      ∃ ty req, tblFind t (normKey key) = some (ty, req) ∧ validate ty v = .ok ∧
        s' = storeSet s (normKey key) v := by
  rw [setAttr_eq validate t s key v hv]
  cases h : tblFind t (normKey key) with
  | none => simp
  | some p =>
    obtain ⟨ty, req⟩ := p
    cases hr : validate ty v <;> simp [hr, eq_comm]

/-- otherwise an error is raised and nothing is stored (the store is not even returned) -/
theorem setAttr_error_stores_nothing (validate : Nat → PyVal → Res) (t : Tbl) (s : Store) (key : String)
    (v : PyVal) (e : AErr) (h : setAttr validate t s key v = .error e) :
    ∀ s', setAttr validate t s key v ≠ .ok s' := by
  intro s' h'; rw [h] at h'; cases h'

/-- assigning None removes the attribute (whether declared or not, set or not) -/
theorem setAttr_none_removes (validate : Nat → PyVal → Res) (t : Tbl) (s : Store) (key : String) :
    setAttr validate t s key .none = .ok (storeDel s (normKey key)) ∧
    storeGet (storeDel s (normKey key)) (normKey key) = Option.none :=
  ⟨rfl, storeGet_del s _⟩

/-- after a successful assignment the stored value is the one assigned -/
theorem setAttr_stores (validate : Nat → PyVal → Res) (t : Tbl) (s s' : Store) (key : String) (v : PyVal)
    (hv : v ≠ .none) (h : setAttr validate t s key v = .ok s') : storeGet s' (normKey key) = some v := by
  obtain ⟨_, _, _, _, rfl⟩ := (setAttr_ok_iff validate t s s' key v hv).1 h
  exact storeGet_set s _ v

/-- to_string() refuses an element lacking a schema-required attribute -/
theorem missingRequired_nil_iff (t : Tbl) (s : Store) :
    missingRequired t s = [] ↔ ∀ r ∈ t, r.2.2 = true → s.any (·.1 == r.1) = true := by
  unfold missingRequired
  simp only [List.map_eq_nil_iff, List.filter_eq_nil_iff, Bool.and_eq_true, Bool.not_eq_true', not_and,
    Bool.not_eq_false]

/-- the serialised attributes are exactly the stored ones, under the stored (schema) names -/
def xmlAttrs (s : Store) : List (String × String) := s.map fun (k, v) => (k, pyStr v)
theorem serialised_eq_store (s : Store) : (xmlAttrs s).map (·.1) = s.map (·.1) := by
  simp [xmlAttrs]

/-- the underscore→hyphen mapping is idempotent, so `font_size` and `font-size` address one slot -/
theorem normKey_idem (k : String) : normKey (normKey k) = normKey k := by
  simp only [normKey, String.toList_ofList, List.map_map]
  congr 1
  apply List.map_congr_left
  intro c _
  by_cases h : c = '_' <;> simp [h]

/-! ## frame and key-uniqueness laws of the store (every table, store, key, value) -/

theorem find_map_other (s : Store) (k k' : String) (v : PyVal) (h : k' ≠ k) :
    (s.map (fun e => if e.1 == k then (k, v) else e)).find? (·.1 == k') = s.find? (·.1 == k') := by
  induction s with
  | nil => rfl
  | cons e r ih =>
    rw [List.map_cons, List.find?_cons, List.find?_cons, ih]
    by_cases he : e.1 = k
    · have h1 : (e.1 == k') = false := by rw [he]; simpa using h.symm
      have h2 : (k == k') = false := by simpa using h.symm
      simp [he, h2]
    · have : (e.1 == k) = false := by simpa using he
      simp [this]

theorem storeGet_set_other (s : Store) (k k' : String) (v : PyVal) (h : k' ≠ k) :
    storeGet (storeSet s k v) k' = storeGet s k' := by
  unfold storeGet storeSet
  split
  · rw [find_map_other s k k' v h]
  · have h2 : (k == k') = false := by simpa using h.symm
    simp [List.find?_append, h2]

theorem storeGet_del_other (s : Store) (k k' : String) (h : k' ≠ k) :
    storeGet (storeDel s k) k' = storeGet s k' := by
  unfold storeGet storeDel
  congr 1
  induction s with
  | nil => rfl
  | cons e r ih =>
    have h2 : (k == k') = false := by simpa using h.symm
    by_cases he : e.1 = k
    · have h1 : (e.1 != k) = false := by simp [he]
      rw [List.filter_cons, h1, List.find?_cons, he, h2]
      simpa using ih
    · have h1 : (e.1 != k) = true := by simpa using he
      rw [List.filter_cons, h1, if_pos rfl, List.find?_cons, List.find?_cons, ih]

/-- frame: a successful assignment to one attribute leaves every other attribute as it was -/
theorem setAttr_frame (validate : Nat → PyVal → Res) (t : Tbl) (s s' : Store) (key k' : String) (v : PyVal)
    (h : setAttr validate t s key v = .ok s') (hk : k' ≠ normKey key) : storeGet s' k' = storeGet s k' := by
  unfold setAttr at h
  cases v with
  | none => cases h; exact storeGet_del_other _ _ _ hk
  | _ =>
    all_goals
      simp only at h
      split at h
      · cases h
      · split at h
        · cases h; exact storeGet_set_other _ _ _ _ hk
        · cases h
        · cases h

theorem keys_storeSet (s : Store) (k : String) (v : PyVal) :
    (storeSet s k v).map (·.1) = if s.any (·.1 == k) then s.map (·.1) else s.map (·.1) ++ [k] := by
  unfold storeSet
  split
  · rw [List.map_map]; apply List.map_congr_left; intro e _
    by_cases he : e.1 = k <;> simp [he]
  · simp

/-- no attribute is ever stored twice (duplicate attributes would make the output ill-formed) -/
theorem setAttr_keys_nodup (validate : Nat → PyVal → Res) (t : Tbl) (s s' : Store) (key : String) (v : PyVal)
    (hn : (s.map (·.1)).Nodup) (h : setAttr validate t s key v = .ok s') : (s'.map (·.1)).Nodup := by
  have hdel : ∀ k, ((storeDel s k).map (·.1)).Nodup := by
    intro k; unfold storeDel
    exact List.Nodup.sublist (List.Sublist.map _ List.filter_sublist) hn
  have hset : ∀ k v, ((storeSet s k v).map (·.1)).Nodup := by
    intro k v; rw [keys_storeSet]
    split
    · exact hn
    · rename_i hk
      rw [List.nodup_append]
      refine ⟨hn, by simp, ?_⟩
      intro a ha b hb
      simp at hb; subst hb
      intro hab; subst hab
      apply hk
      obtain ⟨e, he, rfl⟩ := List.mem_map.mp ha
      exact List.any_eq_true.mpr ⟨e, he, by simp⟩
  unfold setAttr at h
  cases v with
  | none => cases h; exact hdel _
  | _ =>
    all_goals
      simp only at h
      split at h
      · cases h
      · split at h
        · cases h; exact hset _ _
        · cases h
        · cases h

/-- non-vacuity: a store with distinct keys, an accepted assignment, another key left alone -/
example : ([("font-size", PyVal.int 1)].map (·.1)).Nodup ∧
    (match setAttr (fun _ _ => .ok) [("font-size", 7, false), ("color", 3, false)] [("font-size", .int 1)] "color" (.int 2) with
      | .ok s => storeGet s "font-size" == some (.int 1) | .error _ => false) = true := by decide

example : (match setAttr (fun _ _ => .ok) [("font-size", 7, false)] [] "font_size" (.int 12) with
    | .ok s => s.map (·.1) | .error _ => []) = ["font-size"] := by decide
end C04

#print axioms C04.setAttr_ok_iff
#print axioms C04.setAttr_error_stores_nothing
#print axioms C04.setAttr_none_removes
#print axioms C04.setAttr_stores
#print axioms C04.missingRequired_nil_iff
#print axioms C04.serialised_eq_store
#print axioms C04.normKey_idem
#print axioms C04.storeGet_set_other
#print axioms C04.storeGet_del_other
#print axioms C04.setAttr_frame
#print axioms C04.setAttr_keys_nodup
#print axioms C15.reserved_collisions
#print axioms C15.attr_names_no_underscore
