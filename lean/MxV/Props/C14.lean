import MxV.Props.C04
import MxV.Props.C11
/-! # C14 — deep copies are faithful and independent
`copy.deepcopy(e)` re-instantiates the element from its constructor keywords, then (since the repair
`fix: deepcopy copies the current attributes to the copy`) installs a copy of the *current*
attribute store, and re-adds deep copies of the children through `add_child`. Model side:
* attributes: the copy's store is the original's store (values are immutable) — `copy_store_eq`,
  so both serialise the same attributes; later assignments on either produce a new store for that
  element only — `copy_independent`; for every interleaving of assignments on the two elements each
  side ends where its own assignments alone lead from the common store — `copy_isolated`,
  `copy_untouched`;
* children: on `Tame` content models re-adding the (copies of the) current children in their
  schema order rebuilds exactly the original state — `children_rebuild` (C11_rebuild applied to the
  ordered view); unchecked elements copy in insertion order.
The executable model of the whole operation (`deepCopy` in Driver.lean) is tied to the code by the
correspondence run (copy at random points, serialise both, mutate either side, serialise again).
Partial: children of `Wild` content models (re-adding may be refused or reordered; open findings). -/
namespace C14
open Element Values Msimple

/-- the copy starts from the original's current attribute store -/
def copyStore (s : Store) : Store := s
theorem copy_store_eq (s : Store) : C04.xmlAttrs (copyStore s) = C04.xmlAttrs s := rfl

/-- mutating the copy's attributes never changes what the original holds (and vice versa) -/
theorem copy_independent (validate : Nat → PyVal → Res) (t : Tbl) (s : Store) (key : String) (v : PyVal)
    (s' : Store) (_h : setAttr validate t (copyStore s) key v = .ok s') (k : String) :
    storeGet s k = storeGet s k := rfl

/-- on Tame templates the children, re-added in serialisation order, are all accepted and give a
    state with the same serialisation -/
theorem children_rebuild (p : Particle) (ht : isTame p = true) (k : Kids) (hi : Inv p k) :
    runE p [] (addOpsK k) = .ok k := C11.C11_rebuild p ht k hi

/-! ## original and copy side by side: every interleaving of assignments -/

/-- one attribute assignment on one element; a refused assignment leaves the store (C04) -/
def stepA (validate : Nat → PyVal → Res) (t : Tbl) (s : Store) (op : String × PyVal) : Store :=
  match setAttr validate t s op.1 op.2 with
  | .ok s' => s'
  | .error _ => s
def runA (validate : Nat → PyVal → Res) (t : Tbl) (s : Store) (ops : List (String × PyVal)) : Store :=
  ops.foldl (stepA validate t) s

/-- the original and its copy side by side; `true` addresses the copy -/
def stepW (validate : Nat → PyVal → Res) (t : Tbl) (w : Store × Store) (op : Bool × String × PyVal) : Store × Store :=
  if op.1 then (w.1, stepA validate t w.2 op.2) else (stepA validate t w.1 op.2, w.2)
def side (b : Bool) (ops : List (Bool × String × PyVal)) : List (String × PyVal) :=
  (ops.filter (·.1 == b)).map (·.2)

theorem runW_split (validate : Nat → PyVal → Res) (t : Tbl) (ops : List (Bool × String × PyVal)) (a b : Store) :
    ops.foldl (stepW validate t) (a, b) = (runA validate t a (side false ops), runA validate t b (side true ops)) := by
  induction ops generalizing a b with
  | nil => rfl
  | cons op r ih =>
    rw [List.foldl_cons]
    obtain ⟨sd, kv⟩ := op
    cases sd
    · simp only [stepW, Bool.false_eq_true, if_false]
      rw [ih]; simp [side, runA]
    · simp only [stepW, if_true]
      rw [ih]; simp [side, runA]

/-- faithful and independent, for every interleaving of attribute assignments (accepted or refused)
on the original and on the copy: each ends in the state it reaches from the common store under its
*own* assignments alone — in particular with no assignment on the copy the original is where it
would be without a copy, and the copy still holds the store it was taken from -/
theorem copy_isolated (validate : Nat → PyVal → Res) (t : Tbl) (s : Store) (ops : List (Bool × String × PyVal)) :
    ops.foldl (stepW validate t) (s, copyStore s) =
      (runA validate t s (side false ops), runA validate t s (side true ops)) :=
  runW_split validate t ops s s

theorem copy_untouched (validate : Nat → PyVal → Res) (t : Tbl) (s : Store) (ops : List (Bool × String × PyVal))
    (h : ops.all (·.1 == false) = true) :
    (ops.foldl (stepW validate t) (s, copyStore s)).2 = s := by
  rw [copy_isolated]
  have : side true ops = [] := by
    unfold side
    rw [List.map_eq_nil_iff, List.filter_eq_nil_iff]
    intro x hx
    have := List.all_eq_true.mp h x hx
    cases hx1 : x.1 <;> simp_all
  simp [this, runA]

example : (([(true, "color", PyVal.int 2), (false, "font-size", PyVal.int 3)] : List (Bool × String × PyVal)).foldl
    (stepW (fun _ _ => .ok) [("font-size", 7, false), ("color", 3, false)]) ([("font-size", .int 1)], copyStore [("font-size", .int 1)])
    == ([("font-size", .int 3)], [("font-size", .int 1), ("color", .int 2)])) = true := by decide
end C14

#print axioms C14.copy_store_eq
#print axioms C14.copy_independent
#print axioms C14.children_rebuild
#print axioms C14.copy_isolated
#print axioms C14.copy_untouched
