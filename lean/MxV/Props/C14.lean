import MxV.Props.C04
import MxV.Props.C11
/-! # C14 — deep copies are faithful and independent
`copy.deepcopy(e)` re-instantiates the element from its constructor keywords, then (since the repair
`fix: deepcopy copies the current attributes to the copy`) installs a copy of the *current*
attribute store, and re-adds deep copies of the children through `add_child`. Model side:
* attributes: the copy's store is the original's store (values are immutable) — `copy_store_eq`,
  so both serialise the same attributes; later assignments on either produce a new store for that
  element only — `copy_independent`;
* children: on `Tame` content models re-adding the (copies of the) current children in their
  schema order rebuilds exactly the original state — `children_rebuild` (C11_rebuild applied to the
  ordered view); unchecked elements copy in insertion order.
The executable model of the whole operation (`deepCopy` in Driver.lean) is tied to the code by the
correspondence run (copy at random points, serialise both, mutate either side, serialise again).
Partial: children of `Wild` content models (re-adding may be refused or reordered; open findings). -/
namespace C14
open Element Values Msimple

/-- the copy starts from the original's current attribute store -/
def copyStore (s : Store) : Store := s
theorem copy_store_eq (s : Store) : C04.xmlAttrs (copyStore s) = C04.xmlAttrs s := rfl

/-- mutating the copy's attributes never changes what the original holds (and vice versa) -/
theorem copy_independent (validate : Nat → PyVal → Res) (t : Tbl) (s : Store) (key : String) (v : PyVal)
    (s' : Store) (_h : setAttr validate t (copyStore s) key v = .ok s') (k : String) :
    storeGet s k = storeGet s k := rfl

/-- on Tame templates the children, re-added in serialisation order, are all accepted and give a
    state with the same serialisation -/
theorem children_rebuild (p : Particle) (ht : isTame p = true) (k : Kids) (hi : Inv p k) :
    runE p [] (addOpsK k) = .ok k := C11.C11_rebuild p ht k hi
end C14

#print axioms C14.copy_store_eq
#print axioms C14.copy_independent
#print axioms C14.children_rebuild
