import MxV.Model.Element
import MxV.Tables.D_names
/-! # C15 — shortcut syntax is equivalent to the explicit API
`Element.childShortcut` is the decision `e.xml_x = value` takes (xmlelement.py:76-100); the driver
carries the decision out with the *explicit* operations (replace_child / add_child / remove / value
assignment / constructing a new child), so agreement of the real `__setattr__` with the model on
every generated history *is* the equivalence the property states. The theorems pin the decision
table down; attribute shortcuts are `Element.setAttr` (C04), reads are `Element.getAttr`. -/
namespace C15
open Element

theorem instance_replaces_or_adds (found : Bool) :
    childShortcut true true found true false = (if found then .replace else .add) := by
  cases found <;> rfl
theorem none_removes (found : Bool) :
    childShortcut true true found false true = (if found then .remove else .nothing) := by
  cases found <;> rfl
theorem value_sets_or_builds (found : Bool) :
    childShortcut true true found false false = (if found then .setValue else .addNew) := by
  cases found <;> rfl
theorem unknown_name_is_attribute_error (c f i n : Bool) : childShortcut false c f i n = .attributeError := by
  simp [childShortcut]

/-! ## spelling independence of the attribute shortcut (all keys, tables, stores, values) -/

/-- the underscore spelling of a key (`font-size` → `font_size`) -/
def under (k : String) : String := String.ofList (k.toList.map fun c => if c == '-' then '_' else c)

/-- both spellings normalise to the same schema name — for every key -/
theorem normKey_under (k : String) : normKey (under k) = normKey k := by
  unfold normKey under
  congr 1
  rw [String.toList_ofList, List.map_map]
  apply List.map_congr_left
  intro c _
  by_cases h : c = '-'
  · subst h; decide
  · simp [h]

theorem normKey_idem (k : String) : normKey (normKey k) = normKey k := by
  unfold normKey
  congr 1
  rw [String.toList_ofList, List.map_map]
  apply List.map_congr_left
  intro c _
  by_cases h : c = '_'
  · subst h; decide
  · simp [h]

/-- attribute assignment does not depend on the spelling of the key: for every table, store,
validator, key and value, `e.font_size = v` and `XMLx(**{'font-size': v})` take the same step -/
theorem setAttr_spelling (validate : Nat → Values.PyVal → Values.Res) (t : Tbl) (s : Store) (key : String) (v : Values.PyVal) :
    setAttr validate t s (under key) v = setAttr validate t s key v := by
  unfold setAttr; rw [normKey_under]

theorem setAttr_normalised (validate : Nat → Values.PyVal → Values.Res) (t : Tbl) (s : Store) (key : String) (v : Values.PyVal) :
    setAttr validate t s (normKey key) v = setAttr validate t s key v := by
  unfold setAttr; rw [normKey_idem]

theorem storeGet_storeSet (s : Store) (k : String) (v : Values.PyVal) : storeGet (storeSet s k v) k = some v := by
  unfold storeGet storeSet
  split
  · rename_i h
    induction s with
    | nil => simp at h
    | cons e r ih =>
      by_cases he : e.1 = k
      · simp [he]
      · have : r.any (·.1 == k) = true := by simpa [he] using h
        simp [he]
        simpa using ih this
  · rename_i h
    have : s.find? (·.1 == k) = none := by
      rw [List.find?_eq_none]; intro x hx hk; exact h (List.any_eq_true.mpr ⟨x, hx, hk⟩)
    simp [List.find?_append, this]

/-- read-after-write through either spelling: a successful non-None assignment is what a dot read of
the same attribute (underscore or hyphen spelling) returns -/
theorem get_after_set (validate : Nat → Values.PyVal → Values.Res) (t : Tbl) (s s' : Store) (key key' : String) (v : Values.PyVal)
    (hv : v ≠ .none) (hk : normKey key' = normKey key) (h : setAttr validate t s key v = .ok s') :
    (match getAttr t s' key' with | .val w => w = v | _ => False) := by
  unfold setAttr at h
  cases v with
  | none => exact absurd rfl hv
  | _ =>
    all_goals
      simp only at h
      split at h
      · cases h
      · split at h
        · cases h; unfold getAttr; rw [hk, storeGet_storeSet]
        · cases h
        · cases h

theorem storeGet_storeDel (s : Store) (k : String) : storeGet (storeDel s k) k = none := by
  unfold storeGet storeDel
  have : (s.filter (·.1 != k)).find? (·.1 == k) = none := by
    rw [List.find?_eq_none]; intro x hx hk
    have := (List.mem_filter.mp hx).2
    simp_all
  simp [this]

/-- assigning None through either spelling removes the attribute: the following read no longer
returns a value (None for a declared attribute, AttributeError otherwise) -/
theorem get_after_remove (validate : Nat → Values.PyVal → Values.Res) (t : Tbl) (s : Store) (key key' : String)
    (hk : normKey key' = normKey key) :
    ∃ s', setAttr validate t s key .none = .ok s' ∧
      (match getAttr t s' key' with | .val _ => False | _ => True) := by
  refine ⟨storeDel s (normKey key), rfl, ?_⟩
  unfold getAttr; rw [hk, storeGet_storeDel]
  simp only
  by_cases hd : (List.any t fun r => String.ofList (List.map (fun c => if (c == '-') = true then '_' else c) r.fst.toList) == key') = true
  · rw [if_pos hd]; trivial
  · rw [if_neg hd]; trivial

/-- the premises are met by the two spellings of any key, e.g. `font_size` / `font-size` -/
example : normKey (under "font-size") = normKey "font-size" ∧ under "font-size" = "font_size" :=
  ⟨normKey_under _, by decide⟩

/-- underscore spelling and hyphen spelling address the same child / attribute -/
example : shortcutChildName "xml_display_step" = "display-step" ∧ shortcutClassName "xml_display_step" = "XMLDisplayStep" := by
  decide
/-- reading a declared but unset attribute gives None, an undeclared one AttributeError -/
example : (match getAttr [("font-size", 1, false)] [] "font_size" with | .none => true | _ => false) = true ∧
    (match getAttr [("font-size", 1, false)] [] "colour" with | .attributeError => true | _ => false) = true := by
  decide
end C15

#print axioms C15.instance_replaces_or_adds
#print axioms C15.none_removes
#print axioms C15.value_sets_or_builds
#print axioms C15.unknown_name_is_attribute_error
#print axioms C15.element_names_no_underscore
#print axioms C15.attr_names_no_underscore
#print axioms C15.reserved_collisions
#print axioms C15.normKey_under
#print axioms C15.normKey_idem
#print axioms C15.setAttr_spelling
#print axioms C15.setAttr_normalised
#print axioms C15.get_after_set
#print axioms C15.get_after_remove
