import MxV.Model.Element
import MxV.Tables.D_names
/-! # C15 — shortcut syntax is equivalent to the explicit API
`Element.childShortcut` is the decision `e.xml_x = value` takes (xmlelement.py:76-100); the driver
carries the decision out with the *explicit* operations (replace_child / add_child / remove / value
assignment / constructing a new child), so agreement of the real `__setattr__` with the model on
every generated history *is* the equivalence the property states. The theorems pin the decision
table down; attribute shortcuts are `Element.setAttr` (C04), reads are `Element.getAttr`. -/
namespace C15
open Element

theorem instance_replaces_or_adds (found : Bool) :
    childShortcut true true found true false = (if found then .replace else .add) := by
  cases found <;> rfl
theorem none_removes (found : Bool) :
    childShortcut true true found false true = (if found then .remove else .nothing) := by
  cases found <;> rfl
theorem value_sets_or_builds (found : Bool) :
    childShortcut true true found false false = (if found then .setValue else .addNew) := by
  cases found <;> rfl
theorem unknown_name_is_attribute_error (c f i n : Bool) : childShortcut false c f i n = .attributeError := by
  simp [childShortcut]

/-- underscore spelling and hyphen spelling address the same child / attribute -/
example : shortcutChildName "xml_display_step" = "display-step" ∧ shortcutClassName "xml_display_step" = "XMLDisplayStep" := by
  decide
/-- reading a declared but unset attribute gives None, an undeclared one AttributeError -/
example : (match getAttr [("font-size", 1, false)] [] "font_size" with | .none => true | _ => false) = true ∧
    (match getAttr [("font-size", 1, false)] [] "colour" with | .attributeError => true | _ => false) = true := by
  decide
end C15

#print axioms C15.instance_replaces_or_adds
#print axioms C15.none_removes
#print axioms C15.value_sets_or_builds
#print axioms C15.unknown_name_is_attribute_error
#print axioms C15.element_names_no_underscore
#print axioms C15.attr_names_no_underscore
#print axioms C15.reserved_collisions
