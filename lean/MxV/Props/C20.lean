import MxV.Gen.Shapes
/-! # C20 — independent documents can be built concurrently from several threads
The two lazily filled class-level attribute tables (`XSDComplexType.get_xsd_attributes`,
`XSDAttributeGroup.get_xsd_attributes`) are extracted from the AST; `publishAfterFill` is decided on
them, and `Shapes.publish_after_fill_safe` gives: for any number of threads and any schedule
(statement-granular), every thread gets the complete table. The other class-level cells written
after import are single assignments of a completely built object (listed in `classCells`,
bounded by the table theorem below).
What the model cannot exhibit: pre-emption inside a bytecode of CPython's list/dict primitives
(assumed atomic under the GIL), free-threaded builds; per-instance state is not shared. -/
namespace C20
open Shapes Gen

theorem complex_publish_after_fill : publishAfterFill lazyComplex = true := by decide
theorem group_publish_after_fill : publishAfterFill lazyGroup = true := by decide

/-- any table size `n` (the number of append steps a particular type performs), any number of
    threads `m`, any schedule: whoever returns from get_xsd_attributes holds the complete table -/
theorem attribute_tables_thread_safe (n m : Nat) (sched : List Nat) :
    ∀ t ∈ (runSched n { cell := none, threads := List.replicate m .start } sched).threads,
      ∀ r, t = .done r → r = some n :=
  publish_after_fill_safe n m sched

/-- the class-level cells assigned inside functions of the runtime modules are exactly the known
    lazily initialised ones (a new shared cell makes this fail and is then examined) -/
def knownCells : List String := ["_XSD_ATTRIBUTES", "XSD_TREE", "_XSD_TREE"]
theorem class_cells_known : classCells.all (fun c => knownCells.contains c.2.2.2) = true := by decide

/-- class-body attributes holding a mutable container are the known constant tables (never mutated
    in place after import: `_PROPERTIES`, and the simple-type class constants) -/
def knownMutables : List String := ["_PROPERTIES", "_TYPES", "_UNION", "_FORCED_PERMITTED", "_PERMITTED"]
theorem class_mutables_known : classMutables.all (fun c => knownMutables.contains c.2.2) = true := by decide

/-- the lazily cached fields of the objects that hang off those tables (`XSDAttribute`, `XSDTree`: shared by all
    threads) are written with their final value in one assignment: no function assigns one of them twice on a path,
    so no provisional value is ever visible -/
theorem no_provisional_publication : provisionalPublications = [] := by decide

/-- the pre-repair shape (publish an empty list, then append to it) really is unsafe: see
    `Shapes.publish_then_fill_unsafe` (a 3-step schedule in which the second thread returns an
    empty table) -/
example : True := trivial
end C20

#print axioms C20.complex_publish_after_fill
#print axioms C20.group_publish_after_fill
#print axioms C20.attribute_tables_thread_safe
#print axioms C20.class_cells_known
#print axioms C20.class_mutables_known
#print axioms C20.no_provisional_publication
