import MxV.Gen.Shapes
/-! # C20 — independent documents can be built concurrently from several threads
The two lazily filled class-level attribute tables (`XSDComplexType.get_xsd_attributes`,
`XSDAttributeGroup.get_xsd_attributes`) are extracted from the AST; `publishAfterFill` is decided on
them, and `Shapes.publish_after_fill_safe` gives: for any number of threads and any schedule
(statement-granular), every thread gets the complete table (safety); `attribute_tables_progress`
adds progress: a thread that is given `n + 3` turns has returned the complete table, however the
other threads' turns are interleaved (no thread can be blocked or starved by the others' steps). The other class-level cells written
after import are single assignments of a completely built object (listed in `classCells`,
bounded by the table theorem below).
What the model cannot exhibit: pre-emption inside a bytecode of CPython's list/dict primitives
(assumed atomic under the GIL), free-threaded builds; per-instance state is not shared. -/
namespace C20
open Shapes Gen

theorem complex_publish_after_fill : publishAfterFill lazyComplex = true := by decide
theorem group_publish_after_fill : publishAfterFill lazyGroup = true := by decide

/-- any table size `n` (the number of append steps a particular type performs), any number of
    threads `m`, any schedule: whoever returns from get_xsd_attributes holds the complete table -/
theorem attribute_tables_thread_safe (n m : Nat) (sched : List Nat) :
    ∀ t ∈ (runSched n { cell := none, threads := List.replicate m .start } sched).threads,
      ∀ r, t = .done r → r = some n :=
  publish_after_fill_safe n m sched

/-- the class-level cells assigned inside functions of the runtime modules are exactly the known
    lazily initialised ones (a new shared cell makes this fail and is then examined) -/
def knownCells : List String := ["_XSD_ATTRIBUTES", "XSD_TREE", "_XSD_TREE"]
theorem class_cells_known : classCells.all (fun c => knownCells.contains c.2.2.2) = true := by decide

/-- class-body attributes holding a mutable container are the known constant tables (never mutated
    in place after import: `_PROPERTIES`, and the simple-type class constants) -/
def knownMutables : List String := ["_PROPERTIES", "_TYPES", "_UNION", "_FORCED_PERMITTED", "_PERMITTED"]
theorem class_mutables_known : classMutables.all (fun c => knownMutables.contains c.2.2) = true := by decide

/-- the lazily cached fields of the objects that hang off those tables (`XSDAttribute`, `XSDTree`: shared by all
    threads) are written with their final value in one assignment: no function assigns one of them twice on a path,
    so no provisional value is ever visible -/
theorem no_provisional_publication : provisionalPublications = [] := by decide

/-- the pre-repair shape (publish an empty list, then append to it) really is unsafe: see
    `Shapes.publish_then_fill_unsafe` (a 3-step schedule in which the second thread returns an
    empty table) -/
example : True := trivial

/-! ## progress: no schedule can keep a thread that gets its turns from returning -/

/-- steps thread state `t` still needs before it has returned (table of `n` items) -/
def remaining (n : Nat) : Th → Nat
  | .start => n + 3
  | .filling k => n - k + 2
  | .after => 1
  | .done _ => 0

def rem (n : Nat) (s : Sys) (i : Nat) : Nat := match s.threads[i]? with | some t => remaining n t | none => 0

theorem stepTh_remaining (n : Nat) (cell : Option Nat) (t : Th) :
    remaining n (stepTh n cell t).2 ≤ remaining n t - 1 := by
  cases t with
  | start =>
    by_cases hc : cell.isNone = true
    · simp [stepTh, hc, remaining]
    · simp [stepTh, hc, remaining]
  | filling k =>
    by_cases hk : k < n
    · simp only [stepTh, if_pos hk, remaining]; omega
    · simp only [stepTh, if_neg hk, remaining]; omega
  | after => simp [stepTh, remaining]
  | done r => simp [stepTh, remaining]

theorem rem_step (n : Nat) (s : Sys) (i j : Nat) :
    rem n (stepSys n s j) i ≤ rem n s i - (if j = i then 1 else 0) := by
  unfold stepSys
  cases hj : s.threads[j]? with
  | none =>
    simp only [rem]
    by_cases hji : j = i
    · subst hji; simp [hj]
    · simp [hji]
  | some t =>
    simp only [rem]
    by_cases hji : j = i
    · subst hji
      have hlt : j < s.threads.length := by
        rcases Nat.lt_or_ge j s.threads.length with h | h
        · exact h
        · rw [List.getElem?_eq_none h] at hj; cases hj
      simp only [List.getElem?_set_self hlt, hj, if_true]
      exact stepTh_remaining n s.cell t
    · simp only [List.getElem?_set_ne hji, if_neg hji, Nat.sub_zero]
      exact Nat.le_refl _

theorem rem_run (n : Nat) (sched : List Nat) (s : Sys) (i : Nat) :
    rem n (runSched n s sched) i ≤ rem n s i - sched.count i := by
  induction sched generalizing s with
  | nil => simp [runSched]
  | cons j r ih =>
    have h1 := ih (stepSys n s j)
    have h2 := rem_step n s i j
    unfold runSched at h1 ⊢
    rw [List.foldl_cons, List.count_cons]
    by_cases hji : j = i
    · subst hji; simp only [beq_self_eq_true, if_true] at h2 ⊢; omega
    · have : (j == i) = false := by simpa using hji
      simp only [this, if_neg hji] at h2 ⊢; simp at h2 ⊢; omega

/-- progress under *any* schedule: a thread that has been given `n + 3` turns (however the turns of
the other threads are interleaved) has returned, and what it returned is the complete table -/
theorem attribute_tables_progress (n m : Nat) (sched : List Nat) (i : Nat) (hi : i < m)
    (hturns : n + 3 ≤ sched.count i) :
    (runSched n { cell := none, threads := List.replicate m .start } sched).threads[i]? = some (.done (some n)) := by
  have hr := rem_run n sched { cell := none, threads := List.replicate m .start } i
  have h0 : rem n { cell := none, threads := List.replicate m .start } i = n + 3 := by
    simp [rem, hi, remaining]
  rw [h0] at hr
  have hz : rem n (runSched n { cell := none, threads := List.replicate m .start } sched) i = 0 := by omega
  have hlen : ∀ (sc : List Nat) (s : Sys), (runSched n s sc).threads.length = s.threads.length := by
    intro sc; induction sc with
    | nil => intro s; rfl
    | cons j r ih =>
      intro s; unfold runSched at ih ⊢; rw [List.foldl_cons, ih]
      unfold stepSys; split <;> simp
  have hlt : i < (runSched n { cell := none, threads := List.replicate m .start } sched).threads.length := by
    rw [hlen]; simpa using hi
  unfold rem at hz
  rw [List.getElem?_eq_getElem hlt] at hz ⊢
  simp only at hz
  have hmem := List.getElem_mem hlt
  cases ht : (runSched n { cell := none, threads := List.replicate m .start } sched).threads[i] with
  | start => rw [ht] at hz; simp [remaining] at hz
  | filling k => rw [ht] at hz; simp [remaining] at hz
  | after => rw [ht] at hz; simp [remaining] at hz
  | done r =>
    have := attribute_tables_thread_safe n m sched _ hmem r ht
    rw [this]

example : (runSched 2 { cell := none, threads := List.replicate 2 .start } [0, 1, 0, 1, 0, 0, 1, 1, 0, 1]).threads[1]? =
    some (.done (some 2)) := attribute_tables_progress 2 2 _ 1 (by decide) (by decide)
end C20

#print axioms C20.complex_publish_after_fill
#print axioms C20.group_publish_after_fill
#print axioms C20.attribute_tables_thread_safe
#print axioms C20.class_cells_known
#print axioms C20.class_mutables_known
#print axioms C20.no_provisional_publication
#print axioms C20.stepTh_remaining
#print axioms C20.rem_run
#print axioms C20.attribute_tables_progress
