import MxV.Model.MsimpleTheory
import MxV.Props.C03
/-! # C01 — serialised child structure is always valid against the MusicXML 4.0 schema

Proven domain `D`: the `Tame` templates (61 `Flat` + 7 `RootChoice` of the 94 element-content
types) × every history of add / forward-add / remove / same-name replace / failed attempts
(`Msimple.run`). For the 26 `Wild` types no theorem is claimed (partial); there the tie is the
correspondence run against `Mfull` and the open findings.

`required p k = []` is the model's "final check passes"; `names (ordered p k)` is the child-name
word `to_string()` emits. -/
namespace C01
open Msimple

/-- every reachable state of a Tame element that passes the final check serialises a word of its
    (impl) content model -/
theorem C01_tame (p : Particle) (ht : isTame p = true) (k : Kids) (hi : Inv p k)
    (hv : required p k = []) : p.Lang (names (ordered p k)) := by
  by_cases hf : isFlat p = true
  · obtain ⟨hfl, hnd⟩ := isFlat_iff.1 hf
    rw [names_ordered_flat hf]
    simp only [required, hf, if_true] at hv
    exact lang_render_of_ok p hfl hnd _ (ok_of_missing_nil _ p hfl (hi.2.1 hf) hv)
  · have hrc : isRootChoice p = true := by
      simp only [isTame, Bool.or_eq_true, Bool.and_eq_true] at ht
      rcases ht with h | h
      · exact absurd h hf
      · exact h.1
    obtain ⟨mi, ma, ps, rfl, hmi, hne, hma, hu⟩ := isRootChoice_shape hrc
    have hord : ordered (.choice mi ma ps) k = k := by simp [ordered, flat_not_choice]
    rw [hord, lang_rootChoice hu]
    refine ⟨?_, ?_, ?_⟩
    · intro x hx
      obtain ⟨c, hc, rfl⟩ := List.mem_map.1 hx
      simpa [Particle.leaves] using hi.1 c hc
    · simp only [required, flat_not_choice] at hv
      have hlen : (names k).length = k.length := by simp [names]
      rw [hlen]
      by_cases hk : k = []
      · subst hk
        simp only [List.isEmpty_nil, Bool.and_true] at hv
        by_cases h1 : mi ≥ 1
        · simp only [h1, decide_true, if_true] at hv
          -- a non-empty list of unit leaves has a non-empty flattened leaf list
          exfalso
          cases ps with
          | nil => exact hne rfl
          | cons q qs =>
            simp only [List.all_cons, Bool.and_eq_true] at hu
            cases q with
            | elem n _ _ => simp [Particle.leaves] at hv
            | _ => simp [isUnitLeaf] at hu
        · simp; omega
      · have : 0 < k.length := List.length_pos_iff.2 hk
        omega
    · have hlen : (names k).length = k.length := by simp [names]
      rw [hlen]
      rcases hma with rfl | rfl
      · rfl
      · simpa [leMax] using hi.2.2 mi ps rfl

/-- ... for every operation history (no bound on its length) -/
theorem C01_reachable (p : Particle) (ht : isTame p = true) (ops : List Op)
    (hv : required p (run p ops) = []) : p.Lang (names (ordered p (run p ops))) :=
  C01_tame p ht _ (inv_run p ops) hv

/-- ... and the word is accepted by the *pinned schema's* content model of the same type key
    (C03.templates_lang_eq, re-decided on the regenerated tables every run), as decided by the
    verified matcher `Particle.accepts`. -/
theorem C01_schema (key : Nat) (p q : Particle)
    (hp : C03.lookup key Gen.implTemplates = some p) (hq : C03.lookup key Gen.specTemplates = some q)
    (ht : isTame p = true) (ops : List Op) (hv : required p (run p ops) = []) :
    q.accepts (names (ordered p (run p ops))) = true :=
  (Particle.accepts_iff _ _).2 ((C03.templates_lang_eq key p q hp hq _).1 (C01_reachable p ht ops hv))

/-! non-vacuity: a concrete Flat template (pitch = step, alter?, octave) and a RootChoice -/
def pitchT : Particle := .seq 1 (some 1) [.elem 0 1 (some 1), .elem 1 0 (some 1), .elem 2 1 (some 1)]
def dynT : Particle := .choice 0 none [.elem 5 1 (some 1), .elem 6 1 (some 1)]
example : isTame pitchT = true ∧ isTame dynT = true := by decide
example : required pitchT (run pitchT [.add 1 2 none, .add 2 0 none, .add 3 7 none, .add 4 0 none, .rm 9]) = [] ∧
    names (ordered pitchT (run pitchT [.add 1 2 none, .add 2 0 none, .add 3 7 none, .add 4 0 none])) = [0, 2] := by
  decide
example : required pitchT (run pitchT [.add 1 2 none]) = [0] := by decide
end C01

#print axioms C01.C01_tame
#print axioms C01.C01_reachable
#print axioms C01.C01_schema

/-! ## nested documents: every checked node of a tree -/
namespace C01
open Msimple

/-- a document: each node has its content-model template, its (reachable) child state and the
    sub-documents of its children -/
inductive Doc where
  | node (p : Particle) (k : Kids) (subs : List Doc)

mutual
/-- `_final_checks` recursion: the node's own check, then every child's -/
def Doc.checks : Doc → Bool
  | .node p k subs => (required p k == []) && Doc.checksL subs
def Doc.checksL : List Doc → Bool
  | [] => true
  | d :: ds => d.checks && Doc.checksL ds
end

mutual
/-- every node is a Tame template in a reachable state -/
def Doc.Good : Doc → Prop
  | .node p k subs => isTame p = true ∧ Inv p k ∧ Doc.GoodL subs
def Doc.GoodL : List Doc → Prop
  | [] => True
  | d :: ds => d.Good ∧ Doc.GoodL ds
end

mutual
/-- every node's serialised child word is in its content model -/
def Doc.Valid : Doc → Prop
  | .node p k subs => p.Lang (names (ordered p k)) ∧ Doc.ValidL subs
def Doc.ValidL : List Doc → Prop
  | [] => True
  | d :: ds => d.Valid ∧ Doc.ValidL ds
end

mutual
theorem C01_tree : (d : Doc) → d.Good → d.checks = true → d.Valid
  | .node p k subs, hg, hc => by
    simp only [Doc.Good] at hg
    simp only [Doc.checks, Bool.and_eq_true, beq_iff_eq] at hc
    exact ⟨C01_tame p hg.1 k hg.2.1 hc.1, C01_treeL subs hg.2.2 hc.2⟩
theorem C01_treeL : (ds : List Doc) → Doc.GoodL ds → Doc.checksL ds = true → Doc.ValidL ds
  | [], _, _ => trivial
  | d :: ds, hg, hc => by
    simp only [Doc.GoodL] at hg
    simp only [Doc.checksL, Bool.and_eq_true] at hc
    exact ⟨C01_tree d hg.1 hc.1, C01_treeL ds hg.2 hc.2⟩
end
end C01

#print axioms C01.C01_tree
