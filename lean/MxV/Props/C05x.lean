import MxV.Core.SRE
import MxV.Props.C05
/-! # C05 — integers are written in the lexical space of xs:integer, stated with the schema's own expression
`intLexS` is `[\-+]?[0-9]+` (XML Schema part 2, 3.3.13.1); `int_renders_in_xs_integer`: for every
`z : ℤ`, the text `str(z)` the library writes is matched by it (verified matcher, all of ℤ). -/
namespace C05
open SRE

/-- the lexical space of xs:integer as an expression: `[\-+]?[0-9]+` -/
def digitS : SRE := .cls false [(48, 57)]
def intLexS : SRE := .cat (.alt .eps (.cls false [(43, 43), (45, 45)])) (.cat digitS (.star digitS))

theorem L_star_digits : ∀ (w : List Nat), (∀ x ∈ w, 48 ≤ x ∧ x ≤ 57) → L (.star digitS) w
  | [], _ => RE.Matches.starNil
  | c :: r, h => by
    have hc := h c List.mem_cons_self
    have ih := L_star_digits r (fun x hx => h x (List.mem_cons_of_mem _ hx))
    have h1 : L digitS [c] := by
      apply RE.Matches.atom
      simp [atomP, inR, hc.1, hc.2]
    exact RE.Matches.starCons (u := [c]) h1 ih

theorem L_digits1 {w : List Nat} (hne : w ≠ []) (h : ∀ x ∈ w, 48 ≤ x ∧ x ≤ 57) : L (.cat digitS (.star digitS)) w := by
  cases w with
  | nil => exact absurd rfl hne
  | cons c r =>
    have hc := h c List.mem_cons_self
    have h1 : L digitS [c] := by
      apply RE.Matches.atom
      simp [atomP, inR, hc.1, hc.2]
    exact RE.Matches.cat (u := [c]) h1 (L_star_digits r (fun x hx => h x (List.mem_cons_of_mem _ hx)))

theorem isDigit_range {c : Char} (h : c.isDigit = true) : 48 ≤ c.val.toNat ∧ c.val.toNat ≤ 57 := by
  simp only [Char.isDigit, Bool.and_eq_true, decide_eq_true_eq] at h
  constructor
  · have := h.1; exact UInt32.le_iff_toNat_le.mp this
  · have := h.2; exact UInt32.le_iff_toNat_le.mp this

theorem digits_codes {l : List Char} (h : l.all Char.isDigit = true) : ∀ x ∈ l.map (fun c => c.val.toNat), 48 ≤ x ∧ x ≤ 57 := by
  intro x hx
  obtain ⟨c, hc, rfl⟩ := List.mem_map.1 hx
  exact isDigit_range (List.all_eq_true.1 h c hc)

/-- whatever `isIntegerLexical` accepts is in the language of the xs:integer expression -/
theorem integerLexical_matches (l : List Char) (h : isIntegerLexical l = true) :
    RE.rmatch intLexS.toREc l = true := by
  rw [toREc, RE.rmatch_comap, ← smatch_eq, smatch_iff]
  have key : ∀ (r : List Char), r.isEmpty = false → r.all Char.isDigit = true →
      L (.cat digitS (.star digitS)) (r.map fun c => c.val.toNat) := by
    intro r hne hd
    apply L_digits1
    · intro e; cases r <;> simp_all
    · exact digits_codes hd
  unfold isIntegerLexical at h
  split at h
  · rename_i r
    simp only [Bool.and_eq_true, Bool.not_eq_true'] at h
    have := key r h.1 h.2
    show L intLexS ((('-' : Char) :: r).map fun c => c.val.toNat)
    exact RE.Matches.cat (u := [45]) (RE.Matches.altR (RE.Matches.atom (by decide))) this
  · rename_i r
    simp only [Bool.and_eq_true, Bool.not_eq_true'] at h
    have := key r h.1 h.2
    show L intLexS ((('+' : Char) :: r).map fun c => c.val.toNat)
    exact RE.Matches.cat (u := [43]) (RE.Matches.altR (RE.Matches.atom (by decide))) this
  · simp only [Bool.and_eq_true, Bool.not_eq_true'] at h
    have := key l h.1 h.2
    exact RE.Matches.cat (u := []) (RE.Matches.altL RE.Matches.eps) this

/-- **every Python int is serialised as a valid xs:integer literal** -/
theorem int_renders_in_xs_integer (z : Int) : RE.rmatch intLexS.toREc (Values.pyStr (.int z)).toList = true :=
  integerLexical_matches _ (int_render_is_lexical z)

/-- `intLexS` is the expression the XSD-regex translator produces for `[\-+]?[0-9]+`, up to language (kernel-run of the verified checker) -/
theorem intLexS_is_the_schema_expression :
    SRE.equiv intLexS (SRE.seqs [SRE.bounded (SRE.cls false [(43, 43), (45, 45)]) 0 (some 1), SRE.bounded (SRE.cls false [(48, 57)]) 1 none]) = true := by
  decide +kernel
end C05

#print axioms C05.integerLexical_matches
#print axioms C05.int_renders_in_xs_integer
#print axioms C05.intLexS_is_the_schema_expression
