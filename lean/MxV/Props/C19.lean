import MxV.Model.MsimpleTheory
import MxV.Props.C04
/-! # C19 — misuse is reported with the documented exception types, silently otherwise
Model side: on `Tame` templates every rejection of an operation without an explicit `forward`
index is one of the documented kinds (and since the repair `fix: add_child(child, forward=i) with an
index outside the same-name leaves raises 'Wrong forwarding'` also with one). The model functions are total
structural recursions, which is the modelled part of "never hangs". Output silence and the exception
classes of the real code are checked by the correspondence run (captured stdout/stderr, exception
enum). Partial: `Wild` types (open findings: NotImplementedError, IndexError, TypeError). -/
namespace C19
open Msimple

def Documented : Err → Prop
  | .wrongElement | .maxOccurs | .anotherChosen | .notAChild => True
  | _ => False

def noForward : Op → Prop
  | .add _ _ f => f = none
  | _ => True

theorem errors_documented_tame (p : Particle) (k : Kids) (op : Op) (e : Err)
    (hop : noForward op) (h : step p k op = .error e) : Documented e := by
  cases op with
  | add c n f =>
    simp only [noForward] at hop; subst hop
    simp only [step, add, fwdOk, Bool.not_true, Bool.false_eq_true, if_false, Option.isSome_none,
      Bool.false_and] at h
    split at h
    · split at h
      · cases h; trivial
      · split at h
        · cases h
        · cases h; trivial
    · split at h
      · split at h
        · cases h; trivial
        · split at h
          · cases h
          · split at h
            · cases h
            · split at h <;> cases h <;> trivial
      · cases h; trivial
  | rm c =>
    simp only [step, remove] at h
    split at h <;> cases h; trivial
  | repl o nw n =>
    simp only [step, replace] at h
    split at h
    · cases h; trivial
    · split at h <;> cases h; trivial

/-- with forward 0 or -1 (the only valid indices when a name has one leaf) the same holds on Flat -/
theorem errors_documented_flat_fwd (p : Particle) (hf : isFlat p = true) (k : Kids) (c n : Nat) (f : Option Int)
    (hfw : fwdOk f = true) (e : Err) (h : add p k c n f = .error e) : Documented e := by
  simp only [add, hf, if_true, hfw, Bool.not_true, Bool.false_eq_true, if_false] at h
  split at h
  · cases h; trivial
  · split at h <;> cases h; trivial

/-! ## attribute misuse (model `Element.setAttr`; its tie to the code — exception enum included — is
the element-engine correspondence of the C04 / C15 checks, which this check's obligations share) -/
section Attr
open Element Values

/-- attribute misuse: the kind of error is determined by *why* the assignment is refused — an
undeclared name gives the wrong-attribute error (XSDWrongAttribute / AttributeError), a declared name
with a refused value gives exactly the validator's TypeError / ValueError; the internal KeyError is
never produced — for every table, validator, store, key and value -/
theorem attr_errors_documented (validate : Nat → PyVal → Res) (t : Tbl) (s : Store) (key : String) (v : PyVal)
    (e : AErr) (h : setAttr validate t s key v = .error e) :
    (e = .wrongAttribute ∧ tblFind t (normKey key) = Option.none) ∨
    (∃ ty rq, tblFind t (normKey key) = some (ty, rq) ∧
      ((e = .typeError ∧ validate ty v = .typeError) ∨ (e = .valueError ∧ validate ty v = .valueError))) := by
  by_cases hv : v = .none
  · subst hv; simp [setAttr] at h
  · rw [C04.setAttr_eq validate t s key v hv] at h
    cases hf : tblFind t (normKey key) with
    | none => simp only [hf] at h; cases h; exact .inl ⟨rfl, rfl⟩
    | some tr =>
      obtain ⟨ty, rq⟩ := tr
      simp only [hf] at h
      refine .inr ⟨ty, rq, rfl, ?_⟩
      cases hr : validate ty v with
      | ok => simp only [hr] at h; cases h
      | typeError => simp only [hr] at h; cases h; exact .inl ⟨rfl, rfl⟩
      | valueError => simp only [hr] at h; cases h; exact .inr ⟨rfl, rfl⟩

/-- removing (assigning None) is never an error, declared or not -/
theorem attr_remove_silent (validate : Nat → PyVal → Res) (t : Tbl) (s : Store) (key : String) :
    ∃ s', setAttr validate t s key .none = .ok s' := ⟨_, rfl⟩

example : (match setAttr (fun _ _ => .typeError) [("font-size", 7, false)] [] "font_size" (.int 1) with
      | .error .typeError => true | _ => false) = true ∧
    (match setAttr (fun _ _ => .ok) [("font-size", 7, false)] [] "colour" (.int 1) with
      | .error .wrongAttribute => true | _ => false) = true := by decide
end Attr
end C19

#print axioms C19.errors_documented_tame
#print axioms C19.errors_documented_flat_fwd
#print axioms C19.attr_errors_documented
#print axioms C19.attr_remove_silent
