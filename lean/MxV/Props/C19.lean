import MxV.Model.MsimpleTheory
/-! # C19 — misuse is reported with the documented exception types, silently otherwise
Model side: on `Tame` templates every rejection of an operation without an explicit `forward`
index is one of the documented kinds (and since the repair `fix: add_child(child, forward=i) with an
index outside the same-name leaves raises 'Wrong forwarding'` also with one). The model functions are total
structural recursions, which is the modelled part of "never hangs". Output silence and the exception
classes of the real code are checked by the correspondence run (captured stdout/stderr, exception
enum). Partial: `Wild` types (open findings: NotImplementedError, IndexError, TypeError). -/
namespace C19
open Msimple

def Documented : Err → Prop
  | .wrongElement | .maxOccurs | .anotherChosen | .notAChild => True
  | _ => False

def noForward : Op → Prop
  | .add _ _ f => f = none
  | _ => True

theorem errors_documented_tame (p : Particle) (k : Kids) (op : Op) (e : Err)
    (hop : noForward op) (h : step p k op = .error e) : Documented e := by
  cases op with
  | add c n f =>
    simp only [noForward] at hop; subst hop
    simp only [step, add, fwdOk, Bool.not_true, Bool.false_eq_true, if_false, Option.isSome_none,
      Bool.false_and] at h
    split at h
    · split at h
      · cases h; trivial
      · split at h
        · cases h
        · cases h; trivial
    · split at h
      · split at h
        · cases h; trivial
        · split at h
          · cases h
          · split at h
            · cases h
            · split at h <;> cases h <;> trivial
      · cases h; trivial
  | rm c =>
    simp only [step, remove] at h
    split at h <;> cases h; trivial
  | repl o nw n =>
    simp only [step, replace] at h
    split at h
    · cases h; trivial
    · split at h <;> cases h; trivial

/-- with forward 0 or -1 (the only valid indices when a name has one leaf) the same holds on Flat -/
theorem errors_documented_flat_fwd (p : Particle) (hf : isFlat p = true) (k : Kids) (c n : Nat) (f : Option Int)
    (hfw : fwdOk f = true) (e : Err) (h : add p k c n f = .error e) : Documented e := by
  simp only [add, hf, if_true, hfw, Bool.not_true, Bool.false_eq_true, if_false] at h
  split at h
  · cases h; trivial
  · split at h <;> cases h; trivial
end C19

#print axioms C19.errors_documented_tame
#print axioms C19.errors_documented_flat_fwd
