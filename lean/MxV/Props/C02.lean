import MxV.Model.MsimpleTheory
import MxV.Props.C03
/-! # C02 — schema-valid child sequences are accepted and kept in document order
Proven domain: the `Tame` templates × **all** words of their languages (unbounded repetition
included). Partial for the 26 `Wild` types (no theorem; open findings list rejected valid words). -/
namespace C02
open Msimple

theorem cnt_zip (w : List Nat) (i : Nat) : cnt (names (zipIds i w)) = cnt w := by rw [names_zipIds]

/-- Every word of the content model, supplied one child at a time in document order, is accepted
    without an exception, passes the final check and is serialised exactly as supplied. -/
theorem C02_tame (p : Particle) (ht : isTame p = true) (w : List Nat) (hw : p.Lang w) :
    runE p [] (addOps 1 w) = .ok (zipIds 1 w) ∧ required p (zipIds 1 w) = [] ∧
    names (ordered p (zipIds 1 w)) = w := by
  by_cases hf : isFlat p = true
  · obtain ⟨hfl, hnd⟩ := isFlat_iff.1 hf
    have h := (Particle.flat_iff p hfl hnd w).1 hw
    refine ⟨?_, ?_, ?_⟩
    · have := runE_adds_flat p hf [] 1 w (Particle.Lang_subset p w hw) (by
        intro s hs
        have := Particle.ok_le_max _ p hfl h.1 s hs
        simpa [count, names, cnt] using this)
      simpa using this
    · simp only [required, hf, if_true, cnt_zip]
      exact missing_nil_of_ok _ p hfl h.1
    · rw [names_ordered_flat hf, cnt_zip]; exact h.2.symm
  · have hrc : isRootChoice p = true := by
      simp only [isTame, Bool.or_eq_true, Bool.and_eq_true] at ht
      rcases ht with h | h
      · exact absurd h hf
      · exact h.1
    obtain ⟨mi, ma, ps, rfl, hmi, hne, hma, hu⟩ := isRootChoice_shape hrc
    obtain ⟨hsub, hlo, hhi⟩ := (lang_rootChoice hu w).1 hw
    have hord : ∀ k, ordered (.choice mi ma ps) k = k := by intro k; simp [ordered, flat_not_choice]
    refine ⟨?_, ?_, by rw [hord, names_zipIds]⟩
    · rcases hma with rfl | rfl
      · simpa using runE_adds_choice_unbounded mi ps [] 1 w hsub
      · simp only [leMax, decide_eq_true_eq] at hhi
        match w, hhi, hsub with
        | [], _, _ => simp [runE, addOps, zipIds]
        | [n], _, hsub =>
          have hn : n ∈ Particle.leavesL ps := hsub n (by simp)
          simp [runE, addOps, zipIds, step, add, flat_not_choice, Particle.leaves, hn, fwdOk]
        | _ :: _ :: _, hhi, _ => simp at hhi
    · simp only [required, flat_not_choice]
      by_cases h1 : mi ≥ 1
      · have : w ≠ [] := by intro h; subst h; simp at hlo; omega
        cases w with
        | nil => exact absurd rfl this
        | cons a r => simp [zipIds]
      · simp [h1]

/-- the same for the pinned schema's content model (via C03.templates_lang_eq) -/
theorem C02_schema (key : Nat) (p q : Particle)
    (hp : C03.lookup key Gen.implTemplates = some p) (hq : C03.lookup key Gen.specTemplates = some q)
    (ht : isTame p = true) (w : List Nat) (hw : q.accepts w = true) :
    runE p [] (addOps 1 w) = .ok (zipIds 1 w) ∧ required p (zipIds 1 w) = [] ∧
    names (ordered p (zipIds 1 w)) = w :=
  C02_tame p ht w ((C03.templates_lang_eq key p q hp hq w).2 ((Particle.accepts_iff _ _).1 hw))

/-! non-vacuity -/
def pitchT : Particle := .seq 1 (some 1) [.elem 0 1 (some 1), .elem 1 0 (some 1), .elem 2 1 (some 1)]
example : isTame pitchT = true ∧ pitchT.accepts [0, 1, 2] = true ∧ pitchT.accepts [0, 2] = true := by decide
example : (match runE pitchT [] (addOps 1 [0, 1, 2]) with | .ok k => k | .error _ => []) = [(1, 0), (2, 1), (3, 2)] := by decide
end C02

#print axioms C02.C02_tame
#print axioms C02.C02_schema
