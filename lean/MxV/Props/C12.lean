import MxV.Props.C02
/-! # C12 — where the schema fixes the order, insertion order does not matter
Proven domain: `Tame` templates, all valid multisets and all of their permutations.
On `Flat` templates the valid arrangement is unique and is what gets serialised (same-named
children in insertion order: `ordered` filters the insertion list per leaf); on `RootChoice`
templates every arrangement is valid and the supplied one is kept. -/
namespace C12
open Msimple

theorem cnt_perm {w w' : List Nat} (hp : w'.Perm w) : cnt w' = cnt w := by
  funext n; exact hp.count_eq n

theorem C12_tame_perm (p : Particle) (ht : isTame p = true) (w w' : List Nat) (hw : p.Lang w)
    (hp : w'.Perm w) :
    runE p [] (addOps 1 w') = .ok (zipIds 1 w') ∧ required p (zipIds 1 w') = [] ∧
    p.Lang (names (ordered p (zipIds 1 w'))) ∧
    (isFlat p = true → names (ordered p (zipIds 1 w')) = w) := by
  by_cases hf : isFlat p = true
  · obtain ⟨hfl, hnd⟩ := isFlat_iff.1 hf
    have h := (Particle.flat_iff p hfl hnd w).1 hw
    have hc := cnt_perm hp
    have hord : names (ordered p (zipIds 1 w')) = w := by
      rw [names_ordered_flat hf, C02.cnt_zip, hc]; exact h.2.symm
    refine ⟨?_, ?_, by rw [hord]; exact hw, fun _ => hord⟩
    · have := runE_adds_flat p hf [] 1 w' (fun x hx => Particle.Lang_subset p w hw x (hp.mem_iff.1 hx)) (by
        intro s hs
        have := Particle.ok_le_max _ p hfl h.1 s hs
        rw [← hc] at this
        simpa [count, names, cnt] using this)
      simpa using this
    · simp only [required, hf, if_true, C02.cnt_zip, hc]
      exact missing_nil_of_ok _ p hfl h.1
  · -- RootChoice: the language is closed under permutation
    have hrc : isRootChoice p = true := by
      simp only [isTame, Bool.or_eq_true, Bool.and_eq_true] at ht
      rcases ht with h | h
      · exact absurd h hf
      · exact h.1
    obtain ⟨mi, ma, ps, rfl, hmi, hne, hma, hu⟩ := isRootChoice_shape hrc
    have hw' : (Particle.choice mi ma ps).Lang w' := by
      rw [lang_rootChoice hu] at hw ⊢
      exact ⟨fun x hx => hw.1 x (hp.mem_iff.1 hx), by rw [hp.length_eq]; exact hw.2.1,
        by rw [hp.length_eq]; exact hw.2.2⟩
    have h2 := C02.C02_tame _ ht w' hw'
    exact ⟨h2.1, h2.2.1, by rw [h2.2.2]; exact hw', fun h => absurd h hf⟩

/-- same-named children keep their insertion order in the serialised arrangement -/
theorem same_name_in_insertion_order (p : Particle) (hf : isFlat p = true) (k : Kids) (n : Nat) :
    (ordered p k).filter (fun c => c.2 == n) = if n ∈ p.leaves then k.filter (fun c => c.2 == n) else [] := by
  have hnd := (isFlat_iff.1 hf).2
  simp only [ordered, hf, if_true]
  generalize p.leaves = L at hnd
  induction L with
  | nil => simp
  | cons m L ih =>
    simp only [List.nodup_cons] at hnd
    simp only [List.flatMap_cons, List.filter_append, List.filter_filter, ih hnd.2]
    by_cases hmn : m = n
    · subst hmn
      have : m ∉ L := hnd.1
      simp [this]
    · have h1 : ∀ c : Nat × Nat, (c.2 == n && c.2 == m) = false := by
        intro c
        by_cases h : c.2 = n
        · subst h; simp; exact fun h' => hmn h'.symm
        · simp [h]
      simp [h1, Ne.symm hmn]

end C12

#print axioms C12.C12_tame_perm
#print axioms C12.same_name_in_insertion_order
