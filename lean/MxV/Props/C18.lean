import MxV.Props.C02
import MxV.Props.Slotted
/-! # C18 — xsd_check=False switches off structural checking and nothing else
An unchecked element keeps its children in one list: every add succeeds and appends, the serialised
order is the insertion order (`unchecked_*`). For children supplied in a schema-valid order the
checked element serialises them in that very order too (`unchecked_eq_checked`, from C02_tame), so
both outputs coincide. The per-node gating of the final checks is modelled in the driver
(`finalChecks`: a node is validated iff it is checked and reached from a checked root) and tied to
the code by the correspondence run on trees mixing checked and unchecked nodes. Partial: the
byte-identity claim inherits C02's domain (Tame content models; `unchecked_eq_checked_slotted`
widens it to the 78 Slotted ones through the `Mslot` model). -/
namespace C18
open Msimple

/-- the unchecked child list -/
def addU (k : Kids) (cid n : Nat) : Kids := k ++ [(cid, n)]
def orderedU (k : Kids) : Kids := k

theorem unchecked_add_total (k : Kids) (cid n : Nat) : ∃ k', addU k cid n = k' ∧ k' = k ++ [(cid, n)] := ⟨_, rfl, rfl⟩
theorem unchecked_insertion_order (w : List Nat) (i : Nat) :
    names (orderedU ((zipIds i w).foldl (fun k c => addU k c.1 c.2) [])) = w := by
  have : ∀ (acc l : Kids), l.foldl (fun k c => addU k c.1 c.2) acc = acc ++ l := by
    intro acc l
    induction l generalizing acc with
    | nil => simp
    | cons c r ih => rw [List.foldl_cons, ih]; simp [addU]
  simp [orderedU, this, names_zipIds]

/-- valid order ⇒ checked and unchecked elements serialise the same child sequence -/
theorem unchecked_eq_checked (p : Particle) (ht : isTame p = true) (w : List Nat) (hw : p.Lang w) :
    names (ordered p (zipIds 1 w)) = names (orderedU (zipIds 1 w)) := by
  rw [(C02.C02_tame p ht w hw).2.2]; simp [orderedU, names_zipIds]
/-- the same on the wider Slotted class (78 of the 94 content models, model `Mslot`) -/
theorem unchecked_eq_checked_slotted (p : Particle) (hs : Mslot.isSlotted p = true) (w : List Nat) (hw : p.Lang w) :
    names (Mslot.ordered p (zipIds 1 w)) = names (orderedU (zipIds 1 w)) := by
  rw [(Slotted.C02_slotted p hs w hw).2.2]; simp [orderedU, names_zipIds]

/-- non-vacuity: `bend` (a sequence with a choice slot) is Slotted and `[0, 2]` is one of its words -/
example : Mslot.isSlotted Slotted.bendT = true := by decide
end C18

#print axioms C18.unchecked_add_total
#print axioms C18.unchecked_insertion_order
#print axioms C18.unchecked_eq_checked
#print axioms C18.unchecked_eq_checked_slotted
