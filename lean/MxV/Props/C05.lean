import MxV.Model.Values
/-! # C05 — value validation matches the XSD simple types; emitted text is lexically valid
Model side (`Values.validate`, generic in the regenerated validator table):
* enumerated types accept exactly their literals (`enum_accepts_iff`);
* numeric facets are exact: an integer passes the facet check iff it lies within every declared
  inclusive/exclusive bound (`range_exact`, `minExclusive_exact`, `minInclusive_exact`), at the boundaries included;
* every `int` renders, via `str()`, as an XSD integer lexical form (`int_render_is_lexical`, all of ℤ;
  `Nat.toDigits` lemmas of core Lean); a float's text is `repr()` as supplied by CPython (dtoa trusted),
  which is a lexical xs:decimal exactly when it has no exponent and is finite — the open findings below;
* pattern types: see `Tables/D_patterns.lean` (library expression ≡ schema pattern, collapse, xs:date);
  unions: `union_accepts_iff_member`.
Partial (open findings F13/F14, with witnesses below): bools pass the integer/decimal gate and
render as `True`/`False`; exponent-form, `nan`, `inf` floats pass decimal types and render invalid
lexical forms; element-only/empty types accept any text. Pattern-typed strings are validated by the
verified matcher `RE.rmatch` on the translated pattern (translator trusted; compared with Python's
`re` by the correspondence run). -/
namespace C05
open Values

/-- a plain enumerated definition: str-typed, no union, no forced literals, no primitive setters -/
def PlainEnum (d : SimpleDef) : Prop :=
  d.pyTypes = [0] ∧ d.union = [] ∧ d.forced = [] ∧ d.permitted ≠ [] ∧ d.isNonNeg = false ∧ d.isPositive = false

theorem enum_accepts_iff (env : Env) (fuel : Nat) (d : SimpleDef) (h : PlainEnum d) (s : String) :
    validate env (fuel + 1) d (.str s) = .ok ↔ s ∈ d.permitted := by
  obtain ⟨h1, h2, h3, h4, h5, h6⟩ := h
  have hp : d.permitted.isEmpty = false := by
    cases hd : d.permitted with
    | nil => exact absurd hd h4
    | cons _ _ => rfl
  simp only [validate, gateTypes, h2, List.isEmpty_nil, if_true, typeGate, inStrs, h3, List.contains_nil,
    Bool.false_or, pyTypeOf, h1, Bool.not_true, Bool.false_eq_true, if_false, hp, Bool.not_false, h5, h6,
    Bool.false_and]
  by_cases hs : s ∈ d.permitted
  · simp [hs, List.contains_iff_mem]
  · simp [hs, List.contains_iff_mem]

/-- every non-literal string is rejected with ValueError (not silently accepted) -/
theorem enum_rejects_other (env : Env) (fuel : Nat) (d : SimpleDef) (h : PlainEnum d) (s : String)
    (hs : s ∉ d.permitted) : validate env (fuel + 1) d (.str s) ≠ .ok :=
  fun hok => hs ((enum_accepts_iff env fuel d h s).1 hok)

theorem cmpInt_int (z k : Int) : cmpInt (.int z) k = some (if z < k then -1 else if z == k then 0 else 1) := rfl

/-- `minInclusive a` + `maxInclusive b` (percent, midi-16, octave, …): exactly the closed range -/
theorem range_exact (z a b : Int) : facetCheck (.int z) [(2, a), (3, b)] = .ok ↔ a ≤ z ∧ z ≤ b := by
  simp only [facetCheck, cmpInt_int]
  by_cases h1 : z < a
  · simp [h1]; omega
  · by_cases h2 : z = a
    · subst h2
      by_cases h3 : z < b
      · simp [h3]; omega
      · by_cases h4 : z = b
        · subst h4; simp
        · have : (z == b) = false := by simpa using h4
          simp [h3, this]; omega
    · have e2 : (z == a) = false := by simpa using h2
      by_cases h3 : z < b
      · simp [h1, e2, h3]; omega
      · by_cases h4 : z = b
        · subst h4; simp [h1, e2]; omega
        · have : (z == b) = false := by simpa using h4
          simp [h1, e2, h3, this]; omega

/-- `minExclusive a` (positive-decimal, positive-divisions): strictly above the bound -/
theorem minExclusive_exact (z a : Int) : facetCheck (.int z) [(1, a)] = .ok ↔ a < z := by
  simp only [facetCheck, cmpInt_int]
  by_cases h1 : z < a
  · simp [h1]; omega
  · by_cases h2 : z = a
    · subst h2; simp
    · have e2 : (z == a) = false := by simpa using h2
      simp [h1, e2]; omega

/-- `minInclusive a` (non-negative-decimal, trill-beats) -/
theorem minInclusive_exact (z a : Int) : facetCheck (.int z) [(2, a)] = .ok ↔ a ≤ z := by
  simp only [facetCheck, cmpInt_int]
  by_cases h1 : z < a
  · simp [h1]
  · by_cases h2 : z = a
    · subst h2; simp
    · have e2 : (z == a) = false := by simpa using h2
      simp [h1, e2]; omega

/-- a plain pattern type over xs:token (color, time-only, ending-number, comma-separated-text,
    language, NMTOKEN, Name …): str-typed, no union / forced literal / enumeration, token base -/
def TokenPattern (d : SimpleDef) (k : Nat) : Prop :=
  d.pyTypes = [0] ∧ d.union = [] ∧ d.forced = [] ∧ d.permitted = [] ∧ d.pattern = some k ∧ d.base = 1 ∧
  d.isNonNeg = false ∧ d.isPositive = false

/-- such a type accepts a string exactly when its white-space-collapsed text matches the type's
    expression in full (no other gate, no silent acceptance) -/
theorem token_pattern_accepts_iff (env : Env) (fuel : Nat) (d : SimpleDef) (k : Nat) (r : RE Char)
    (h : TokenPattern d k) (hk : (d.key == env.dateKey) = false) (hr : lookupPat k env.pats = some r) (s : String) :
    validate env (fuel + 1) d (.str s) = .ok ↔ RE.rmatch r (cleanedToken s).toList = true := by
  obtain ⟨h1, h2, h3, h4, h5, h6, h7, h8⟩ := h
  simp only [validate, gateTypes, h2, List.isEmpty_nil, if_true, typeGate, inStrs, h3, List.contains_nil,
    Bool.false_or, pyTypeOf, h1, h4, h5, h6, h7, h8, hr, hk, fullmatch, Bool.false_and]
  by_cases hm : RE.rmatch r (cleanedToken s).toList = true
  · simp [hm]
  · simp [hm]

/-- a pattern type whose own restriction has no token / date / glyph-name pre-check (xs:date itself,
    ID, IDREF, NCName, the smufl glyph-name subtypes): the raw string is matched -/
def PlainPattern (d : SimpleDef) (k : Nat) : Prop :=
  d.pyTypes = [0] ∧ d.union = [] ∧ d.forced = [] ∧ d.permitted = [] ∧ d.pattern = some k ∧ d.base = 0 ∧
  d.isNonNeg = false ∧ d.isPositive = false

theorem plain_pattern_accepts_iff (env : Env) (fuel : Nat) (d : SimpleDef) (k : Nat) (r : RE Char)
    (h : PlainPattern d k) (hk : (d.key == env.dateKey) = false) (hr : lookupPat k env.pats = some r) (s : String) :
    validate env (fuel + 1) d (.str s) = .ok ↔ RE.rmatch r s.toList = true := by
  obtain ⟨h1, h2, h3, h4, h5, h6, h7, h8⟩ := h
  simp only [validate, gateTypes, h2, List.isEmpty_nil, if_true, typeGate, inStrs, h3, List.contains_nil,
    Bool.false_or, pyTypeOf, h1, h4, h5, h6, h7, h8, hr, hk, fullmatch, Bool.false_and]
  by_cases hm : RE.rmatch r s.toList = true
  · simp [hm]
  · simp [hm]

/-- xs:date itself: the lexical expression **and** the day-of-month constraint of the value space
    (no 30 February, 29 February in leap years only — proleptic Gregorian, year 0 and negative years included) -/
theorem date_accepts_iff (env : Env) (fuel : Nat) (d : SimpleDef) (k : Nat) (r : RE Char)
    (h : PlainPattern d k) (hk : (d.key == env.dateKey) = true) (hr : lookupPat k env.pats = some r) (s : String) :
    validate env (fuel + 1) d (.str s) = .ok ↔ (RE.rmatch r s.toList = true ∧ dateDayOk s.toList = true) := by
  obtain ⟨h1, h2, h3, h4, h5, h6, h7, h8⟩ := h
  simp only [validate, gateTypes, h2, List.isEmpty_nil, if_true, typeGate, inStrs, h3, List.contains_nil,
    Bool.false_or, pyTypeOf, h1, h4, h5, h6, h7, h8, hr, hk, fullmatch, Bool.false_and]
  by_cases hm : RE.rmatch r s.toList = true
  · by_cases hd : dateDayOk s.toList = true
    · simp [hm, hd]
    · simp [hm, hd]
  · simp [hm]

/-- the calendar facts the check rests on, decided: lengths of February in 1900, 2000, 2024, year 0, year −4 -/
example : daysInMonth 1900 2 = 28 ∧ daysInMonth 2000 2 = 29 ∧ daysInMonth 2024 2 = 29 ∧ daysInMonth 2023 2 = 28 ∧
    daysInMonth 0 2 = 29 ∧ daysInMonth (-4) 2 = 29 ∧ daysInMonth (-1) 2 = 28 ∧ daysInMonth 2001 4 = 30 ∧
    daysInMonth 2001 12 = 31 := by decide
example : dateDayOk "2000-02-29".toList = true ∧ dateDayOk "1900-02-29".toList = false ∧
    dateDayOk "-0004-02-29+02:00".toList = true ∧ dateDayOk "2001-04-31Z".toList = false ∧
    dateDayOk "12345-02-29".toList = false := by decide

/-- a plain union type (font-size, yes-no-number): no literal of its own, members tried in order -/
def PlainUnion (d : SimpleDef) : Prop :=
  d.union ≠ [] ∧ d.forced = [] ∧ d.isNonNeg = false ∧ d.isPositive = false

/-- **any member of a union**: a union type accepts a value exactly when the value has one of the
    members' Python types and at least one member type accepts it (a member's TypeError just moves on
    to the next member; nothing else is consulted) -/
theorem union_accepts_iff_member (env : Env) (fuel : Nat) (d : SimpleDef) (h : PlainUnion d) (v : PyVal) :
    validate env (fuel + 1) d v = .ok ↔
      (typeGate (gateTypes env d) [] v = true ∧
       d.union.any (fun u => match lookupDef u env.defs with
         | some m => validate env fuel m v == .ok
         | Option.none => false) = true) := by
  obtain ⟨h1, h2, h3, h4⟩ := h
  have hne : d.union.isEmpty = false := by
    cases hu : d.union with
    | nil => exact absurd hu h1
    | cons _ _ => rfl
  have hf : inStrs v [] = false := by cases v <;> simp [inStrs]
  simp only [validate, h2, hf, hne, h3, h4, Bool.not_false, Bool.false_and]
  generalize (d.union.any _) = A
  generalize typeGate (gateTypes env d) [] v = G
  cases G <;> cases A <;> simp

/-- non-string values never pass such a type -/
theorem token_pattern_rejects_nonstring (env : Env) (fuel : Nat) (d : SimpleDef) (k : Nat)
    (h : TokenPattern d k) (z : Int) : validate env (fuel + 1) d (.int z) ≠ .ok := by
  obtain ⟨h1, h2, h3, h4, h5, h6, h7, h8⟩ := h
  simp [validate, gateTypes, h2, typeGate, inStrs, h3, pyTypeOf, h1]

/-! ### an integer is always written as an xs:integer lexical form (`[\-+]?[0-9]+`) -/
def isIntegerLexical : List Char → Bool
  | '-' :: r => !r.isEmpty && r.all Char.isDigit
  | '+' :: r => !r.isEmpty && r.all Char.isDigit
  | r => !r.isEmpty && r.all Char.isDigit

theorem digits_ok (n : Nat) : (Nat.toDigits 10 n).isEmpty = false ∧ (Nat.toDigits 10 n).all Char.isDigit = true := by
  constructor
  · have := @Nat.toDigits_ne_nil n 10
    cases h : Nat.toDigits 10 n with
    | nil => exact absurd h this
    | cons _ _ => rfl
  · rw [List.all_eq_true]
    intro c hc
    exact Nat.isDigit_of_mem_toDigits (by decide) (by decide) hc

theorem int_lexical_of_digits {l : List Char} (h1 : l.isEmpty = false) (h2 : l.all Char.isDigit = true) :
    isIntegerLexical l = true ∧ isIntegerLexical ('-' :: l) = true := by
  cases l with
  | nil => simp at h1
  | cons c r =>
    have hc : c.isDigit = true := by simp [List.all_cons] at h2; exact h2.1
    have : c ≠ '-' ∧ c ≠ '+' := by
      constructor <;> (intro e; subst e; simp [Char.isDigit] at hc)
    refine ⟨?_, by simp [isIntegerLexical, h2]⟩
    unfold isIntegerLexical
    split
    · rename_i heq; simp at heq; exact absurd heq.1 this.1
    · rename_i heq; simp at heq; exact absurd heq.1 this.2
    · simp [h2]

theorem int_render_is_lexical (z : Int) : isIntegerLexical (pyStr (.int z)).toList = true := by
  have h : (pyStr (.int z)).toList =
      if 0 ≤ z then Nat.toDigits 10 z.toNat else '-' :: Nat.toDigits 10 (-z).toNat := by
    simp only [pyStr, Int.toString_eq_repr, Int.repr_eq_if]
    split <;> simp [Nat.toList_repr]
  rw [h]
  split
  · exact (int_lexical_of_digits (digits_ok _).1 (digits_ok _).2).1
  · exact (int_lexical_of_digits (digits_ok _).1 (digits_ok _).2).2

/-! negative witnesses (open findings F13): values the validator accepts whose `str()` is not a
    lexical form of the XSD type -/
def intDef : SimpleDef :=
  { key := 0, pyTypes := [1], union := [], forced := [], permitted := [], pattern := Option.none, base := 0,
    facets := [], isInteger := true, isNonNeg := false, isPositive := false, isDecimal := false,
    isString := false }
def decDef : SimpleDef :=
  { key := 0, pyTypes := [2, 1], union := [], forced := [], permitted := [], pattern := Option.none, base := 0,
    facets := [], isInteger := false, isNonNeg := false, isPositive := false, isDecimal := true,
    isString := false }
def env0 : Env := { defs := [], pats := [], datePat := Option.none }
theorem bool_passes_integer : (validate env0 3 intDef (.bool true) == .ok && pyStr (.bool true) == "True") = true := by
  decide +kernel
theorem exponent_float_passes_decimal :
    (validate env0 3 decDef (.float false 1 (-5) "1e-05") == .ok && pyStr (.float false 1 (-5) "1e-05") == "1e-05") = true := by
  decide +kernel
theorem nan_passes_decimal : (validate env0 3 decDef .fnan == .ok && pyStr .fnan == "nan") = true := by decide +kernel
end C05

#print axioms C05.enum_accepts_iff
#print axioms C05.enum_rejects_other
#print axioms C05.range_exact
#print axioms C05.minExclusive_exact
#print axioms C05.minInclusive_exact
#print axioms C05.token_pattern_accepts_iff
#print axioms C05.plain_pattern_accepts_iff
#print axioms C05.date_accepts_iff
#print axioms C05.union_accepts_iff_member
#print axioms C05.int_render_is_lexical
#print axioms C05.token_pattern_rejects_nonstring
#print axioms C05.bool_passes_integer
#print axioms C05.exponent_float_passes_decimal
#print axioms C05.nan_passes_decimal
