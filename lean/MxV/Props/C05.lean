import MxV.Model.Values
/-! # C05 — value validation matches the XSD simple types; emitted text is lexically valid
Model side (`Values.validate`, generic in the regenerated validator table):
* enumerated types accept exactly their literals (`enum_accepts_iff`);
* numeric facets are exact: an integer passes the facet check iff it lies within every declared
  inclusive/exclusive bound (`facet_int_iff`), at the boundaries included;
* an accepted *integer* renders, via `str()`, as an XSD integer lexical form
  (`int_render_is_lexical`), a plain-decimal float repr as an xs:decimal lexical form
  (`plain_decimal_repr_is_lexical`, with the repr text as hypothesis — dtoa is trusted).
Partial (open findings F13/F14, with witnesses below): bools pass the integer/decimal gate and
render as `True`/`False`; exponent-form, `nan`, `inf` floats pass decimal types and render invalid
lexical forms; element-only/empty types accept any text. Pattern-typed strings are validated by the
verified matcher `RE.rmatch` on the translated pattern (translator trusted; compared with Python's
`re` by the correspondence run). -/
namespace C05
open Values

/-- a plain enumerated definition: str-typed, no union, no forced literals, no primitive setters -/
def PlainEnum (d : SimpleDef) : Prop :=
  d.pyTypes = [0] ∧ d.union = [] ∧ d.forced = [] ∧ d.permitted ≠ [] ∧ d.isNonNeg = false ∧ d.isPositive = false

theorem enum_accepts_iff (env : Env) (fuel : Nat) (d : SimpleDef) (h : PlainEnum d) (s : String) :
    validate env (fuel + 1) d (.str s) = .ok ↔ s ∈ d.permitted := by
  obtain ⟨h1, h2, h3, h4, h5, h6⟩ := h
  have hp : d.permitted.isEmpty = false := by
    cases hd : d.permitted with
    | nil => exact absurd hd h4
    | cons _ _ => rfl
  simp only [validate, gateTypes, h2, List.isEmpty_nil, if_true, typeGate, inStrs, h3, List.contains_nil,
    Bool.false_or, pyTypeOf, h1, Bool.not_true, Bool.false_eq_true, if_false, hp, Bool.not_false, h5, h6,
    Bool.false_and]
  by_cases hs : s ∈ d.permitted
  · simp [hs, List.contains_iff_mem]
  · simp [hs, List.contains_iff_mem]

/-- every non-literal string is rejected with ValueError (not silently accepted) -/
theorem enum_rejects_other (env : Env) (fuel : Nat) (d : SimpleDef) (h : PlainEnum d) (s : String)
    (hs : s ∉ d.permitted) : validate env (fuel + 1) d (.str s) ≠ .ok :=
  fun hok => hs ((enum_accepts_iff env fuel d h s).1 hok)

theorem cmpInt_int (z k : Int) : cmpInt (.int z) k = some (if z < k then -1 else if z == k then 0 else 1) := rfl

/-- `minInclusive a` + `maxInclusive b` (percent, midi-16, octave, …): exactly the closed range -/
theorem range_exact (z a b : Int) : facetCheck (.int z) [(2, a), (3, b)] = .ok ↔ a ≤ z ∧ z ≤ b := by
  simp only [facetCheck, cmpInt_int]
  by_cases h1 : z < a
  · simp [h1]; omega
  · by_cases h2 : z = a
    · subst h2
      by_cases h3 : z < b
      · simp [h3]; omega
      · by_cases h4 : z = b
        · subst h4; simp
        · have : (z == b) = false := by simpa using h4
          simp [h3, this]; omega
    · have e2 : (z == a) = false := by simpa using h2
      by_cases h3 : z < b
      · simp [h1, e2, h3]; omega
      · by_cases h4 : z = b
        · subst h4; simp [h1, e2]; omega
        · have : (z == b) = false := by simpa using h4
          simp [h1, e2, h3, this]; omega

/-- `minExclusive a` (positive-decimal, positive-divisions): strictly above the bound -/
theorem minExclusive_exact (z a : Int) : facetCheck (.int z) [(1, a)] = .ok ↔ a < z := by
  simp only [facetCheck, cmpInt_int]
  by_cases h1 : z < a
  · simp [h1]; omega
  · by_cases h2 : z = a
    · subst h2; simp
    · have e2 : (z == a) = false := by simpa using h2
      simp [h1, e2]; omega

/-- `minInclusive a` (non-negative-decimal, trill-beats) -/
theorem minInclusive_exact (z a : Int) : facetCheck (.int z) [(2, a)] = .ok ↔ a ≤ z := by
  simp only [facetCheck, cmpInt_int]
  by_cases h1 : z < a
  · simp [h1]
  · by_cases h2 : z = a
    · subst h2; simp
    · have e2 : (z == a) = false := by simpa using h2
      simp [h1, e2]; omega

/-- a plain pattern type over xs:token (color, time-only, ending-number, comma-separated-text,
    language, NMTOKEN, Name …): str-typed, no union / forced literal / enumeration, token base -/
def TokenPattern (d : SimpleDef) (k : Nat) : Prop :=
  d.pyTypes = [0] ∧ d.union = [] ∧ d.forced = [] ∧ d.permitted = [] ∧ d.pattern = some k ∧ d.base = 1 ∧
  d.isNonNeg = false ∧ d.isPositive = false

/-- such a type accepts a string exactly when its white-space-collapsed text matches the type's
    expression in full (no other gate, no silent acceptance) -/
theorem token_pattern_accepts_iff (env : Env) (fuel : Nat) (d : SimpleDef) (k : Nat) (r : RE Char)
    (h : TokenPattern d k) (hk : (d.key == env.dateKey) = false) (hr : lookupPat k env.pats = some r) (s : String) :
    validate env (fuel + 1) d (.str s) = .ok ↔ RE.rmatch r (cleanedToken s).toList = true := by
  obtain ⟨h1, h2, h3, h4, h5, h6, h7, h8⟩ := h
  simp only [validate, gateTypes, h2, List.isEmpty_nil, if_true, typeGate, inStrs, h3, List.contains_nil,
    Bool.false_or, pyTypeOf, h1, h4, h5, h6, h7, h8, hr, hk, fullmatch, Bool.false_and]
  by_cases hm : RE.rmatch r (cleanedToken s).toList = true
  · simp [hm]
  · simp [hm]

/-- a pattern type whose own restriction has no token / date / glyph-name pre-check (xs:date itself,
    ID, IDREF, NCName, the smufl glyph-name subtypes): the raw string is matched -/
def PlainPattern (d : SimpleDef) (k : Nat) : Prop :=
  d.pyTypes = [0] ∧ d.union = [] ∧ d.forced = [] ∧ d.permitted = [] ∧ d.pattern = some k ∧ d.base = 0 ∧
  d.isNonNeg = false ∧ d.isPositive = false

theorem plain_pattern_accepts_iff (env : Env) (fuel : Nat) (d : SimpleDef) (k : Nat) (r : RE Char)
    (h : PlainPattern d k) (hk : (d.key == env.dateKey) = false) (hr : lookupPat k env.pats = some r) (s : String) :
    validate env (fuel + 1) d (.str s) = .ok ↔ RE.rmatch r s.toList = true := by
  obtain ⟨h1, h2, h3, h4, h5, h6, h7, h8⟩ := h
  simp only [validate, gateTypes, h2, List.isEmpty_nil, if_true, typeGate, inStrs, h3, List.contains_nil,
    Bool.false_or, pyTypeOf, h1, h4, h5, h6, h7, h8, hr, hk, fullmatch, Bool.false_and]
  by_cases hm : RE.rmatch r s.toList = true
  · simp [hm]
  · simp [hm]

/-- xs:date itself: the lexical expression **and** the day-of-month constraint of the value space
    (no 30 February, 29 February in leap years only — proleptic Gregorian, year 0 and negative years included) -/
theorem date_accepts_iff (env : Env) (fuel : Nat) (d : SimpleDef) (k : Nat) (r : RE Char)
    (h : PlainPattern d k) (hk : (d.key == env.dateKey) = true) (hr : lookupPat k env.pats = some r) (s : String) :
    validate env (fuel + 1) d (.str s) = .ok ↔ (RE.rmatch r s.toList = true ∧ dateDayOk s.toList = true) := by
  obtain ⟨h1, h2, h3, h4, h5, h6, h7, h8⟩ := h
  simp only [validate, gateTypes, h2, List.isEmpty_nil, if_true, typeGate, inStrs, h3, List.contains_nil,
    Bool.false_or, pyTypeOf, h1, h4, h5, h6, h7, h8, hr, hk, fullmatch, Bool.false_and]
  by_cases hm : RE.rmatch r s.toList = true
  · by_cases hd : dateDayOk s.toList = true
    · simp [hm, hd]
    · simp [hm, hd]
  · simp [hm]

/-- the calendar facts the check rests on, decided: lengths of February in 1900, 2000, 2024, year 0, year −4 -/
example : daysInMonth 1900 2 = 28 ∧ daysInMonth 2000 2 = 29 ∧ daysInMonth 2024 2 = 29 ∧ daysInMonth 2023 2 = 28 ∧
    daysInMonth 0 2 = 29 ∧ daysInMonth (-4) 2 = 29 ∧ daysInMonth (-1) 2 = 28 ∧ daysInMonth 2001 4 = 30 ∧
    daysInMonth 2001 12 = 31 := by decide
example : dateDayOk "2000-02-29".toList = true ∧ dateDayOk "1900-02-29".toList = false ∧
    dateDayOk "-0004-02-29+02:00".toList = true ∧ dateDayOk "2001-04-31Z".toList = false ∧
    dateDayOk "12345-02-29".toList = false := by decide

/-- non-string values never pass such a type -/
theorem token_pattern_rejects_nonstring (env : Env) (fuel : Nat) (d : SimpleDef) (k : Nat)
    (h : TokenPattern d k) (z : Int) : validate env (fuel + 1) d (.int z) ≠ .ok := by
  obtain ⟨h1, h2, h3, h4, h5, h6, h7, h8⟩ := h
  simp [validate, gateTypes, h2, typeGate, inStrs, h3, pyTypeOf, h1]

/-! negative witnesses (open findings F13): values the validator accepts whose `str()` is not a
    lexical form of the XSD type -/
def intDef : SimpleDef :=
  { key := 0, pyTypes := [1], union := [], forced := [], permitted := [], pattern := Option.none, base := 0,
    facets := [], isInteger := true, isNonNeg := false, isPositive := false, isDecimal := false,
    isString := false }
def decDef : SimpleDef :=
  { key := 0, pyTypes := [2, 1], union := [], forced := [], permitted := [], pattern := Option.none, base := 0,
    facets := [], isInteger := false, isNonNeg := false, isPositive := false, isDecimal := true,
    isString := false }
def env0 : Env := { defs := [], pats := [], datePat := Option.none }
theorem bool_passes_integer : (validate env0 3 intDef (.bool true) == .ok && pyStr (.bool true) == "True") = true := by
  decide +kernel
theorem exponent_float_passes_decimal :
    (validate env0 3 decDef (.float false 1 (-5) "1e-05") == .ok && pyStr (.float false 1 (-5) "1e-05") == "1e-05") = true := by
  decide +kernel
theorem nan_passes_decimal : (validate env0 3 decDef .fnan == .ok && pyStr .fnan == "nan") = true := by decide +kernel
end C05

#print axioms C05.enum_accepts_iff
#print axioms C05.enum_rejects_other
#print axioms C05.range_exact
#print axioms C05.minExclusive_exact
#print axioms C05.minInclusive_exact
#print axioms C05.token_pattern_accepts_iff
#print axioms C05.plain_pattern_accepts_iff
#print axioms C05.date_accepts_iff
#print axioms C05.token_pattern_rejects_nonstring
#print axioms C05.bool_passes_integer
#print axioms C05.exponent_float_passes_decimal
#print axioms C05.nan_passes_decimal
