import MxV.Gen.Shapes
/-! # C17 — write() is all-or-nothing and file I/O does not depend on the process locale
The effect order of `XMLScorePartwise.write` and every `open()` / `read_text` / `write_text` site of
the runtime modules are extracted from the AST of the current source (Gen/Shapes.lean); the generic
theorems of `Model/Shapes.lean` are instantiated on them by kernel evaluation.
What the model cannot exhibit: partial writes caused by the OS after the text exists (disk full,
signals) — outside the property's statement ("before the document text exists"). -/
namespace C17
open Shapes Gen

theorem write_validates_first : validateFirst writeProg = true := by decide

/-- if to_string() raises, the previous content of the destination is untouched (any prior state) -/
theorem write_atomic (f : File) : (runIO writeProg none f).file = f :=
  atomic_if_validate_first writeProg write_validates_first f

theorem write_has_expected_shape :
    writeProg = writeShape "<?xml version=\"1.0\" encoding=\"UTF-8\" standalone=\"no\"?>\n" := by decide

/-- when it returns, the file holds the XML declaration followed by exactly to_string(), opened as
    UTF-8 text (`writeShape` fixes `encoding = utf-8`) -/
theorem write_content (s : String) (f : File) :
    (runIO writeProg (some s) f).file =
      some ("" ++ "<?xml version=\"1.0\" encoding=\"UTF-8\" standalone=\"no\"?>\n" ++ s) := by
  rw [write_has_expected_shape]; exact (content_on_success _ s f).1

theorem open_sites_locale_free : openSites.all localeFree = true := by decide

/-- no open() of the runtime modules consults the locale's default encoding -/
theorem io_locale_independent (l l' : String) :
    openSites.map (decodeWith · l) = openSites.map (decodeWith · l') :=
  locale_independent openSites open_sites_locale_free l l'

/-- non-vacuity: there are open sites, and write() really opens the file -/
example : openSites.length ≥ 2 ∧ writeProg.length = 5 := by decide

/-! ## sequences of writes (corollaries, any previous file state) -/

/-- what a successful write() leaves does not depend on what the destination held before (absent,
empty, an older document): overwriting is complete, nothing of the old content survives -/
theorem write_independent_of_old (s : String) (f f' : File) :
    (runIO writeProg (some s) f).file = (runIO writeProg (some s) f').file := by
  rw [write_content, write_content]

/-- writing the same document again changes nothing -/
theorem write_idempotent (s : String) (f : File) :
    (runIO writeProg (some s) (runIO writeProg (some s) f).file).file = (runIO writeProg (some s) f).file := by
  rw [write_content, write_content]

/-- a failed write after a successful one leaves the successful one's file -/
theorem failed_write_keeps_previous (s : String) (f : File) :
    (runIO writeProg none (runIO writeProg (some s) f).file).file = (runIO writeProg (some s) f).file :=
  write_atomic _
end C17

#print axioms C17.write_validates_first
#print axioms C17.write_atomic
#print axioms C17.write_has_expected_shape
#print axioms C17.write_content
#print axioms C17.open_sites_locale_free
#print axioms C17.io_locale_independent
#print axioms C17.write_independent_of_old
#print axioms C17.write_idempotent
#print axioms C17.failed_write_keeps_previous
