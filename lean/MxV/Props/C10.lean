import MxV.Model.MsimpleTheory
import MxV.Props.C14
/-! # C10 — a failed operation changes nothing
In the model a raising call returns `Except.error` and the state that continues is the old one
(`Msimple.apply`); that the *code* behaves like this on `Tame` templates — nothing is touched before
the exception leaves `add_child` / `remove` / `replace_child` — is what the correspondence run of
this check establishes (observation before/after every failing call, twin without the call).
The theorems below are the model-side consequences the property names. Partial: `Wild` types, where
the code restructures before it raises (open findings). -/
namespace C10
open Msimple

theorem C10_tame (p : Particle) (k : Kids) (op : Op) (e : Err) (h : step p k op = .error e) :
    apply p k op = k := by simp [apply, h]

theorem run_append (p : Particle) (a b : List Op) :
    run p (a ++ b) = b.foldl (apply p) (run p a) := by simp [run, List.foldl_append]

/-- supplying what was missing afterwards succeeds exactly as if the failed call had never been made -/
theorem C10_then_supply (p : Particle) (a rest : List Op) (op : Op) (e : Err)
    (h : step p (run p a) op = .error e) : run p (a ++ op :: rest) = run p (a ++ rest) := by
  rw [run_append, run_append, List.foldl_cons, C10_tame p _ op e h]

/-- the final check never changes the state either (it is a function of the state) -/
theorem check_pure (p : Particle) (k : Kids) : (fun _ : List Nat => k) (required p k) = k := rfl

example : let p : Particle := .seq 1 (some 1) [.elem 0 1 (some 1), .elem 2 1 (some 1)]
    run p [.add 1 0 none, .add 2 0 none, .add 3 7 none, .rm 9, .add 4 2 none] = run p [.add 1 0 none, .add 4 2 none] := by
  decide

/-! ## attribute assignments (model `Element.setAttr`; history semantics `C14.runA`; tied to the code
by the element engine this check also runs) -/
section Attr
open Element Values

/-- attribute side: a refused assignment leaves the store exactly as it was (all tables, stores, keys, values) -/
theorem attr_failed_changes_nothing (validate : Nat → PyVal → Res) (t : Tbl) (s : Store) (op : String × PyVal)
    (e : AErr) (h : setAttr validate t s op.1 op.2 = .error e) : C14.stepA validate t s op = s := by
  simp [C14.stepA, h]

/-- … and the rest of the history proceeds as if the refused assignment had never been attempted -/
theorem attr_then_supply (validate : Nat → PyVal → Res) (t : Tbl) (s : Store) (a rest : List (String × PyVal))
    (op : String × PyVal) (e : AErr)
    (h : setAttr validate t (C14.runA validate t s a) op.1 op.2 = .error e) :
    C14.runA validate t s (a ++ op :: rest) = C14.runA validate t s (a ++ rest) := by
  unfold C14.runA at h ⊢
  rw [List.foldl_append, List.foldl_append, List.foldl_cons, attr_failed_changes_nothing validate t _ op e h]

example : (C14.runA (fun ty _ => if ty == 7 then .ok else .valueError) [("font-size", 7, false), ("color", 3, false)] []
      [("font_size", .int 1), ("color", .int 2), ("nope", .int 3), ("font-size", .int 4)] ==
    [("font-size", PyVal.int 4)]) = true := by decide
end Attr
end C10

#print axioms C10.C10_tame
#print axioms C10.C10_then_supply
#print axioms C10.attr_failed_changes_nothing
#print axioms C10.attr_then_supply
