import MxV.Model.MsimpleTheory
/-! # C06 — no child is ever lost, duplicated or orphaned
Model side (Tame templates, all histories): the schema-ordered view is a permutation of the
insertion-ordered view; the insertion-ordered view *is* the ledger (a successful add appends the
child, a remove deletes it, a replace substitutes it in place, a failed call changes nothing);
with fresh child ids no child occurs twice, so the serialisation (which walks the ordered view)
contains each exactly once. Parent pointers are checked by the correspondence run.
Partial: `Wild` types (open findings: zombies after a failed intelligent choice, lost children after
re-homing / pruning). -/
namespace C06
open Msimple

theorem flatMap_filter_perm (L : List Nat) (hnd : L.Nodup) (k : Kids) (hsub : ∀ c ∈ k, c.2 ∈ L) :
    (L.flatMap (fun n => k.filter (fun c => c.2 == n))).Perm k := by
  induction L generalizing k with
  | nil =>
    have : k = [] := by
      cases k with
      | nil => rfl
      | cons c r => exact absurd (hsub c (by simp)) (by simp)
    subst this; simp
  | cons m L ih =>
    simp only [List.nodup_cons] at hnd
    simp only [List.flatMap_cons]
    let k' := k.filter (fun c => !(c.2 == m))
    have hk' : ∀ c ∈ k', c.2 ∈ L := by
      intro c hc
      have hc' := List.mem_filter.1 hc
      have := hsub c hc'.1
      simp only [List.mem_cons] at this
      rcases this with h | h
      · simp [h] at hc'
      · exact h
    have hcongr : ∀ (L' : List Nat), (∀ n ∈ L', n ≠ m) → L'.flatMap (fun n => k.filter (fun c => c.2 == n)) =
        L'.flatMap (fun n => k'.filter (fun c => c.2 == n)) := by
      intro L' hL'
      induction L' with
      | nil => rfl
      | cons n L' ih' =>
        have hnm : n ≠ m := hL' n (by simp)
        simp only [List.flatMap_cons]
        rw [ih' (fun x hx => hL' x (by simp [hx]))]
        congr 1
        simp only [k', List.filter_filter]
        apply List.filter_congr
        intro c _
        by_cases h : c.2 = n
        · subst h; simp [hnm]
        · simp [h]
    have hcongr := hcongr L (fun n hn h => hnd.1 (h ▸ hn))
    rw [hcongr]
    have h1 := ih hnd.2 k' hk'
    have h2 : (k.filter (fun c => c.2 == m) ++ k').Perm k := List.filter_append_perm _ k
    exact (List.Perm.append_left _ h1).trans h2

/-- both views hold the same children -/
theorem ordered_perm (p : Particle) (k : Kids) (hi : Inv p k) (_ht : isTame p = true) :
    (ordered p k).Perm k := by
  by_cases hf : isFlat p = true
  · simp only [ordered, hf, if_true]
    exact flatMap_filter_perm p.leaves (isFlat_iff.1 hf).2 k hi.1
  · simp [ordered, hf]

/-! the ledger: successful adds minus removes, replacements substituted -/
theorem add_appends {p k k' c n f} (hi : Inv p k) (h : add p k c n f = .ok k') : k' = k ++ [(c, n)] :=
  (inv_add hi h).2
theorem remove_deletes {p k k' c} (hi : Inv p k) (h : remove k c = .ok k') :
    k' = k.filter (fun x => x.1 != c) := (inv_remove hi h).2
theorem failed_changes_nothing (p : Particle) (k : Kids) (op : Op) (e : Err) (h : step p k op = .error e) :
    apply p k op = k := by simp [apply, h]

/-! fresh child ids ⇒ no child twice -/
def fresh : List Nat → List Op → Prop
  | _, [] => True
  | seen, .add c _ _ :: r => c ∉ seen ∧ fresh (c :: seen) r
  | seen, .rm _ :: r => fresh seen r
  | seen, .repl _ nw _ :: r => nw ∉ seen ∧ fresh (nw :: seen) r

theorem ids_replFirst_sub (old : Nat) (nw : Nat × Nat) (k : Kids) :
    ∀ x ∈ ids (replFirst old nw k), x = nw.1 ∨ x ∈ ids k := by
  induction k with
  | nil => simp [replFirst, ids]
  | cons c r ih =>
    intro x hx
    simp only [replFirst] at hx
    split at hx
    · simp only [ids, List.map_cons, List.mem_cons] at hx ⊢
      rcases hx with h | h
      · exact .inl h
      · exact .inr (.inr h)
    · simp only [ids, List.map_cons, List.mem_cons] at hx ih ⊢
      rcases hx with h | h
      · exact .inr (.inl h)
      · rcases ih x h with h' | h'
        · exact .inl h'
        · exact .inr (.inr h')

theorem nodup_replFirst (old : Nat) (nw : Nat × Nat) (k : Kids) (hnd : (ids k).Nodup) (hnew : nw.1 ∉ ids k) :
    (ids (replFirst old nw k)).Nodup := by
  induction k with
  | nil => simp [replFirst, ids]
  | cons c r ih =>
    simp only [ids, List.map_cons, List.nodup_cons, List.mem_cons, not_or] at hnd hnew
    simp only [replFirst]
    split
    · simp only [ids, List.map_cons, List.nodup_cons]
      exact ⟨hnew.2, hnd.2⟩
    · simp only [ids, List.map_cons, List.nodup_cons]
      refine ⟨?_, ih hnd.2 hnew.2⟩
      intro hmem
      rcases ids_replFirst_sub old nw r c.1 hmem with h | h
      · exact hnew.1 h.symm
      · exact hnd.1 h

theorem nodup_step {p : Particle} {k : Kids} {seen : List Nat} (hi : Inv p k) (hsub : ∀ x ∈ ids k, x ∈ seen)
    (hnd : (ids k).Nodup) (op : Op) (r : List Op) (hf : fresh seen (op :: r)) :
    ∃ seen', (∀ x ∈ ids (apply p k op), x ∈ seen') ∧ (ids (apply p k op)).Nodup ∧ fresh seen' r := by
  unfold apply
  cases op with
  | add c n f =>
    simp only [fresh] at hf
    split
    · rename_i k' h
      have := (inv_add hi h).2; subst this
      refine ⟨c :: seen, ?_, ?_, hf.2⟩
      · intro x hx; simp [ids] at hx; rcases hx with ⟨b, hb⟩ | rfl
        · exact List.mem_cons_of_mem _ (hsub x (by simp [ids]; exact ⟨b, hb⟩))
        · simp
      · simp only [ids, List.map_append, List.map_cons, List.map_nil]
        refine List.nodup_append.2 ⟨hnd, by simp, ?_⟩
        intro a ha b hb
        simp at hb; subst hb
        intro heq; subst heq; exact hf.1 (hsub a ha)
    · exact ⟨c :: seen, fun x hx => List.mem_cons_of_mem _ (hsub x hx), hnd, hf.2⟩
  | rm c =>
    simp only [fresh] at hf
    split
    · rename_i k' h
      have := (inv_remove hi h).2; subst this
      refine ⟨seen, ?_, ?_, hf⟩
      · intro x hx
        simp only [ids, List.mem_map] at hx
        obtain ⟨y, hy, rfl⟩ := hx
        exact hsub _ (by simp only [ids, List.mem_map]; exact ⟨y, (List.mem_filter.1 hy).1, rfl⟩)
      · exact (List.filter_sublist.map _).nodup hnd
    · exact ⟨seen, hsub, hnd, hf⟩
  | repl o nw n =>
    simp only [fresh] at hf
    split
    · rename_i k' h
      simp only [step, replace] at h
      split at h
      · cases h
      · split at h
        · cases h
          refine ⟨nw :: seen, ?_, ?_, hf.2⟩
          · intro x hx
            rcases ids_replFirst_sub o (nw, n) k x hx with h | h
            · simp [h]
            · exact List.mem_cons_of_mem _ (hsub x h)
          · exact nodup_replFirst o (nw, n) k hnd (fun h => hf.1 (hsub _ h))
        · cases h
    · exact ⟨nw :: seen, fun x hx => List.mem_cons_of_mem _ (hsub x hx), hnd, hf.2⟩

theorem ids_nodup_run (p : Particle) (ops : List Op) (hf : fresh [] ops) : (ids (run p ops)).Nodup := by
  have : ∀ (ops : List Op) (k : Kids) (seen : List Nat), Inv p k → (∀ x ∈ ids k, x ∈ seen) → (ids k).Nodup →
      fresh seen ops → (ids (ops.foldl (apply p) k)).Nodup := by
    intro ops
    induction ops with
    | nil => intro k _ _ _ h _; exact h
    | cons op r ih =>
      intro k seen hi hs hn hfr
      obtain ⟨seen', h1, h2, h3⟩ := nodup_step hi hs hn op r hfr
      exact ih (apply p k op) seen' (inv_apply op hi) h1 h2 h3
  exact this ops [] [] (inv_nil p) (by simp [ids]) (by simp [ids]) hf

/-- C06 on Tame templates, for every history with fresh child objects: the two views are
    permutations of each other and no child occurs twice in either (hence once in the output) -/
theorem C06_tame (p : Particle) (ht : isTame p = true) (ops : List Op) (hf : fresh [] ops) :
    (ordered p (run p ops)).Perm (run p ops) ∧ (ids (run p ops)).Nodup ∧
    (ids (ordered p (run p ops))).Nodup := by
  have hp := ordered_perm p (run p ops) (inv_run p ops) ht
  have hn := ids_nodup_run p ops hf
  exact ⟨hp, hn, (hp.map _).nodup_iff.2 hn⟩

example : let p : Particle := .seq 1 (some 1) [.elem 0 1 (some 1), .elem 1 0 none, .elem 2 1 (some 1)]
    ids (ordered p (run p [.add 1 2 none, .add 2 1 none, .add 3 0 none, .add 4 1 none, .rm 2, .repl 4 5 1])) = [3, 5, 1] := by
  decide
end C06

#print axioms C06.ordered_perm
#print axioms C06.ids_nodup_run
#print axioms C06.C06_tame
