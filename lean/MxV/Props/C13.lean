import MxV.Model.Msimple
import MxV.Gen.Shapes
/-! # C13 — element instances are isolated from one another
The models are functional: an operation maps the state of *one* instance to a new state of that
instance, and a fresh instance is `init` of its (immutable) template. `frame` / `fresh_independent`
state that for a world of instances; the *content* of the property is whether the code has this
structure, which is established by (a) the correspondence runs — two or three instances of the same
and of different classes interleaved, compared with the model run instance by instance, and a fresh
instance compared with one in a pristine subprocess — and (b) the translator's inventory of
class-level state: every class-body mutable container and every class-level cell written after
import is one of the known constant/lazily-published tables (re-decided every run). -/
namespace C13
open Msimple

/-- a world of element instances -/
abbrev World := Nat → Option Kids

def update (w : World) (i : Nat) (k : Kids) : World := fun j => if j = i then some k else w j

/-- one operation on instance `i` of template `p` -/
def opOn (p : Particle) (w : World) (i : Nat) (op : Op) : World :=
  match w i with
  | some k => update w i (apply p k op)
  | none => w

theorem frame (p : Particle) (w : World) (i j : Nat) (op : Op) (h : j ≠ i) : opOn p w i op j = w j := by
  unfold opOn
  cases hw : w i with
  | some k => simp [update, h]
  | none => rfl

/-- a freshly constructed instance is the same whatever happened before -/
def fresh (w : World) (i : Nat) : World := update w i []
theorem fresh_independent (w w' : World) (i : Nat) : fresh w i i = fresh w' i i := by simp [fresh, update]

/-- inventory of shared class-level state (translator, re-decided every run) -/
def knownMutables : List String := ["_PROPERTIES", "_TYPES", "_UNION", "_FORCED_PERMITTED", "_PERMITTED"]
def knownCells : List String := ["_XSD_ATTRIBUTES", "XSD_TREE", "_XSD_TREE"]
theorem class_mutables_known : Gen.classMutables.all (fun c => knownMutables.contains c.2.2) = true := by decide
theorem class_cells_known : Gen.classCells.all (fun c => knownCells.contains c.2.2.2) = true := by decide
end C13

#print axioms C13.frame
#print axioms C13.fresh_independent
#print axioms C13.class_mutables_known
#print axioms C13.class_cells_known
