import MxV.Model.Msimple
import MxV.Gen.Shapes
/-! # C13 — element instances are isolated from one another
The models are functional: an operation maps the state of *one* instance to a new state of that
instance, and a fresh instance is `init` of its (immutable) template. `frame` / `fresh_independent`
state that for a world of instances; the *content* of the property is whether the code has this
structure, which is established by (a) the correspondence runs — two or three instances of the same
and of different classes interleaved, compared with the model run instance by instance, and a fresh
instance compared with one in a pristine subprocess — and (b) the translator's inventory of
class-level state: every class-body mutable container and every class-level cell written after
import is one of the known constant/lazily-published tables (re-decided every run). -/
namespace C13
open Msimple

/-- a world of element instances -/
abbrev World := Nat → Option Kids

def update (w : World) (i : Nat) (k : Kids) : World := fun j => if j = i then some k else w j

/-- one operation on instance `i` of template `p` -/
def opOn (p : Particle) (w : World) (i : Nat) (op : Op) : World :=
  match w i with
  | some k => update w i (apply p k op)
  | none => w

theorem frame (p : Particle) (w : World) (i j : Nat) (op : Op) (h : j ≠ i) : opOn p w i op j = w j := by
  unfold opOn
  cases hw : w i with
  | some k => simp [update, h]
  | none => rfl

/-- a freshly constructed instance is the same whatever happened before -/
def fresh (w : World) (i : Nat) : World := update w i []
theorem fresh_independent (w w' : World) (i : Nat) : fresh w i i = fresh w' i i := by simp [fresh, update]

/-! ## whole histories over many instances -/

/-- any interleaving of operations on any number of instances, each with its own template -/
def runW (tp : Nat → Particle) (w : World) (ops : List (Nat × Op)) : World :=
  ops.foldl (fun w o => opOn (tp o.1) w o.1 o.2) w

/-- the operations addressed to instance `j`, in order -/
def own (j : Nat) (ops : List (Nat × Op)) : List Op := (ops.filter (·.1 == j)).map (·.2)

theorem opOn_self (p : Particle) (w : World) (i : Nat) (k : Kids) (op : Op) (h : w i = some k) :
    opOn p w i op i = some (apply p k op) := by
  unfold opOn; rw [h]; simp [update]

/-- isolation for whole histories: after any interleaved history over all instances, instance `j`
is in the state its *own* operations alone produce from where it started — whatever the other
instances (same class or not) did in between -/
theorem isolation (tp : Nat → Particle) (ops : List (Nat × Op)) (w : World) (j : Nat) (k : Kids) (h : w j = some k) :
    runW tp w ops j = some ((own j ops).foldl (apply (tp j)) k) := by
  induction ops generalizing w k with
  | nil => simpa [runW, own] using h
  | cons o r ih =>
    obtain ⟨i, op⟩ := o
    unfold runW at ih ⊢
    rw [List.foldl_cons]
    by_cases hij : i = j
    · subst hij
      rw [ih _ _ (opOn_self (tp i) w i k op h)]
      simp [own]
    · have hji : j ≠ i := fun e => hij e.symm
      rw [ih _ k (by rw [frame _ _ _ _ _ hji]; exact h)]
      have : ((i, op).1 == j) = false := by simpa using hij
      simp [own, this]

/-- two worlds that agree on instance `j` agree on it after the same history, whatever else they hold -/
theorem isolation_worlds (tp : Nat → Particle) (ops : List (Nat × Op)) (w w' : World) (j : Nat) (k : Kids)
    (h : w j = some k) (h' : w' j = some k) : runW tp w ops j = runW tp w' ops j := by
  rw [isolation tp ops w j k h, isolation tp ops w' j k h']

/-- inventory of shared class-level state (translator, re-decided every run) -/
def knownMutables : List String := ["_PROPERTIES", "_TYPES", "_UNION", "_FORCED_PERMITTED", "_PERMITTED"]
def knownCells : List String := ["_XSD_ATTRIBUTES", "XSD_TREE", "_XSD_TREE"]
theorem class_mutables_known : Gen.classMutables.all (fun c => knownMutables.contains c.2.2) = true := by decide
theorem class_cells_known : Gen.classCells.all (fun c => knownCells.contains c.2.2.2) = true := by decide
end C13

#print axioms C13.frame
#print axioms C13.fresh_independent
#print axioms C13.class_mutables_known
#print axioms C13.class_cells_known
#print axioms C13.isolation
#print axioms C13.isolation_worlds
