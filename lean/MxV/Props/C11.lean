import MxV.Model.MsimpleTheory
/-! # C11 — removing a child restores the behaviour the element had without it
On `Tame` templates the whole observable state of the model is the insertion-ordered list of
live children, so the property is the *rebuild* theorem: every reachable state — after any
history with removals at any position — is exactly the state a fresh element reaches when the
remaining children are added in the same relative order. Observational equivalence (same
serialisation / missing-children verdict / acceptance of every further child) then is equality
of states. This is true of the code only since the repair `fix: remove() resets the validation
flags…`; before it the code carried extra state (`force_validate`) the model does not have and the
correspondence disagreed on 42 types. Partial: `Wild` types (open findings). -/
namespace C11
open Msimple

theorem C11_rebuild (p : Particle) (ht : isTame p = true) (k : Kids) (hi : Inv p k) :
    runE p [] (addOpsK k) = .ok k := by
  by_cases hf : isFlat p = true
  · have := runE_addsK_flat p hf [] k hi.1 (by
      intro s hs
      have := hi.2.1 hf s hs
      simpa [count, names] using this)
    simpa using this
  · have hrc : isRootChoice p = true := by
      simp only [isTame, Bool.or_eq_true, Bool.and_eq_true] at ht
      rcases ht with h | h
      · exact absurd h hf
      · exact h.1
    obtain ⟨mi, ma, ps, rfl, hmi, hne, hma, hu⟩ := isRootChoice_shape hrc
    rcases hma with rfl | rfl
    · -- unbounded: every child is accepted
      have : ∀ acc, (∀ c ∈ k, c.2 ∈ Particle.leavesL ps) →
          runE (.choice mi none ps) acc (addOpsK k) = .ok (acc ++ k) := by
        induction k with
        | nil => intro acc _; simp [runE, addOpsK]
        | cons c k ih =>
          intro acc hsub
          have hn : c.2 ∈ Particle.leavesL ps := hsub c (by simp)
          have hstep : step (.choice mi none ps) acc (.add c.1 c.2 none) = .ok (acc ++ [c]) := by
            simp [step, add, flat_not_choice, Particle.leaves, hn, fwdOk]
          simp only [addOpsK, List.map_cons, runE, hstep]
          have := ih (inv_of_names_eq rfl ⟨fun x hx => hi.1 x (by simp [hx]), fun h => by simp [flat_not_choice] at h,
            fun _ _ h => by cases h⟩) (acc ++ [c]) (fun x hx => hsub x (by simp [hx]))
          simpa [addOpsK] using this
      simpa using this [] (fun c hc => by simpa [Particle.leaves] using hi.1 c hc)
    · have hlen := hi.2.2 mi ps rfl
      match k, hlen, hi with
      | [], _, _ => simp [runE, addOpsK]
      | [c], _, hi =>
        have hn : c.2 ∈ Particle.leavesL ps := by simpa [Particle.leaves] using hi.1 c (by simp)
        simp [runE, addOpsK, step, add, flat_not_choice, Particle.leaves, hn, fwdOk]
      | _ :: _ :: _, hlen, _ => simp at hlen

/-- for every history: the state after it equals the state after re-adding its survivors -/
theorem C11_tame (p : Particle) (ht : isTame p = true) (ops : List Op) :
    runE p [] (addOpsK (run p ops)) = .ok (run p ops) :=
  C11_rebuild p ht _ (inv_run p ops)

/-- in particular an optional child that was added and then removed leaves no trace -/
example : let p : Particle := .seq 1 (some 1) [.elem 0 1 (some 1), .seq 0 (some 1) [.elem 1 1 (some 1), .elem 2 1 (some 1)]]
    required p (run p [.add 1 0 none, .add 2 1 none, .rm 2]) = [] ∧
    required p (run p [.add 1 0 none, .add 2 1 none]) = [2] := by decide
end C11

#print axioms C11.C11_rebuild
#print axioms C11.C11_tame
