import MxV.Model.MsimpleTheory
import MxV.Props.C04
/-! # C11 — removing a child restores the behaviour the element had without it
On `Tame` templates the whole observable state of the model is the insertion-ordered list of
live children, so the property is the *rebuild* theorem: every reachable state — after any
history with removals at any position — is exactly the state a fresh element reaches when the
remaining children are added in the same relative order. Observational equivalence (same
serialisation / missing-children verdict / acceptance of every further child) then is equality
of states. This is true of the code only since the repair `fix: remove() resets the validation
flags…`; before it the code carried extra state (`force_validate`) the model does not have and the
correspondence disagreed on 42 types. Partial: `Wild` types (open findings). -/
namespace C11
open Msimple

theorem C11_rebuild (p : Particle) (ht : isTame p = true) (k : Kids) (hi : Inv p k) :
    runE p [] (addOpsK k) = .ok k := by
  by_cases hf : isFlat p = true
  · have := runE_addsK_flat p hf [] k hi.1 (by
      intro s hs
      have := hi.2.1 hf s hs
      simpa [count, names] using this)
    simpa using this
  · have hrc : isRootChoice p = true := by
      simp only [isTame, Bool.or_eq_true, Bool.and_eq_true] at ht
      rcases ht with h | h
      · exact absurd h hf
      · exact h.1
    obtain ⟨mi, ma, ps, rfl, hmi, hne, hma, hu⟩ := isRootChoice_shape hrc
    rcases hma with rfl | rfl
    · -- unbounded: every child is accepted
      have : ∀ acc, (∀ c ∈ k, c.2 ∈ Particle.leavesL ps) →
          runE (.choice mi none ps) acc (addOpsK k) = .ok (acc ++ k) := by
        induction k with
        | nil => intro acc _; simp [runE, addOpsK]
        | cons c k ih =>
          intro acc hsub
          have hn : c.2 ∈ Particle.leavesL ps := hsub c (by simp)
          have hstep : step (.choice mi none ps) acc (.add c.1 c.2 none) = .ok (acc ++ [c]) := by
            simp [step, add, flat_not_choice, Particle.leaves, hn, fwdOk]
          simp only [addOpsK, List.map_cons, runE, hstep]
          have := ih (inv_of_names_eq rfl ⟨fun x hx => hi.1 x (by simp [hx]), fun h => by simp [flat_not_choice] at h,
            fun _ _ h => by cases h⟩) (acc ++ [c]) (fun x hx => hsub x (by simp [hx]))
          simpa [addOpsK] using this
      simpa using this [] (fun c hc => by simpa [Particle.leaves] using hi.1 c hc)
    · have hlen := hi.2.2 mi ps rfl
      match k, hlen, hi with
      | [], _, _ => simp [runE, addOpsK]
      | [c], _, hi =>
        have hn : c.2 ∈ Particle.leavesL ps := by simpa [Particle.leaves] using hi.1 c (by simp)
        simp [runE, addOpsK, step, add, flat_not_choice, Particle.leaves, hn, fwdOk]
      | _ :: _ :: _, hlen, _ => simp at hlen

/-- for every history: the state after it equals the state after re-adding its survivors -/
theorem C11_tame (p : Particle) (ht : isTame p = true) (ops : List Op) :
    runE p [] (addOpsK (run p ops)) = .ok (run p ops) :=
  C11_rebuild p ht _ (inv_run p ops)

/-- in particular an optional child that was added and then removed leaves no trace -/
example : let p : Particle := .seq 1 (some 1) [.elem 0 1 (some 1), .seq 0 (some 1) [.elem 1 1 (some 1), .elem 2 1 (some 1)]]
    required p (run p [.add 1 0 none, .add 2 1 none, .rm 2]) = [] ∧
    required p (run p [.add 1 0 none, .add 2 1 none]) = [2] := by decide

/-! ## attribute side (model `Element.setAttr`, tied to the code by the element engine this check runs) -/
section Attr
open Element Values

/-- attribute side of "removing restores": setting an attribute that was not set and then assigning
None gives back the very store (order included), for every table, validator, store, key, value -/
theorem attr_set_then_remove (validate : Nat → PyVal → Res) (t : Tbl) (s s1 : Store) (key : String) (v : PyVal)
    (hv : v ≠ .none) (hfresh : s.any (·.1 == normKey key) = false)
    (h : setAttr validate t s key v = .ok s1) : setAttr validate t s1 key .none = .ok s := by
  rw [C04.setAttr_eq validate t s key v hv] at h
  have hs1 : s1 = storeSet s (normKey key) v := by
    split at h
    · cases h
    · split at h
      · cases h; rfl
      · cases h
      · cases h
  subst hs1
  show Except.ok (storeDel (storeSet s (normKey key) v) (normKey key)) = Except.ok s
  congr 1
  unfold storeSet storeDel
  simp only [hfresh, Bool.false_eq_true, if_false, List.filter_append]
  have : s.filter (fun e => e.1 != normKey key) = s := by
    rw [List.filter_eq_self]; intro e he
    have := List.any_eq_false.mp hfresh e he
    simpa using this
  simp [this]
end Attr
end C11

#print axioms C11.C11_rebuild
#print axioms C11.C11_tame
#print axioms C11.attr_set_then_remove
