import MxV.Props.C04
import MxV.Model.Parser
/-! # C09 — any schema-valid file is read without loss; nothing is silently dropped
Model side, for **every** attribute of every input: the attribute ladder either raises or stores the
attribute under its (hyphenated) name with one of the three readings of its text — it never returns
normally without it (`attr_not_silently_dropped`). Since the repair `fix: the parser sets XML
attributes through the attribute table…` this covers names that collide with Python-side properties
(`name`, `content`, `level`, `xsd_check`, `_*`). Children are attached through the matcher, which
either raises or holds the child (C06). Element text: `C08.ladder_result_is_valid`.
Partial: first half ("every schema-valid file is accepted") inherits the domains of C02 (Tame
content models), C04/C05; namespaced attributes (`xml:lang`, `xlink:*`) arrive as `{uri}local` and are
refused (open finding F12); tail text is ignored by the parser (open finding F11b). -/
namespace C09
open Parser Element Values

def Kept (o : Oracle) (key v : String) (s' : Store) : Prop :=
  ∃ pv, storeGet s' (normKey key) = some pv ∧ (pv = .str v ∨ o.asInt = some pv ∨ o.asFloat = some pv)

theorem float_rung (validate : Nat → PyVal → Res) (t : Tbl) (s s' : Store) (key v : String) (o : Oracle)
    (hf : ∀ f, o.asFloat = some f → f ≠ .none)
    (h : attrFloat (fun pv => setAttr validate t s key pv) o = .ok s') : Kept o key v s' := by
  unfold attrFloat at h
  cases hof : o.asFloat with
  | none => simp [hof] at h
  | some f =>
    simp only [hof] at h
    exact ⟨f, C04.setAttr_stores validate t s s' key f (hf f hof) h, .inr (.inr hof)⟩

theorem int_rung (validate : Nat → PyVal → Res) (t : Tbl) (s s' : Store) (key v : String) (o : Oracle)
    (hf : ∀ f, o.asFloat = some f → f ≠ .none) (hz : ∀ z, o.asInt = some z → z ≠ .none)
    (h : attrInt (fun pv => setAttr validate t s key pv) o = .ok s') : Kept o key v s' := by
  unfold attrInt at h
  cases hoz : o.asInt with
  | none => simp only [hoz] at h; exact float_rung validate t s s' key v o hf h
  | some z =>
    simp only [hoz] at h
    cases hs : setAttr validate t s key z with
    | ok s2 =>
      simp only [hs] at h; cases h
      exact ⟨z, C04.setAttr_stores validate t s _ key z (hz z hoz) hs, .inr (.inl hoz)⟩
    | error e =>
      simp only [hs] at h
      cases e with
      | valueError => exact float_rung validate t s s' key v o hf h
      | wrongAttribute => cases h
      | typeError => cases h
      | keyExists => cases h

/-- an XML attribute is never dropped silently: if the ladder returns normally the attribute is in
    the store, under its schema name, with one of the three readings of its text -/
theorem attr_not_silently_dropped (validate : Nat → PyVal → Res) (t : Tbl) (s s' : Store) (key v : String)
    (o : Oracle) (hf : ∀ f, o.asFloat = some f → f ≠ .none) (hz : ∀ z, o.asInt = some z → z ≠ .none)
    (h : attrValue (fun pv => setAttr validate t s key pv) o v = .ok s') : Kept o key v s' := by
  unfold attrValue at h
  have strNe : PyVal.str v ≠ .none := by intro h; cases h
  cases hs : setAttr validate t s key (.str v) with
  | ok s1 =>
    simp only [hs] at h; cases h
    exact ⟨.str v, C04.setAttr_stores validate t s _ key _ strNe hs, .inl rfl⟩
  | error e =>
    simp only [hs] at h
    cases e with
    | typeError => exact int_rung validate t s s' key v o hf hz h
    | valueError => exact int_rung validate t s s' key v o hf hz h
    | wrongAttribute => cases h
    | keyExists => cases h
end C09

#print axioms C09.attr_not_silently_dropped
