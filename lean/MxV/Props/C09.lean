import MxV.Props.C04
import MxV.Model.Parser
/-! # C09 — any schema-valid file is read without loss; nothing is silently dropped
Model side, for **every** attribute of every input: the attribute ladder either raises or stores the
attribute under its (hyphenated) name with one of the three readings of its text — it never returns
normally without it (`attr_not_silently_dropped`), and the attributes of one element do not disturb one
another: if the parser gets through the whole list, all of them are in the store (`all_attrs_kept`,
from the frame law `C04.setAttr_frame`). Since the repair `fix: the parser sets XML
attributes through the attribute table…` this covers names that collide with Python-side properties
(`name`, `content`, `level`, `xsd_check`, `_*`). Children are attached through the matcher, which
either raises or holds the child (C06). Element text: `C08.ladder_result_is_valid`.
Partial: first half ("every schema-valid file is accepted") inherits the domains of C02 (Tame
content models), C04/C05; namespaced attributes (`xml:lang`, `xlink:*`) arrive as `{uri}local` and are
refused (open finding F12); tail text is ignored by the parser (open finding F11b). -/
namespace C09
open Parser Element Values

def Kept (o : Oracle) (key v : String) (s' : Store) : Prop :=
  ∃ pv, storeGet s' (normKey key) = some pv ∧ (pv = .str v ∨ o.asInt = some pv ∨ o.asFloat = some pv)

theorem float_rung (validate : Nat → PyVal → Res) (t : Tbl) (s s' : Store) (key v : String) (o : Oracle)
    (hf : ∀ f, o.asFloat = some f → f ≠ .none)
    (h : attrFloat (fun pv => setAttr validate t s key pv) o = .ok s') : Kept o key v s' := by
  unfold attrFloat at h
  cases hof : o.asFloat with
  | none => simp [hof] at h
  | some f =>
    simp only [hof] at h
    exact ⟨f, C04.setAttr_stores validate t s s' key f (hf f hof) h, .inr (.inr hof)⟩

theorem int_rung (validate : Nat → PyVal → Res) (t : Tbl) (s s' : Store) (key v : String) (o : Oracle)
    (hf : ∀ f, o.asFloat = some f → f ≠ .none) (hz : ∀ z, o.asInt = some z → z ≠ .none)
    (h : attrInt (fun pv => setAttr validate t s key pv) o = .ok s') : Kept o key v s' := by
  unfold attrInt at h
  cases hoz : o.asInt with
  | none => simp only [hoz] at h; exact float_rung validate t s s' key v o hf h
  | some z =>
    simp only [hoz] at h
    cases hs : setAttr validate t s key z with
    | ok s2 =>
      simp only [hs] at h; cases h
      exact ⟨z, C04.setAttr_stores validate t s _ key z (hz z hoz) hs, .inr (.inl hoz)⟩
    | error e =>
      simp only [hs] at h
      cases e with
      | valueError => exact float_rung validate t s s' key v o hf h
      | wrongAttribute => cases h
      | typeError => cases h
      | keyExists => cases h

/-- an XML attribute is never dropped silently: if the ladder returns normally the attribute is in
    the store, under its schema name, with one of the three readings of its text -/
theorem attr_not_silently_dropped (validate : Nat → PyVal → Res) (t : Tbl) (s s' : Store) (key v : String)
    (o : Oracle) (hf : ∀ f, o.asFloat = some f → f ≠ .none) (hz : ∀ z, o.asInt = some z → z ≠ .none)
    (h : attrValue (fun pv => setAttr validate t s key pv) o v = .ok s') : Kept o key v s' := by
  unfold attrValue at h
  have strNe : PyVal.str v ≠ .none := by intro h; cases h
  cases hs : setAttr validate t s key (.str v) with
  | ok s1 =>
    simp only [hs] at h; cases h
    exact ⟨.str v, C04.setAttr_stores validate t s _ key _ strNe hs, .inl rfl⟩
  | error e =>
    simp only [hs] at h
    cases e with
    | typeError => exact int_rung validate t s s' key v o hf hz h
    | valueError => exact int_rung validate t s s' key v o hf hz h
    | wrongAttribute => cases h
    | keyExists => cases h

/-! ## the whole attribute list of an element
`parseAttrs` is the fold of the per-attribute step (`pattr` in Driver.lean, which the parsing harness
issues once per XML attribute in document order, stopping at the first error, exactly as
`_et_xml_to_music_xml` does). -/

/-- whatever rung succeeds, the resulting store is the result of one `setAttr` call -/
theorem ladder_is_a_set (set : PyVal → Except AErr Store) (o : Oracle) (v : String) (s' : Store)
    (h : attrValue set o v = .ok s') : ∃ pv, set pv = .ok s' := by
  have hF : ∀ s', attrFloat set o = .ok s' → ∃ pv, set pv = .ok s' := by
    intro s' h; unfold attrFloat at h
    cases hof : o.asFloat with
    | none => simp [hof] at h
    | some f => simp only [hof] at h; exact ⟨f, h⟩
  have hI : ∀ s', attrInt set o = .ok s' → ∃ pv, set pv = .ok s' := by
    intro s' h; unfold attrInt at h
    cases hoz : o.asInt with
    | none => simp only [hoz] at h; exact hF _ h
    | some z =>
      simp only [hoz] at h
      cases hs : set z with
      | ok s2 => simp only [hs] at h; cases h; exact ⟨z, hs⟩
      | error e =>
        simp only [hs] at h
        cases e with
        | valueError => exact hF _ h
        | wrongAttribute => cases h
        | typeError => cases h
        | keyExists => cases h
  unfold attrValue at h
  cases hs : set (.str v) with
  | ok s1 => simp only [hs] at h; cases h; exact ⟨_, hs⟩
  | error e =>
    simp only [hs] at h
    cases e with
    | typeError => exact hI _ h
    | valueError => exact hI _ h
    | wrongAttribute => cases h
    | keyExists => cases h

/-- one XML attribute as the parser sees it: name, text, and what `int()` / `float()` make of the text -/
structure XAttr where
  key : String
  text : String
  o : Oracle

/-- `for k, v in node.attrib.items(): …` — the first attribute that raises aborts the parse -/
def parseAttrs (validate : Nat → PyVal → Res) (t : Tbl) : Store → List XAttr → Except AErr Store
  | s, [] => .ok s
  | s, a :: r =>
    match attrValue (fun pv => setAttr validate t s a.key pv) a.o a.text with
    | .ok s1 => parseAttrs validate t s1 r
    | .error e => .error e

theorem parseAttrs_frame (validate : Nat → PyVal → Res) (t : Tbl) (as : List XAttr) (s s' : Store) (k : String)
    (hk : ∀ a ∈ as, normKey a.key ≠ k) (h : parseAttrs validate t s as = .ok s') : storeGet s' k = storeGet s k := by
  induction as generalizing s with
  | nil => simp only [parseAttrs] at h; cases h; rfl
  | cons a r ih =>
    simp only [parseAttrs] at h
    cases h1 : attrValue (fun pv => setAttr validate t s a.key pv) a.o a.text with
    | error e => simp only [h1] at h; cases h
    | ok s1 =>
      simp only [h1] at h
      obtain ⟨pv, hpv⟩ := ladder_is_a_set _ _ _ _ h1
      rw [ih s1 (fun b hb => hk b (List.mem_cons_of_mem _ hb)) h]
      exact C04.setAttr_frame validate t s s1 a.key k pv hpv (fun e => hk a (List.mem_cons_self) e.symm)

/-- nothing is dropped from a whole attribute list: if the parser gets through the attributes of an
element (an XML parser guarantees their names are distinct), every one of them is in the final
store — the later ones do not disturb the earlier ones -/
theorem all_attrs_kept (validate : Nat → PyVal → Res) (t : Tbl) (as : List XAttr) (s s' : Store)
    (hd : (as.map fun a => normKey a.key).Nodup)
    (hf : ∀ a ∈ as, ∀ f, a.o.asFloat = some f → f ≠ .none) (hz : ∀ a ∈ as, ∀ z, a.o.asInt = some z → z ≠ .none)
    (h : parseAttrs validate t s as = .ok s') : ∀ a ∈ as, Kept a.o a.key a.text s' := by
  induction as generalizing s with
  | nil => intro a ha; cases ha
  | cons a r ih =>
    simp only [parseAttrs] at h
    cases h1 : attrValue (fun pv => setAttr validate t s a.key pv) a.o a.text with
    | error e => simp only [h1] at h; cases h
    | ok s1 =>
      simp only [h1] at h
      rw [List.map_cons, List.nodup_cons] at hd
      intro b hb
      cases hb with
      | head =>
        obtain ⟨pv, hget, hwhich⟩ := attr_not_silently_dropped validate t s s1 a.key a.text a.o
          (hf a List.mem_cons_self) (hz a List.mem_cons_self) h1
        refine ⟨pv, ?_, hwhich⟩
        rw [parseAttrs_frame validate t r s1 s' (normKey a.key) ?_ h]; exact hget
        intro c hc e
        exact hd.1 (List.mem_map.mpr ⟨c, hc, e⟩)
      | tail _ hb' =>
        exact ih s1 hd.2 (fun c hc => hf c (List.mem_cons_of_mem _ hc)) (fun c hc => hz c (List.mem_cons_of_mem _ hc)) h b hb'
end C09

#print axioms C09.attr_not_silently_dropped
#print axioms C09.ladder_is_a_set
#print axioms C09.parseAttrs_frame
#print axioms C09.all_attrs_kept
