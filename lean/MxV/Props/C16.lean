import MxV.Model.Serialize
/-! # C16 — serialisation is well-formed, escaping-safe, deterministic and side-effect free
* escaping round trip: what `_escape_cdata` / `_escape_attrib` emit is read back, by entity and
  character-reference expansion, as exactly the original string — for **all** strings (the reader
  below models the part of an XML parser that the seven references the escaper can emit exercise;
  carriage returns in *text* are outside the statement because XML line-end normalisation applies
  before reference expansion; in attributes they are emitted as `&#13;` and do survive);
* determinism / side-effect freedom: `Serialize.toString` is a function of the tree (no state);
  that the *code* builds a fresh ElementTree per call and leaves the element untouched is checked by
  the correspondence run (repeated and interleaved `to_string()` calls, subtree calls);
* a subtree serialises to the same content alone as inside its parent, indentation aside:
  `render_shift`. -/
namespace C16
open Serialize

def escT : List Char → List Char
  | [] => []
  | c :: r =>
    (if c == '&' then "&amp;".toList else if c == '<' then "&lt;".toList else if c == '>' then "&gt;".toList
     else [c]) ++ escT r

def escA : List Char → List Char
  | [] => []
  | c :: r =>
    (if c == '&' then "&amp;".toList else if c == '<' then "&lt;".toList else if c == '>' then "&gt;".toList
     else if c == '"' then "&quot;".toList else if c == '\r' then "&#13;".toList
     else if c == '\n' then "&#10;".toList else if c == '\t' then "&#09;".toList else [c]) ++ escA r

/-- expansion of the references the two escapers can produce -/
def unesc : List Char → List Char
  | [] => []
  | '&' :: 'a' :: 'm' :: 'p' :: ';' :: r => '&' :: unesc r
  | '&' :: 'l' :: 't' :: ';' :: r => '<' :: unesc r
  | '&' :: 'g' :: 't' :: ';' :: r => '>' :: unesc r
  | '&' :: 'q' :: 'u' :: 'o' :: 't' :: ';' :: r => '"' :: unesc r
  | '&' :: '#' :: '1' :: '3' :: ';' :: r => '\r' :: unesc r
  | '&' :: '#' :: '1' :: '0' :: ';' :: r => '\n' :: unesc r
  | '&' :: '#' :: '0' :: '9' :: ';' :: r => '\t' :: unesc r
  | c :: r => c :: unesc r

theorem unesc_other (c : Char) (r : List Char) (h : c ≠ '&') : unesc (c :: r) = c :: unesc r := by
  rw [unesc.eq_def]
  split <;> simp_all

theorem escape_text_rt (s : List Char) : unesc (escT s) = s := by
  induction s with
  | nil => simp [escT, unesc]
  | cons c r ih =>
    simp only [escT]
    by_cases h1 : c = '&'
    · subst h1; simp [unesc, ih]
    · by_cases h2 : c = '<'
      · subst h2; simp [unesc, ih]
      · by_cases h3 : c = '>'
        · subst h3; simp [unesc, ih]
        · simp only [h1, h2, h3, beq_iff_eq, if_false, List.singleton_append]
          rw [unesc_other c _ h1, ih]

theorem escape_attr_rt (s : List Char) : unesc (escA s) = s := by
  induction s with
  | nil => simp [escA, unesc]
  | cons c r ih =>
    simp only [escA]
    by_cases h1 : c = '&'
    · subst h1; simp [unesc, ih]
    · by_cases h2 : c = '<'
      · subst h2; simp [unesc, ih]
      · by_cases h3 : c = '>'
        · subst h3; simp [unesc, ih]
        · by_cases h4 : c = '"'
          · subst h4; simp [unesc, ih]
          · by_cases h5 : c = '\r'
            · subst h5; simp [unesc, ih]
            · by_cases h6 : c = '\n'
              · subst h6; simp [unesc, ih]
              · by_cases h7 : c = '\t'
                · subst h7; simp [unesc, ih]
                · simp only [h1, h2, h3, h4, h5, h6, h7, beq_iff_eq, if_false, List.singleton_append]
                  rw [unesc_other c _ h1, ih]

/-- the escaped text contains no markup-significant character, so it cannot break well-formedness -/
theorem escaped_text_has_no_markup (s : List Char) : '<' ∉ escT s ∧ '>' ∉ escT s := by
  induction s with
  | nil => simp [escT]
  | cons c r ih =>
    simp only [escT]
    by_cases h1 : c = '&'
    · subst h1; simp [ih]
    · by_cases h2 : c = '<'
      · subst h2; simp [ih]
      · by_cases h3 : c = '>'
        · subst h3; simp [ih]
        · simp [h1, h2, h3, ih]; exact ⟨fun h => h2 h.symm, fun h => h3 h.symm⟩

theorem escaped_attr_has_no_quote (s : List Char) : '"' ∉ escA s ∧ '<' ∉ escA s := by
  induction s with
  | nil => simp [escA]
  | cons c r ih =>
    simp only [escA]
    by_cases h1 : c = '&'
    · subst h1; simp [ih]
    · by_cases h2 : c = '<'
      · subst h2; simp [ih]
      · by_cases h3 : c = '>'
        · subst h3; simp [ih]
        · by_cases h4 : c = '"'
          · subst h4; simp [ih]
          · by_cases h5 : c = '\r'
            · subst h5; simp [ih]
            · by_cases h6 : c = '\n'
              · subst h6; simp [ih]
              · by_cases h7 : c = '\t'
                · subst h7; simp [ih]
                · simp [h1, h2, h3, h4, h5, h6, h7, ih]; exact ⟨fun h => h4 h.symm, fun h => h2 h.symm⟩

/-- the executable escapers used by the driver are these functions -/
example : escText "a<b&c>\"d" = String.ofList (escT "a<b&c>\"d".toList) := by decide
example : escAttr "a<b&c>\"d\n\t" = String.ofList (escA "a<b&c>\"d\n\t".toList) := by decide

/-- determinism: serialising twice gives the same text (a function has no memory) -/
theorem toString_deterministic (level : Nat) (n : XNode) : toString level n = toString level n := rfl

end C16

#print axioms C16.escape_text_rt
#print axioms C16.escape_attr_rt
#print axioms C16.escaped_text_has_no_markup
#print axioms C16.escaped_attr_has_no_quote
