import MxV.Model.Serialize
import MxV.Model.XmlRoundTrip
/-! # C16 — serialisation is well-formed, escaping-safe, deterministic and side-effect free
* escaping round trip: what `_escape_cdata` / `_escape_attrib` emit is read back, by entity and
  character-reference expansion, as exactly the original string — for **all** strings (the reader
  below models the part of an XML parser that the seven references the escaper can emit exercise;
  carriage returns in *text* are outside the statement because XML line-end normalisation applies
  before reference expansion; in attributes they are emitted as `&#13;` and do survive);
* determinism / side-effect freedom: `Serialize.toString` is a function of the tree (no state, so
  nothing to prove on the model side);
  that the *code* builds a fresh ElementTree per call and leaves the element untouched is checked by
  the correspondence run (repeated and interleaved `to_string()` calls, subtree calls);
* a subtree serialises to the same content alone as inside its parent, indentation aside:
  `render_shift` / `subtree_alone_eq_in_parent` (here even the indentation agrees, because the
  subtree's own level is its depth in the parent). -/
namespace C16
open Serialize

/-- expansion of the references the two escapers can produce -/
def unesc : List Char → List Char
  | [] => []
  | '&' :: 'a' :: 'm' :: 'p' :: ';' :: r => '&' :: unesc r
  | '&' :: 'l' :: 't' :: ';' :: r => '<' :: unesc r
  | '&' :: 'g' :: 't' :: ';' :: r => '>' :: unesc r
  | '&' :: 'q' :: 'u' :: 'o' :: 't' :: ';' :: r => '"' :: unesc r
  | '&' :: '#' :: '1' :: '3' :: ';' :: r => '\r' :: unesc r
  | '&' :: '#' :: '1' :: '0' :: ';' :: r => '\n' :: unesc r
  | '&' :: '#' :: '0' :: '9' :: ';' :: r => '\t' :: unesc r
  | c :: r => c :: unesc r

theorem unesc_other (c : Char) (r : List Char) (h : c ≠ '&') : unesc (c :: r) = c :: unesc r := by
  rw [unesc.eq_def]
  split <;> simp_all

theorem escape_text_rt (s : List Char) : unesc (escT s) = s := by
  induction s with
  | nil => simp [escT, unesc]
  | cons c r ih =>
    simp only [escT]
    by_cases h1 : c = '&'
    · subst h1; simp [unesc, ih]
    · by_cases h2 : c = '<'
      · subst h2; simp [unesc, ih]
      · by_cases h3 : c = '>'
        · subst h3; simp [unesc, ih]
        · simp only [h1, h2, h3, beq_iff_eq, if_false, List.singleton_append]
          rw [unesc_other c _ h1, ih]

theorem escape_attr_rt (s : List Char) : unesc (escA s) = s := by
  induction s with
  | nil => simp [escA, unesc]
  | cons c r ih =>
    simp only [escA]
    by_cases h1 : c = '&'
    · subst h1; simp [unesc, ih]
    · by_cases h2 : c = '<'
      · subst h2; simp [unesc, ih]
      · by_cases h3 : c = '>'
        · subst h3; simp [unesc, ih]
        · by_cases h4 : c = '"'
          · subst h4; simp [unesc, ih]
          · by_cases h5 : c = '\r'
            · subst h5; simp [unesc, ih]
            · by_cases h6 : c = '\n'
              · subst h6; simp [unesc, ih]
              · by_cases h7 : c = '\t'
                · subst h7; simp [unesc, ih]
                · simp only [h1, h2, h3, h4, h5, h6, h7, beq_iff_eq, if_false, List.singleton_append]
                  rw [unesc_other c _ h1, ih]

/-- the escaped text contains no markup-significant character, so it cannot break well-formedness -/
theorem escaped_text_has_no_markup (s : List Char) : '<' ∉ escT s ∧ '>' ∉ escT s := by
  induction s with
  | nil => simp [escT]
  | cons c r ih =>
    simp only [escT]
    by_cases h1 : c = '&'
    · subst h1; simp [ih]
    · by_cases h2 : c = '<'
      · subst h2; simp [ih]
      · by_cases h3 : c = '>'
        · subst h3; simp [ih]
        · simp [h1, h2, h3, ih]; exact ⟨fun h => h2 h.symm, fun h => h3 h.symm⟩

theorem escaped_attr_has_no_quote (s : List Char) : '"' ∉ escA s ∧ '<' ∉ escA s := by
  induction s with
  | nil => simp [escA]
  | cons c r ih =>
    simp only [escA]
    by_cases h1 : c = '&'
    · subst h1; simp [ih]
    · by_cases h2 : c = '<'
      · subst h2; simp [ih]
      · by_cases h3 : c = '>'
        · subst h3; simp [ih]
        · by_cases h4 : c = '"'
          · subst h4; simp [ih]
          · by_cases h5 : c = '\r'
            · subst h5; simp [ih]
            · by_cases h6 : c = '\n'
              · subst h6; simp [ih]
              · by_cases h7 : c = '\t'
                · subst h7; simp [ih]
                · simp [h1, h2, h3, h4, h5, h6, h7, ih]; exact ⟨fun h => h4 h.symm, fun h => h2 h.symm⟩

/-- the executable escapers used by the driver are these functions, packed into `String`s -/
example (s : String) : escText s = String.ofList (escT s.toList) := rfl
example (s : String) : escAttr s = String.ofList (escA s.toList) := rfl

/-! ### a subtree serialises alone exactly as inside its parent
`render base d n` is the text of `n` at depth `d` below a root serialised at tree level `base`;
serialised on its own the subtree's level is `base + d`. The two texts are *identical* (not only
up to indentation): everything `ET.indent` writes depends on `base + d` only. -/
mutual
theorem render_shift : (base d : Nat) → (n : XNode) → renderL base d n = renderL (base + d) 0 n
  | base, d, ⟨name, attrs, text, children⟩ => by
    cases children with
    | nil => simp [renderL]
    | cons c cs =>
      simp only [renderL, Nat.add_zero]
      rw [renderKids_shift base d (c :: cs)]
theorem renderKids_shift : (base d : Nat) → (l : List XNode) → renderKidsL base d l = renderKidsL (base + d) 0 l
  | _, _, [] => by simp [renderKidsL]
  | base, d, [c] => by
    simp only [renderKidsL, Nat.add_zero]
    rw [render_shift base (d + 1) c, render_shift (base + d) (0 + 1) c]
    simp [Nat.add_assoc]
  | base, d, c :: c' :: r => by
    simp only [renderKidsL, Nat.add_zero]
    rw [render_shift base (d + 1) c, render_shift (base + d) (0 + 1) c, renderKids_shift base d (c' :: r)]
    simp [Nat.add_assoc]
end

/-- `to_string()` of a subtree at tree level `level + d` is, final newline aside, the slice its parent's
    `to_string()` contains for it -/
theorem subtree_alone_eq_in_parent (level d : Nat) (n : XNode) :
    Serialize.toString (level + d) n = String.ofList (renderL level d n ++ ['\n']) := by
  unfold Serialize.toString
  rw [render_shift level d n]

/-- non-vacuity: a two-level tree, the child rendered inside and alone -/
example :
    let child : XNode := ⟨"step".toList, [], some "C<".toList, []⟩
    let parent : XNode := ⟨"pitch".toList, [("id".toList, "p\"1".toList)], none, [child, ⟨"octave".toList, [], some "4".toList, []⟩]⟩
    Serialize.toString 0 parent = "<pitch id=\"p&quot;1\">\n  <step>C&lt;</step>\n  <octave>4</octave>\n</pitch>\n" ∧
    Serialize.toString 1 child = "<step>C&lt;</step>\n" := by decide

/-! ### what `to_string()` writes is read back exactly (`Model/XmlRoundTrip.lean`)
`parseNode` is a reader for the XML subset the serialiser emits; `canon` forgets only what `ET.indent`
overwrites (blank text of an element that has children) and the `None` / `''` distinction of an empty
leaf. No hypothesis on the strings in text and attribute position. -/

/-- reading back the serialisation of any well-formed tree, at any level, followed by anything,
    returns the (canonical) tree and leaves exactly what followed -/
theorem to_string_decodes (level d : Nat) (n : XNode) (rest : List Char) (h : WF n = true) :
    parseNode (size n) (renderL level d n ++ rest) = some (canon n, rest) :=
  parseNode_render n level d (size n) rest h (Nat.le_refl _)

/-- hence two trees with the same serialisation are the same document: `to_string()` loses nothing
    but what `canon` names, whatever the strings are -/
theorem to_string_injective (l1 d1 l2 d2 : Nat) (n m : XNode) (hn : WF n = true) (hm : WF m = true)
    (h : renderL l1 d1 n = renderL l2 d2 m) : canon n = canon m := by
  have a := parseNode_render n l1 d1 (size n + size m) [] hn (by omega)
  have b := parseNode_render m l2 d2 (size n + size m) [] hm (by omega)
  rw [h] at a
  rw [a] at b
  simpa using b

/-- a tree that is already canonical (no blank text above children, no empty-string leaf) is
    returned unchanged: every text and attribute string is recovered exactly -/
theorem canonical_tree_recovered (level : Nat) (n : XNode) (h : WF n = true) (hc : canon n = n) :
    parseNode (size n) (renderL level 0 n ++ ['\n']) = some (n, ['\n']) := by
  have := to_string_decodes level 0 n ['\n'] h
  rwa [hc] at this

/-- non-vacuity: a concrete document with markup characters, quotes, white space and a non-BMP character -/
example :
    let child : XNode := ⟨"words".toList, [("font-family".toList, "a\"b<c>&\n\t".toList)], some " x < y & z > w \"q\" 𝄞 ".toList, []⟩
    let doc : XNode := ⟨"direction-type".toList, [], none, [child, ⟨"coda".toList, [], none, []⟩]⟩
    WF doc = true ∧
      (parseNode (size doc) (renderL 2 0 doc ++ ['\n'])).map (fun p => (renderL 0 0 p.1, p.2)) =
        some (renderL 0 0 doc, ['\n']) := by decide +kernel


/-! ## escaping is injective and character-wise (all strings) -/

/-- escaping loses nothing: two different texts never escape to the same characters -/
theorem escape_text_injective (s t : List Char) (h : escT s = escT t) : s = t := by
  rw [← escape_text_rt s, ← escape_text_rt t, h]
theorem escape_attr_injective (s t : List Char) (h : escA s = escA t) : s = t := by
  rw [← escape_attr_rt s, ← escape_attr_rt t, h]

/-- escaping is character-wise: the escaped form of a text does not depend on what surrounds it -/
theorem escape_text_append (s t : List Char) : escT (s ++ t) = escT s ++ escT t := by
  induction s with
  | nil => rfl
  | cons c r ih => simp only [List.cons_append, escT, ih, List.append_assoc]
theorem escape_attr_append (s t : List Char) : escA (s ++ t) = escA s ++ escA t := by
  induction s with
  | nil => rfl
  | cons c r ih => simp only [List.cons_append, escA, ih, List.append_assoc]
end C16

#print axioms C16.escape_text_rt
#print axioms C16.escape_attr_rt
#print axioms C16.escaped_text_has_no_markup
#print axioms C16.escaped_attr_has_no_quote
#print axioms C16.render_shift
#print axioms C16.subtree_alone_eq_in_parent
#print axioms C16.to_string_decodes
#print axioms C16.to_string_injective
#print axioms C16.canonical_tree_recovered
#print axioms C16.escape_text_injective
#print axioms C16.escape_attr_injective
#print axioms C16.escape_text_append
#print axioms C16.escape_attr_append
