import MxV.Model.Parser
/-! # C08 — the library's own output re-parses to the same document
Model side: the typing ladder of the parser (`Parser.elementValue` / `attrValue`) preserves what the
writer emitted:
* text-typed content stays the very string (`str_stays_str`);
* integer-typed content comes back as the int (`int_stays_int`: the str and float rungs are refused
  by the type gate with TypeError, the int rung accepts) — integer types stay integers;
* decimal-typed content comes back as the float whose repr the oracle supplies
  (`decimal_comes_back_float`; `float(repr x) = x` is CPython's guarantee, trusted);
* a ValueError at any rung is not swallowed (`value_error_propagates`).
The whole-document statement (same elements, order, attributes, text; second round trip
byte-identical) is checked by the correspondence run on generated documents: real
`parse_musicxml` vs. model, and an infoset comparison of input and output. -/
namespace C08
open Parser Values

theorem str_stays_str (check : PyVal → Res) (t : String) (o : Oracle) (h : check (.str t) = .ok) :
    elementValue check t o = .ok (.str t) := by simp [elementValue, h]

theorem int_stays_int (check : PyVal → Res) (t : String) (f z : PyVal)
    (h1 : check (.str t) = .typeError) (h2 : check f = .typeError) (h3 : check z = .ok) :
    elementValue check t ⟨some f, some z⟩ = .ok z := by simp [elementValue, h1, h2, h3]

theorem decimal_comes_back_float (check : PyVal → Res) (t : String) (f : PyVal) (zi : Option PyVal)
    (h1 : check (.str t) = .typeError) (h2 : check f = .ok) :
    elementValue check t ⟨some f, zi⟩ = .ok f := by simp [elementValue, h1, h2]

theorem value_error_propagates (check : PyVal → Res) (t : String) (o : Oracle) (h : check (.str t) = .valueError) :
    elementValue check t o = .error .valueError := by simp [elementValue, h]

/-- whatever the ladder returns was accepted by the element's own type check -/
theorem ladder_result_is_valid (check : PyVal → Res) (t : String) (o : Oracle) (v : PyVal)
    (h : elementValue check t o = .ok v) : check v = .ok := by
  unfold elementValue at h
  split at h
  · cases h; assumption
  · cases h
  · split at h
    · cases h
    · split at h
      · cases h; assumption
      · cases h
      · split at h
        · cases h
        · split at h
          · cases h; assumption
          · cases h
end C08

#print axioms C08.str_stays_str
#print axioms C08.int_stays_int
#print axioms C08.decimal_comes_back_float
#print axioms C08.value_error_propagates
#print axioms C08.ladder_result_is_valid
