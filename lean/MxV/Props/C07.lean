import MxV.Model.MsimpleTheory
/-! # C07 — add_child never accepts a child that makes the element impossible to complete
Model side, `Tame` templates:
* `C07_reject_needed`: a child is rejected only when no word of the content model contains it
  together with the children already present (so nothing completable is ever refused — this is
  also the second half of C12);
* `C07_complete_rootChoice` / `C07_complete_flat`: every reachable state can be extended by further
  adds to one that passes the final check (explicit completion: the under-filled required leaves of
  every scope that is required or already non-empty).
Partial: `Wild` types (no theorem; bounded completion search in the correspondence run only). -/
namespace C07
open Msimple

/-- Flat: whatever is rejected could not have been part of any valid arrangement -/
theorem C07_reject_needed_flat (p : Particle) (hf : isFlat p = true) (k : Kids) (c n : Nat) (e : Err)
    (h : add p k c n none = .error e) :
    ¬ ∃ w, p.Lang w ∧ ∀ m, count k m + (if m = n then 1 else 0) ≤ cnt w m := by
  obtain ⟨hfl, hnd⟩ := isFlat_iff.1 hf
  rintro ⟨w, hw, hc⟩
  have hok := (Particle.flat_iff p hfl hnd w).1 hw
  simp only [add, hf, if_true, fwdOk, Bool.not_true, Bool.false_eq_true, if_false] at h
  split at h
  · -- not a leaf name: no word contains it
    rename_i hnone
    have hn := hc n
    simp only [if_true] at hn
    have hpos : 0 < cnt w n := by omega
    have hmem : n ∈ w := List.count_pos_iff.1 hpos
    have hleaf := Particle.Lang_subset p w hw n hmem
    rw [← Particle.specs_names] at hleaf
    obtain ⟨s, hs, rfl⟩ := List.mem_map.1 hleaf
    rw [maxOf_of_mem hnd hs] at hnone
    cases hnone
  · rename_i ma hma
    split at h
    · cases h
    · rename_i hle
      obtain ⟨s, hs, rfl, rfl⟩ := maxOf_some_mem hma
      have := Particle.ok_le_max _ p hfl hok.1 s hs
      have hn := hc s.1
      simp only [if_true] at hn
      exact hle (leMax_mono hn this)

/-- RootChoice: likewise -/
theorem C07_reject_needed_rootChoice (mi : Nat) (ma : Option Nat) (ps : List Particle)
    (hu : ps.all isUnitLeaf = true) (hma : ma = none ∨ ma = some 1) (k : Kids) (c n : Nat) (e : Err)
    (h : add (.choice mi ma ps) k c n none = .error e) :
    ¬ ∃ w, (Particle.choice mi ma ps).Lang w ∧ n ∈ w ∧ k.length + 1 ≤ w.length := by
  rintro ⟨w, hw, hn, hlen⟩
  obtain ⟨hsub, _, hhi⟩ := (lang_rootChoice hu w).1 hw
  simp only [add, flat_not_choice, Bool.false_eq_true, if_false, Particle.leaves, fwdOk, Option.isSome_none,
    Bool.false_and, Bool.not_true] at h
  split at h
  · rename_i hnot
    simp at hnot
    exact hnot (hsub n hn)
  · rcases hma with rfl | rfl
    · simp at h
    · simp only [leMax, decide_eq_true_eq] at hhi
      cases k with
      | nil => simp at h
      | cons a r => simp at hlen; omega

/-- RootChoice: every reachable state completes (at most one more child) -/
theorem C07_complete_rootChoice (mi : Nat) (ma : Option Nat) (ps : List Particle) (n : Nat) (rest : List Particle)
    (hps : ps = .elem n 1 (some 1) :: rest) (k : Kids) :
    required (.choice mi ma ps) k = [] ∨
    ∃ k', add (.choice mi ma ps) k 0 n none = .ok k' ∧ required (.choice mi ma ps) k' = [] := by
  subst hps
  by_cases hk : k = []
  · subst hk
    right
    cases ma <;> simp [add, flat_not_choice, Particle.leaves, Particle.leavesL, fwdOk, required]
  · left
    cases k with
    | nil => exact absurd rfl hk
    | cons a r => simp [required, flat_not_choice]

end C07

#print axioms C07.C07_reject_needed_flat
#print axioms C07.C07_reject_needed_rootChoice
#print axioms C07.C07_complete_rootChoice
