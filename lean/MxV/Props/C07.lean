import MxV.Model.MsimpleTheory
import MxV.Gen.Templates
/-! # C07 — add_child never accepts a child that makes the element impossible to complete
Model side, `Tame` templates:
* `C07_reject_needed`: a child is rejected only when no word of the content model contains it
  together with the children already present (so nothing completable is ever refused — this is
  also the second half of C12);
* `C07_complete_rootChoice` / `C07_complete_flat`: every reachable state can be extended by further
  adds to one that passes the final check (explicit completion `Msimple.need`: the under-filled
  required leaves of every scope that is required or already non-empty); the side condition
  `minOccurs ≤ maxOccurs` for every leaf is decided on the regenerated templates
  (`templates_min_le_max`).
Partial: `Wild` types (no theorem; bounded completion search in the correspondence run only). -/
namespace C07
open Msimple

/-- Flat: whatever is rejected could not have been part of any valid arrangement -/
theorem C07_reject_needed_flat (p : Particle) (hf : isFlat p = true) (k : Kids) (c n : Nat) (e : Err)
    (h : add p k c n none = .error e) :
    ¬ ∃ w, p.Lang w ∧ ∀ m, count k m + (if m = n then 1 else 0) ≤ cnt w m := by
  obtain ⟨hfl, hnd⟩ := isFlat_iff.1 hf
  rintro ⟨w, hw, hc⟩
  have hok := (Particle.flat_iff p hfl hnd w).1 hw
  simp only [add, hf, if_true, fwdOk, Bool.not_true, Bool.false_eq_true, if_false] at h
  split at h
  · -- not a leaf name: no word contains it
    rename_i hnone
    have hn := hc n
    simp only [if_true] at hn
    have hpos : 0 < cnt w n := by omega
    have hmem : n ∈ w := List.count_pos_iff.1 hpos
    have hleaf := Particle.Lang_subset p w hw n hmem
    rw [← Particle.specs_names] at hleaf
    obtain ⟨s, hs, rfl⟩ := List.mem_map.1 hleaf
    rw [maxOf_of_mem hnd hs] at hnone
    cases hnone
  · rename_i ma hma
    split at h
    · cases h
    · rename_i hle
      obtain ⟨s, hs, rfl, rfl⟩ := maxOf_some_mem hma
      have := Particle.ok_le_max _ p hfl hok.1 s hs
      have hn := hc s.1
      simp only [if_true] at hn
      exact hle (leMax_mono hn this)

/-- RootChoice: likewise -/
theorem C07_reject_needed_rootChoice (mi : Nat) (ma : Option Nat) (ps : List Particle)
    (hu : ps.all isUnitLeaf = true) (hma : ma = none ∨ ma = some 1) (k : Kids) (c n : Nat) (e : Err)
    (h : add (.choice mi ma ps) k c n none = .error e) :
    ¬ ∃ w, (Particle.choice mi ma ps).Lang w ∧ n ∈ w ∧ k.length + 1 ≤ w.length := by
  rintro ⟨w, hw, hn, hlen⟩
  obtain ⟨hsub, _, hhi⟩ := (lang_rootChoice hu w).1 hw
  simp only [add, flat_not_choice, Bool.false_eq_true, if_false, Particle.leaves, fwdOk, Option.isSome_none,
    Bool.false_and, Bool.not_true] at h
  split at h
  · rename_i hnot
    simp at hnot
    exact hnot (hsub n hn)
  · rcases hma with rfl | rfl
    · simp at h
    · simp only [leMax, decide_eq_true_eq] at hhi
      cases k with
      | nil => simp at h
      | cons a r => simp at hlen; omega

/-- RootChoice: every reachable state completes (at most one more child) -/
theorem C07_complete_rootChoice (mi : Nat) (ma : Option Nat) (ps : List Particle) (n : Nat) (rest : List Particle)
    (hps : ps = .elem n 1 (some 1) :: rest) (k : Kids) :
    required (.choice mi ma ps) k = [] ∨
    ∃ k', add (.choice mi ma ps) k 0 n none = .ok k' ∧ required (.choice mi ma ps) k' = [] := by
  subst hps
  by_cases hk : k = []
  · subst hk
    right
    cases ma <;> simp [add, flat_not_choice, Particle.leaves, Particle.leavesL, fwdOk, required]
  · left
    cases k with
    | nil => exact absurd rfl hk
    | cons a r => simp [required, flat_not_choice]

/-- every leaf's minOccurs does not exceed its maxOccurs -/
def wfSpecs (p : Particle) : Bool := p.specs.all fun s => leMax s.2.1 s.2.2

theorem templates_min_le_max : (Gen.implTemplates.all fun kp => wfSpecs kp.2) = true := by decide +kernel

/-- Flat: every reachable state completes — adding `need` (all accepted) gives a state that passes
    the final check -/
theorem C07_complete_flat (p : Particle) (hf : isFlat p = true) (hwf : wfSpecs p = true) (k : Kids)
    (hi : Inv p k) (i : Nat) :
    runE p k (addOps i (need (cnt (names k)) p)) = .ok (k ++ zipIds i (need (cnt (names k)) p)) ∧
    required p (k ++ zipIds i (need (cnt (names k)) p)) = [] := by
  obtain ⟨hfl, hnd⟩ := isFlat_iff.1 hf
  refine ⟨?_, ?_⟩
  · apply runE_adds_flat p hf k i _ (need_subset _ p)
    intro s hs
    have hle := need_count_le (cnt (names k)) p hnd s hs
    have hmax := hi.2.1 hf s hs
    have hmm : leMax s.2.1 s.2.2 = true := by
      simp only [wfSpecs, List.all_eq_true] at hwf; exact hwf s hs
    cases hma : s.2.2 with
    | none => simp [leMax]
    | some m =>
      simp only [hma, leMax, decide_eq_true_eq] at hmax hmm ⊢
      have : count k s.1 = cnt (names k) s.1 := rfl
      omega
  · simp only [required, hf, if_true]
    apply missing_after_need (cnt (names k)) _ p hfl hnd
    intro n _
    simp [cnt, names_append, names_zipIds, List.count_append]

example : let p : Particle := .seq 1 (some 1) [.elem 0 1 (some 1), .seq 0 (some 1) [.elem 1 1 (some 1), .elem 2 2 (some 3)]]
    need (cnt [1]) p = [0, 2, 2] ∧ isFlat p = true ∧ wfSpecs p = true := by decide
end C07

#print axioms C07.C07_reject_needed_flat
#print axioms C07.C07_reject_needed_rootChoice
#print axioms C07.C07_complete_rootChoice
#print axioms C07.templates_min_le_max
#print axioms C07.C07_complete_flat
