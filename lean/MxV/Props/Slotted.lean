import MxV.Model.MslotTheory
import MxV.Props.C03
/-! # The matcher theorems on the wider `Slotted` class (78 of the 94 content models)
`Slotted ⊇ Tame`: sequences / groups whose positions are element leaves or choice slots of unit
leaves (adds measure, notations, listening, name-display, notehead-text, play, bend, harmonic,
instrument-change, score-instrument). The model is `Mslot` (Model/Mslot.lean), tied to the code by
the same correspondence run (and cross-checked against `Msimple` on the Tame templates).
The statements mirror C01 / C02 / C11 / C12 / C19 / C10; each property's file re-exports them. -/
namespace Slotted
open Msimple Mslot

/-- C01: a reachable state that passes the final check serialises a word of the content model -/
theorem C01_slotted (p : Particle) (hs : isSlotted p = true) (k : Kids) (hi : InvS p k)
    (hv : Mslot.required p k = []) : p.Lang (names (Mslot.ordered p k)) := by
  have hs' := hs
  simp only [isSlotted, Bool.and_eq_true] at hs'
  rw [names_ordered]
  exact lang_renderS _ p hs'.1 ((okS_iff_missing _ p hs'.1 hi.2).2 hv)

theorem C01_slotted_reachable (p : Particle) (hs : isSlotted p = true) (ops : List Op)
    (hv : Mslot.required p (runS p ops) = []) : p.Lang (names (Mslot.ordered p (runS p ops))) :=
  C01_slotted p hs _ (invS_run p hs ops) hv

theorem C01_slotted_schema (key : Nat) (p q : Particle)
    (hp : C03.lookup key Gen.implTemplates = some p) (hq : C03.lookup key Gen.specTemplates = some q)
    (hs : isSlotted p = true) (ops : List Op) (hv : Mslot.required p (runS p ops) = []) :
    q.accepts (names (Mslot.ordered p (runS p ops))) = true :=
  (Particle.accepts_iff _ _).2 ((C03.templates_lang_eq key p q hp hq _).1 (C01_slotted_reachable p hs ops hv))

/-- C02: every word of the content model, supplied in order, is accepted, passes the final check and
    is serialised exactly as supplied -/
theorem C02_slotted (p : Particle) (hs : isSlotted p = true) (w : List Nat) (hw : p.Lang w) :
    runES p [] (addOps 1 w) = .ok (zipIds 1 w) ∧ Mslot.required p (zipIds 1 w) = [] ∧
    names (Mslot.ordered p (zipIds 1 w)) = w := by
  have hs' := hs
  simp only [isSlotted, Bool.and_eq_true] at hs'
  have hnd := nodupNat_iff.1 hs'.2
  have h := (slotted_iff p hs'.1 hnd w).1 hw
  have hm := maxOK_of_okS w p h.1
  refine ⟨?_, ?_, ?_⟩
  · rw [addOps_eq]
    have := runES_addsK p hs [] (zipIds 1 w)
      (by intro c hc
          have : c.2 ∈ names (zipIds 1 w) := List.mem_map_of_mem (f := (·.2)) hc
          rw [names_zipIds] at this
          exact Particle.Lang_subset p w hw _ this)
      (by simpa [names_zipIds] using hm)
    simpa using this
  · simp only [Mslot.required, names_zipIds]
    exact (okS_iff_missing w p hs'.1 hm).1 h.1
  · rw [names_ordered, names_zipIds]; exact h.2.symm

/-- C12: every permutation of a valid multiset is accepted, passes the final check and is
    serialised as a word of the content model (on Flat parts: the unique arrangement) -/
theorem C12_slotted (p : Particle) (hs : isSlotted p = true) (w w' : List Nat) (hw : p.Lang w) (hp : w'.Perm w) :
    runES p [] (addOps 1 w') = .ok (zipIds 1 w') ∧ Mslot.required p (zipIds 1 w') = [] ∧
    p.Lang (names (Mslot.ordered p (zipIds 1 w'))) := by
  have hs' := hs
  simp only [isSlotted, Bool.and_eq_true] at hs'
  have hnd := nodupNat_iff.1 hs'.2
  have h := (slotted_iff p hs'.1 hnd w).1 hw
  have hok' : okS w' p = true := by rw [okS_perm w w' hp p]; exact h.1
  have hm' := maxOK_of_okS w' p hok'
  refine ⟨?_, ?_, ?_⟩
  · rw [addOps_eq]
    have := runES_addsK p hs [] (zipIds 1 w')
      (by intro c hc
          have : c.2 ∈ names (zipIds 1 w') := List.mem_map_of_mem (f := (·.2)) hc
          rw [names_zipIds] at this
          exact Particle.Lang_subset p w hw _ (hp.mem_iff.1 this))
      (by simpa [names_zipIds] using hm')
    simpa using this
  · simp only [Mslot.required, names_zipIds]
    exact (okS_iff_missing w' p hs'.1 hm').1 hok'
  · rw [names_ordered, names_zipIds]; exact lang_renderS w' p hs'.1 hok'

/-- C11: every reachable state is rebuilt by adding its surviving children to a fresh element -/
theorem C11_slotted (p : Particle) (hs : isSlotted p = true) (ops : List Op) :
    runES p [] (addOpsK (runS p ops)) = .ok (runS p ops) := by
  have hi := invS_run p hs ops
  have := runES_addsK p hs [] (runS p ops) hi.1 (by simpa using hi.2)
  simpa using this

/-- C10: a raising call leaves the state as it was -/
theorem C10_slotted (p : Particle) (k : Kids) (op : Op) (e : Err) (h : stepS p k op = .error e) :
    applyS p k op = k := by simp [applyS, h]

/-- C19: without an explicit forward index every rejection is a documented kind -/
theorem C19_slotted (p : Particle) (k : Kids) (c n : Nat) (e : Err) (h : Mslot.add p k c n none = .error e) :
    e = .wrongElement ∨ e = .maxOccurs ∨ e = .anotherChosen := by
  simp only [Mslot.add, fwdCheck, addPlain] at h
  split at h <;> cases h <;> simp

/-! non-vacuity: the `measure`-shaped and `bend`-shaped templates are Slotted and not Tame -/
def measureT : Particle := .group 9 1 (some 1) (.seq 1 (some 1) [.choice 0 none [.elem 0 1 (some 1), .elem 1 1 (some 1)]])
def bendT : Particle := .seq 1 (some 1) [.elem 0 1 (some 1), .choice 0 (some 1) [.elem 1 1 (some 1), .elem 2 1 (some 1)], .elem 3 0 (some 1)]
example : isSlotted measureT = true ∧ isSlotted bendT = true ∧ isTame measureT = false ∧ isTame bendT = false := by decide
example : Mslot.required bendT (runS bendT [.add 1 3 none, .add 2 2 none, .add 3 1 none, .add 4 0 none]) = [] ∧
    names (Mslot.ordered bendT (runS bendT [.add 1 3 none, .add 2 2 none, .add 3 1 none, .add 4 0 none])) = [0, 2, 3] := by
  decide
/-- the slotted class really is what the 78 templates satisfy (re-decided on the regenerated table) -/
theorem slotted_count : (Gen.implTemplates.filter fun kp => isSlotted kp.2).length ≥ 78 := by decide +kernel
theorem tame_subset_slotted : (Gen.implTemplates.all fun kp => !isTame kp.2 || isSlotted kp.2) = true := by decide +kernel
end Slotted

#print axioms Slotted.C01_slotted
#print axioms Slotted.C01_slotted_schema
#print axioms Slotted.C02_slotted
#print axioms Slotted.C12_slotted
#print axioms Slotted.C11_slotted
#print axioms Slotted.C10_slotted
#print axioms Slotted.C19_slotted
#print axioms Slotted.slotted_count
#print axioms Slotted.tame_subset_slotted
