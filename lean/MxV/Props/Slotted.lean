import MxV.Model.MslotTheory
import MxV.Props.C03
/-! # The matcher theorems on the wider `Slotted` class (78 of the 94 content models)
`Slotted ⊇ Tame`: sequences / groups whose positions are element leaves or choice slots of unit
leaves (adds measure, notations, listening, name-display, notehead-text, play, bend, harmonic,
instrument-change, score-instrument). The model is `Mslot` (Model/Mslot.lean), tied to the code by
the same correspondence run (and cross-checked against `Msimple` on the Tame templates).
The statements mirror C01 / C02 / C11 / C12 / C19 / C10; each property's file re-exports them. -/
namespace Slotted
open Msimple Mslot

/-- C01: a reachable state that passes the final check serialises a word of the content model -/
theorem C01_slotted (p : Particle) (hs : isSlotted p = true) (k : Kids) (hi : InvS p k)
    (hv : Mslot.required p k = []) : p.Lang (names (Mslot.ordered p k)) := by
  have hs' := hs
  simp only [isSlotted, Bool.and_eq_true] at hs'
  rw [names_ordered]
  exact lang_renderS _ p hs'.1 ((okS_iff_missing _ p hs'.1 hi.2).2 hv)

theorem C01_slotted_reachable (p : Particle) (hs : isSlotted p = true) (ops : List Op)
    (hv : Mslot.required p (runS p ops) = []) : p.Lang (names (Mslot.ordered p (runS p ops))) :=
  C01_slotted p hs _ (invS_run p hs ops) hv

theorem C01_slotted_schema (key : Nat) (p q : Particle)
    (hp : C03.lookup key Gen.implTemplates = some p) (hq : C03.lookup key Gen.specTemplates = some q)
    (hs : isSlotted p = true) (ops : List Op) (hv : Mslot.required p (runS p ops) = []) :
    q.accepts (names (Mslot.ordered p (runS p ops))) = true :=
  (Particle.accepts_iff _ _).2 ((C03.templates_lang_eq key p q hp hq _).1 (C01_slotted_reachable p hs ops hv))

/-- C02: every word of the content model, supplied in order, is accepted, passes the final check and
    is serialised exactly as supplied -/
theorem C02_slotted (p : Particle) (hs : isSlotted p = true) (w : List Nat) (hw : p.Lang w) :
    runES p [] (addOps 1 w) = .ok (zipIds 1 w) ∧ Mslot.required p (zipIds 1 w) = [] ∧
    names (Mslot.ordered p (zipIds 1 w)) = w := by
  have hs' := hs
  simp only [isSlotted, Bool.and_eq_true] at hs'
  have hnd := nodupNat_iff.1 hs'.2
  have h := (slotted_iff p hs'.1 hnd w).1 hw
  have hm := maxOK_of_okS w p h.1
  refine ⟨?_, ?_, ?_⟩
  · rw [addOps_eq]
    have := runES_addsK p hs [] (zipIds 1 w)
      (by intro c hc
          have : c.2 ∈ names (zipIds 1 w) := List.mem_map_of_mem (f := (·.2)) hc
          rw [names_zipIds] at this
          exact Particle.Lang_subset p w hw _ this)
      (by simpa [names_zipIds] using hm)
    simpa using this
  · simp only [Mslot.required, names_zipIds]
    exact (okS_iff_missing w p hs'.1 hm).1 h.1
  · rw [names_ordered, names_zipIds]; exact h.2.symm

/-- C12: every permutation of a valid multiset is accepted, passes the final check and is
    serialised as a word of the content model (on Flat parts: the unique arrangement) -/
theorem C12_slotted (p : Particle) (hs : isSlotted p = true) (w w' : List Nat) (hw : p.Lang w) (hp : w'.Perm w) :
    runES p [] (addOps 1 w') = .ok (zipIds 1 w') ∧ Mslot.required p (zipIds 1 w') = [] ∧
    p.Lang (names (Mslot.ordered p (zipIds 1 w'))) := by
  have hs' := hs
  simp only [isSlotted, Bool.and_eq_true] at hs'
  have hnd := nodupNat_iff.1 hs'.2
  have h := (slotted_iff p hs'.1 hnd w).1 hw
  have hok' : okS w' p = true := by rw [okS_perm w w' hp p]; exact h.1
  have hm' := maxOK_of_okS w' p hok'
  refine ⟨?_, ?_, ?_⟩
  · rw [addOps_eq]
    have := runES_addsK p hs [] (zipIds 1 w')
      (by intro c hc
          have : c.2 ∈ names (zipIds 1 w') := List.mem_map_of_mem (f := (·.2)) hc
          rw [names_zipIds] at this
          exact Particle.Lang_subset p w hw _ (hp.mem_iff.1 this))
      (by simpa [names_zipIds] using hm')
    simpa using this
  · simp only [Mslot.required, names_zipIds]
    exact (okS_iff_missing w' p hs'.1 hm').1 hok'
  · rw [names_ordered, names_zipIds]; exact lang_renderS w' p hs'.1 hok'

/-- C11: every reachable state is rebuilt by adding its surviving children to a fresh element -/
theorem C11_slotted (p : Particle) (hs : isSlotted p = true) (ops : List Op) :
    runES p [] (addOpsK (runS p ops)) = .ok (runS p ops) := by
  have hi := invS_run p hs ops
  have := runES_addsK p hs [] (runS p ops) hi.1 (by simpa using hi.2)
  simpa using this

/-- C10: a raising call leaves the state as it was -/
theorem C10_slotted (p : Particle) (k : Kids) (op : Op) (e : Err) (h : stepS p k op = .error e) :
    applyS p k op = k := by simp [applyS, h]

/-- C19: without an explicit forward index every rejection is a documented kind -/
theorem C19_slotted (p : Particle) (k : Kids) (c n : Nat) (e : Err) (h : Mslot.add p k c n none = .error e) :
    e = .wrongElement ∨ e = .maxOccurs ∨ e = .anotherChosen := by
  simp only [Mslot.add, fwdCheck, addPlain] at h
  split at h <;> cases h <;> simp

/-! non-vacuity: the `measure`-shaped and `bend`-shaped templates are Slotted and not Tame -/
def measureT : Particle := .group 9 1 (some 1) (.seq 1 (some 1) [.choice 0 none [.elem 0 1 (some 1), .elem 1 1 (some 1)]])
def bendT : Particle := .seq 1 (some 1) [.elem 0 1 (some 1), .choice 0 (some 1) [.elem 1 1 (some 1), .elem 2 1 (some 1)], .elem 3 0 (some 1)]
example : isSlotted measureT = true ∧ isSlotted bendT = true ∧ isTame measureT = false ∧ isTame bendT = false := by decide
example : Mslot.required bendT (runS bendT [.add 1 3 none, .add 2 2 none, .add 3 1 none, .add 4 0 none]) = [] ∧
    names (Mslot.ordered bendT (runS bendT [.add 1 3 none, .add 2 2 none, .add 3 1 none, .add 4 0 none])) = [0, 2, 3] := by
  decide
/-- the slotted class really is what the 78 templates satisfy (re-decided on the regenerated table) -/
theorem slotted_count : (Gen.implTemplates.filter fun kp => isSlotted kp.2).length ≥ 78 := by decide +kernel
theorem tame_subset_slotted : (Gen.implTemplates.all fun kp => !isTame kp.2 || isSlotted kp.2) = true := by decide +kernel
end Slotted

#print axioms Slotted.C01_slotted
#print axioms Slotted.C01_slotted_schema
#print axioms Slotted.C02_slotted
#print axioms Slotted.C12_slotted
#print axioms Slotted.C11_slotted
#print axioms Slotted.C10_slotted
#print axioms Slotted.C19_slotted
#print axioms Slotted.slotted_count
#print axioms Slotted.tame_subset_slotted

/-! ## C06 on Slotted templates: the two child views hold the same children, each once -/
namespace Slotted
open Msimple Mslot

mutual
theorem blocks_names : (p : Particle) → (blocks p).flatMap (·.names) = p.leaves
  | .elem n _ _ => by simp [blocks, Particle.leaves]
  | .seq _ _ ps => by simpa [blocks, Particle.leaves] using blocksL_names ps
  | .choice _ _ ps => by simp [blocks, Particle.leaves]
  | .group _ _ _ p => by simpa [blocks, Particle.leaves] using blocks_names p
theorem blocksL_names : (ps : List Particle) → (blocksL ps).flatMap (·.names) = Particle.leavesL ps
  | [] => by simp [blocksL, Particle.leavesL]
  | p :: ps => by simp [blocksL, Particle.leavesL, blocks_names p, blocksL_names ps]
end

theorem blocks_perm (bs : List Block) (hnd : (bs.flatMap (·.names)).Nodup) (k : Kids)
    (hsub : ∀ c ∈ k, c.2 ∈ bs.flatMap (·.names)) : (bs.flatMap fun b => inBlock b k).Perm k := by
  induction bs generalizing k with
  | nil =>
    have : k = [] := by
      cases k with
      | nil => rfl
      | cons c r => exact absurd (hsub c (by simp)) (by simp)
    subst this; simp
  | cons b bs ih =>
    simp only [List.flatMap_cons, List.nodup_append] at hnd
    obtain ⟨_, hn2, hdisj⟩ := hnd
    simp only [List.flatMap_cons]
    let k' := k.filter fun c => !(b.names.contains c.2)
    have hk' : ∀ c ∈ k', c.2 ∈ bs.flatMap (·.names) := by
      intro c hc
      have hc' := List.mem_filter.1 hc
      have := hsub c hc'.1
      simp only [List.flatMap_cons, List.mem_append] at this
      rcases this with h | h
      · simp [h] at hc'
      · exact h
    have hcongr : ∀ (bs' : List Block), (∀ b' ∈ bs', ∀ x ∈ b'.names, x ∉ b.names) →
        (bs'.flatMap fun b' => inBlock b' k) = (bs'.flatMap fun b' => inBlock b' k') := by
      intro bs' hb
      induction bs' with
      | nil => rfl
      | cons b' r ih' =>
        simp only [List.flatMap_cons]
        rw [ih' (fun x hx => hb x (by simp [hx]))]
        congr 1
        simp only [inBlock, k', List.filter_filter]
        apply List.filter_congr
        intro c _
        by_cases h : b'.names.contains c.2 = true
        · have hmem : c.2 ∈ b'.names := by simpa using h
          have : c.2 ∉ b.names := hb b' (by simp) c.2 hmem
          simp [h, this]
        · have hnm : c.2 ∉ b'.names := by simpa using h
          simp [hnm]
    have hdis : ∀ b' ∈ bs, ∀ x ∈ b'.names, x ∉ b.names := by
      intro b' hb' x hx hxb
      exact hdisj x hxb x (List.mem_flatMap.2 ⟨b', hb', hx⟩) rfl
    rw [hcongr bs hdis]
    have h1 := ih hn2 k' hk'
    have h2 : (inBlock b k ++ k').Perm k := List.filter_append_perm _ k
    exact (List.Perm.append_left _ h1).trans h2

/-- the schema-ordered view is a permutation of the insertion-ordered view -/
theorem ordered_perm_slotted (p : Particle) (hs : isSlotted p = true) (k : Kids) (hi : InvS p k) :
    (Mslot.ordered p k).Perm k := by
  simp only [isSlotted, Bool.and_eq_true] at hs
  have hnd := nodupNat_iff.1 hs.2
  exact blocks_perm (blocks p) (by rw [blocks_names]; exact hnd) k (by rw [blocks_names]; exact hi.1)

/-- fresh child ids: no child occurs twice (the same bookkeeping lemma as for Msimple) -/
def fresh : List Nat → List Op → Prop
  | _, [] => True
  | seen, .add c _ _ :: r => c ∉ seen ∧ fresh (c :: seen) r
  | seen, .rm _ :: r => fresh seen r
  | seen, .repl _ nw _ :: r => nw ∉ seen ∧ fresh (nw :: seen) r

theorem ids_replFirst_sub (old : Nat) (nw : Nat × Nat) (k : Kids) :
    ∀ x ∈ ids (replFirst old nw k), x = nw.1 ∨ x ∈ ids k := by
  induction k with
  | nil => simp [replFirst, ids]
  | cons c r ih =>
    intro x hx
    simp only [replFirst] at hx
    split at hx
    · simp only [ids, List.map_cons, List.mem_cons] at hx ⊢
      rcases hx with h | h
      · exact .inl h
      · exact .inr (.inr h)
    · simp only [ids, List.map_cons, List.mem_cons] at hx ih ⊢
      rcases hx with h | h
      · exact .inr (.inl h)
      · rcases ih x h with h' | h'
        · exact .inl h'
        · exact .inr (.inr h')

theorem nodup_replFirst (old : Nat) (nw : Nat × Nat) (k : Kids) (hnd : (ids k).Nodup) (hnew : nw.1 ∉ ids k) :
    (ids (replFirst old nw k)).Nodup := by
  induction k with
  | nil => simp [replFirst, ids]
  | cons c r ih =>
    simp only [ids, List.map_cons, List.nodup_cons, List.mem_cons, not_or] at hnd hnew
    simp only [replFirst]
    split
    · simp only [ids, List.map_cons, List.nodup_cons]
      exact ⟨hnew.2, hnd.2⟩
    · simp only [ids, List.map_cons, List.nodup_cons]
      refine ⟨?_, ih hnd.2 hnew.2⟩
      intro hmem
      rcases ids_replFirst_sub old nw r c.1 hmem with h | h
      · exact hnew.1 h.symm
      · exact hnd.1 h

theorem nodup_stepS {p : Particle} {k : Kids} {seen : List Nat} (hsub : ∀ x ∈ ids k, x ∈ seen)
    (hnd : (ids k).Nodup) (op : Op) (r : List Op) (hf : fresh seen (op :: r)) :
    ∃ seen', (∀ x ∈ ids (applyS p k op), x ∈ seen') ∧ (ids (applyS p k op)).Nodup ∧ fresh seen' r := by
  unfold applyS
  cases op with
  | add c n f =>
    simp only [fresh] at hf
    split
    · rename_i k' h
      simp only [stepS] at h
      obtain ⟨_, rfl⟩ := add_ok_iff h
      refine ⟨c :: seen, ?_, ?_, hf.2⟩
      · intro x hx; simp [ids] at hx; rcases hx with ⟨b, hb⟩ | rfl
        · exact List.mem_cons_of_mem _ (hsub x (by simp [ids]; exact ⟨b, hb⟩))
        · simp
      · simp only [ids, List.map_append, List.map_cons, List.map_nil]
        refine List.nodup_append.2 ⟨hnd, by simp, ?_⟩
        intro a ha b hb
        simp at hb; subst hb
        intro heq; subst heq; exact hf.1 (hsub a ha)
    · exact ⟨c :: seen, fun x hx => List.mem_cons_of_mem _ (hsub x hx), hnd, hf.2⟩
  | rm c =>
    simp only [fresh] at hf
    split
    · rename_i k' h
      simp only [stepS, remove] at h
      split at h
      · cases h
        refine ⟨seen, ?_, ?_, hf⟩
        · intro x hx
          simp only [ids, List.mem_map] at hx
          obtain ⟨y, hy, rfl⟩ := hx
          exact hsub _ (by simp only [ids, List.mem_map]; exact ⟨y, (List.mem_filter.1 hy).1, rfl⟩)
        · exact (List.filter_sublist.map _).nodup hnd
      · cases h
    · exact ⟨seen, hsub, hnd, hf⟩
  | repl o nw n =>
    simp only [fresh] at hf
    split
    · rename_i k' h
      simp only [stepS, replace] at h
      split at h
      · cases h
      · split at h
        · cases h
          refine ⟨nw :: seen, ?_, ?_, hf.2⟩
          · intro x hx
            rcases ids_replFirst_sub o (nw, n) k x hx with h | h
            · simp [h]
            · exact List.mem_cons_of_mem _ (hsub x h)
          · exact nodup_replFirst o (nw, n) k hnd (fun h => hf.1 (hsub _ h))
        · cases h
    · exact ⟨nw :: seen, fun x hx => List.mem_cons_of_mem _ (hsub x hx), hnd, hf.2⟩

theorem ids_nodup_runS (p : Particle) (ops : List Op) (hf : fresh [] ops) : (ids (runS p ops)).Nodup := by
  have : ∀ (ops : List Op) (k : Kids) (seen : List Nat), (∀ x ∈ ids k, x ∈ seen) → (ids k).Nodup →
      fresh seen ops → (ids (ops.foldl (applyS p) k)).Nodup := by
    intro ops
    induction ops with
    | nil => intro k _ _ h _; exact h
    | cons op r ih =>
      intro k seen hs hn hfr
      obtain ⟨seen', h1, h2, h3⟩ := nodup_stepS (p := p) hs hn op r hfr
      exact ih (applyS p k op) seen' h1 h2 h3
  exact this ops [] [] (by simp [ids]) (by simp [ids]) hf

/-- C06 on the 78 Slotted content models -/
theorem C06_slotted (p : Particle) (hs : isSlotted p = true) (ops : List Op) (hf : fresh [] ops) :
    (Mslot.ordered p (runS p ops)).Perm (runS p ops) ∧ (ids (runS p ops)).Nodup ∧
    (ids (Mslot.ordered p (runS p ops))).Nodup := by
  have hp := ordered_perm_slotted p hs (runS p ops) (invS_run p hs ops)
  have hn := ids_nodup_runS p ops hf
  exact ⟨hp, hn, (hp.map _).nodup_iff.2 hn⟩
end Slotted

#print axioms Slotted.C06_slotted

/-! ## C07 on Slotted templates: explicit completion, and rejections are necessary -/
namespace Slotted
open Msimple Mslot

mutual
/-- the children still to add: the under-filled element leaves and one child for every empty
    required slot, of every scope that is required or non-empty -/
def needS (c : Nat → Nat) : Particle → List Nat
  | .elem n mi _ => List.replicate (mi - c n) n
  | .seq mi _ ps => if mi == 0 && Particle.empL c ps then [] else needSL c ps
  | .choice mi _ ps => if decide (mi ≥ 1) && Particle.empL c ps then (Particle.leavesL ps).take 1 else []
  | .group _ mi _ p => if mi == 0 && p.emp c then [] else needS c p
def needSL (c : Nat → Nat) : List Particle → List Nat
  | [] => []
  | p :: ps => needS c p ++ needSL c ps
end

mutual
theorem needS_subset (c : Nat → Nat) : (p : Particle) → ∀ x ∈ needS c p, x ∈ p.leaves
  | .elem n mi ma => by
    intro x hx; simp only [needS] at hx
    simp [Particle.leaves, (List.mem_replicate.1 hx).2]
  | .seq mi ma ps => by
    intro x hx; simp only [needS] at hx
    split at hx
    · cases hx
    · simpa [Particle.leaves] using needSL_subset c ps x hx
  | .choice _ _ ps => by
    intro x hx; simp only [needS] at hx
    split at hx
    · simpa [Particle.leaves] using List.mem_of_mem_take hx
    · cases hx
  | .group _ mi ma p => by
    intro x hx; simp only [needS] at hx
    split at hx
    · cases hx
    · simpa [Particle.leaves] using needS_subset c p x hx
theorem needSL_subset (c : Nat → Nat) : (ps : List Particle) → ∀ x ∈ needSL c ps, x ∈ Particle.leavesL ps
  | [] => by intro x hx; simp [needSL] at hx
  | p :: ps => by
    intro x hx
    simp only [needSL, List.mem_append] at hx
    simp only [Particle.leavesL, List.mem_append]
    rcases hx with h | h
    · exact .inl (needS_subset c p x h)
    · exact .inr (needSL_subset c ps x h)
end

-- what the completion looks like through the eyes of a sub-particle: a word `e` whose restriction
-- to the particle's leaves is the particle's own need
mutual
theorem complete_ok (w e : List Nat) : (p : Particle) → slotted p = true → p.leaves.Nodup →
    (p.specs.all fun s => leMax s.2.1 s.2.2) = true → maxOK w p = true →
    restr p.leaves e = needS (cnt w) p →
    maxOK (w ++ e) p = true ∧ Mslot.missing (cnt (w ++ e)) p = []
  | .elem n mi ma, _, _, hwf, hm, he => by
    simp only [Particle.leaves] at he
    simp only [needS] at he
    have hc : cnt (w ++ e) n = cnt w n + (mi - cnt w n) := by
      have : cnt e n = mi - cnt w n := by
        rw [← cnt_restr (S := [n]) (by simp), he]; simp [cnt]
      simp [cnt, List.count_append] at this ⊢; omega
    simp only [Particle.specs, List.all_cons, List.all_nil, Bool.and_true] at hwf
    simp only [maxOK] at hm
    refine ⟨?_, ?_⟩
    · simp only [maxOK, hc]
      cases ma with
      | none => rfl
      | some m => simp only [leMax, decide_eq_true_eq] at hm hwf ⊢; omega
    · simp only [Mslot.missing, hc]
      split
      · rename_i hlt; omega
      · rfl
  | .seq mi ma ps, hs, hnd, hwf, hm, he => by
    simp only [slotted, Bool.and_eq_true] at hs
    simp only [Particle.leaves] at hnd he
    simp only [Particle.specs] at hwf
    simp only [maxOK] at hm ⊢
    simp only [Mslot.missing]
    by_cases hc : (mi == 0 && Particle.empL (cnt w) ps) = true
    · -- optional and empty: nothing is added under it, it stays empty
      simp only [needS, hc, if_true] at he
      have hwe : restr (Particle.leavesL ps) (w ++ e) = restr (Particle.leavesL ps) w := by
        rw [restr_append, he, List.append_nil]
      have hemp : Particle.empL (cnt (w ++ e)) ps = Particle.empL (cnt w) ps :=
        Particle.empL_congr _ _ ps (fun n hn => cnt_of_restr_eq hwe hn)
      refine ⟨by rw [maxOKL_congr _ _ ps hwe]; exact hm, ?_⟩
      simp only [Bool.and_eq_true] at hc
      simp [hc.1, hemp, hc.2]
    · simp only [needS, hc, Bool.false_eq_true, if_false] at he
      have := completeL_ok w e ps hs.2 hnd hwf hm he
      refine ⟨this.1, ?_⟩
      split
      · rfl
      · exact this.2
  | .choice mi ma ps, hs, _, _, hm, he => by
    simp only [slotted] at hs
    obtain ⟨hmi, hne, hma, hu⟩ := slot_shape hs
    simp only [Particle.leaves] at he
    simp only [maxOK] at hm ⊢
    simp only [Mslot.missing]
    have hl := unit_leaves_ne_nil hne hu
    by_cases hc : (decide (mi ≥ 1) && Particle.empL (cnt w) ps) = true
    · simp only [needS, hc, if_true] at he
      have hw0 : restr (Particle.leavesL ps) w = [] := (empL_iff_restr_nil w ps).1 (by
        simp only [Bool.and_eq_true] at hc; exact hc.2)
      obtain ⟨a, r, hl'⟩ : ∃ a r, Particle.leavesL ps = a :: r := by
        cases h : Particle.leavesL ps with
        | nil => exact absurd h hl
        | cons a r => exact ⟨a, r, rfl⟩
      have hwe : restr (Particle.leavesL ps) (w ++ e) = [a] := by
        rw [restr_append, hw0, he, hl']; rfl
      refine ⟨?_, ?_⟩
      · rw [hwe]; rcases hma with rfl | rfl <;> simp [leMax]
      · have hne' : ¬ Particle.empL (cnt (w ++ e)) ps = true := by
          intro h; have := (empL_iff_restr_nil _ ps).1 h; rw [hwe] at this; cases this
        simp [hne']
    · simp only [needS, hc, Bool.false_eq_true, if_false] at he
      have hwe : restr (Particle.leavesL ps) (w ++ e) = restr (Particle.leavesL ps) w := by
        rw [restr_append, he, List.append_nil]
      refine ⟨by rw [hwe]; exact hm, ?_⟩
      have hemp : Particle.empL (cnt (w ++ e)) ps = Particle.empL (cnt w) ps :=
        Particle.empL_congr _ _ ps (fun n hn => cnt_of_restr_eq hwe hn)
      rw [hemp]
      simp only [hc, Bool.false_eq_true, if_false]
  | .group _ mi ma p, hs, hnd, hwf, hm, he => by
    simp only [slotted, Bool.and_eq_true] at hs
    simp only [Particle.leaves] at hnd he
    simp only [Particle.specs] at hwf
    simp only [maxOK] at hm ⊢
    simp only [Mslot.missing]
    by_cases hc : (mi == 0 && p.emp (cnt w)) = true
    · simp only [needS, hc, if_true] at he
      have hwe : restr p.leaves (w ++ e) = restr p.leaves w := by
        rw [restr_append, he, List.append_nil]
      have hemp : p.emp (cnt (w ++ e)) = p.emp (cnt w) :=
        Particle.emp_congr _ _ p (fun n hn => cnt_of_restr_eq hwe hn)
      refine ⟨by rw [maxOK_congr _ _ p hwe]; exact hm, ?_⟩
      simp only [Bool.and_eq_true] at hc
      simp [hc.1, hemp, hc.2]
    · simp only [needS, hc, Bool.false_eq_true, if_false] at he
      have := complete_ok w e p hs.2 hnd hwf hm he
      refine ⟨this.1, ?_⟩
      split
      · rfl
      · exact this.2
theorem completeL_ok (w e : List Nat) : (ps : List Particle) → slottedL ps = true → (Particle.leavesL ps).Nodup →
    ((Particle.specsL ps).all fun s => leMax s.2.1 s.2.2) = true → maxOKL w ps = true →
    restr (Particle.leavesL ps) e = needSL (cnt w) ps →
    maxOKL (w ++ e) ps = true ∧ Mslot.missingL (cnt (w ++ e)) ps = []
  | [], _, _, _, _, _ => ⟨rfl, rfl⟩
  | p :: ps, hs, hnd, hwf, hm, he => by
    simp only [slottedL, Bool.and_eq_true] at hs
    simp only [Particle.leavesL, List.nodup_append] at hnd
    obtain ⟨hn1, hn2, hdisj⟩ := hnd
    simp only [Particle.specsL, List.all_append, Bool.and_eq_true] at hwf
    simp only [maxOKL, Bool.and_eq_true] at hm
    simp only [Particle.leavesL, needSL] at he
    -- restricting the equation to the leaves of p / of ps splits it
    have e1 : restr p.leaves e = needS (cnt w) p := by
      have := congrArg (restr p.leaves) he
      rw [restr_restr_sub (by intro x hx; simp [hx]), restr_append,
        restr_eq_self (needS_subset _ p),
        restr_eq_nil (fun x hx hp => hdisj x hp x (needSL_subset _ ps x hx) rfl), List.append_nil] at this
      exact this
    have e2 : restr (Particle.leavesL ps) e = needSL (cnt w) ps := by
      have := congrArg (restr (Particle.leavesL ps)) he
      rw [restr_restr_sub (by intro x hx; simp [hx]), restr_append,
        restr_eq_nil (fun x hx hp => hdisj x (needS_subset _ p x hx) x hp rfl),
        restr_eq_self (needSL_subset _ ps), List.nil_append] at this
      exact this
    have h1 := complete_ok w e p hs.1 hn1 hwf.1 hm.1 e1
    have h2 := completeL_ok w e ps hs.2 hn2 hwf.2 hm.2 e2
    simp only [maxOKL, Mslot.missingL, Bool.and_eq_true, List.append_eq_nil_iff]
    exact ⟨⟨h1.1, h2.1⟩, h1.2, h2.2⟩
end

/-- C07 on Slotted templates: every reachable state completes — the explicit completion is accepted
    child by child and the result passes the final check -/
theorem C07_complete_slotted (p : Particle) (hs : isSlotted p = true)
    (hwf : (p.specs.all fun s => leMax s.2.1 s.2.2) = true) (k : Kids) (hi : InvS p k) (i : Nat) :
    runES p k (addOps i (needS (cnt (names k)) p)) = .ok (k ++ zipIds i (needS (cnt (names k)) p)) ∧
    Mslot.required p (k ++ zipIds i (needS (cnt (names k)) p)) = [] := by
  have hs' := hs
  simp only [isSlotted, Bool.and_eq_true] at hs'
  have hnd := nodupNat_iff.1 hs'.2
  have hc := complete_ok (names k) (needS (cnt (names k)) p) p hs'.1 hnd hwf hi.2
    (restr_eq_self (needS_subset _ p))
  refine ⟨?_, ?_⟩
  · rw [addOps_eq]
    apply runES_addsK p hs k
    · intro c hc'
      have : c.2 ∈ names (zipIds i (needS (cnt (names k)) p)) := List.mem_map_of_mem (f := (·.2)) hc'
      rw [names_zipIds] at this
      exact needS_subset _ p _ this
    · rw [names_append, names_zipIds]; exact hc.1
  · simp only [Mslot.required, names_append, names_zipIds]; exact hc.2

/-- a child that is refused could not be part of any valid arrangement with the present children:
    no word of the content model has at least the present children plus the refused one -/
theorem C07_reject_needed_slotted (p : Particle) (hs : isSlotted p = true) (k : Kids) (_hi : InvS p k)
    (c n : Nat) (e : Err) (h : Mslot.add p k c n none = .error e) :
    ¬ ∃ w, p.Lang w ∧ (names k ++ [n]).Sublist w := by
  have hs' := hs
  simp only [isSlotted, Bool.and_eq_true] at hs'
  have hnd := nodupNat_iff.1 hs'.2
  rintro ⟨w, hw, hsub⟩
  have hok := (slotted_iff p hs'.1 hnd w).1 hw
  have hm := maxOK_sublist w _ hsub p (maxOK_of_okS w p hok.1)
  have hn : n ∈ p.leaves := Particle.Lang_subset p w hw n (hsub.subset (by simp))
  have := place_ok_of_maxOK (names k) n p hs'.1 hnd hn hm
  simp [Mslot.add, fwdCheck, addPlain, this] at h
end Slotted

#print axioms Slotted.C07_complete_slotted
#print axioms Slotted.C07_reject_needed_slotted
