-- Root of the `MxV` library (model + theorems for alexgorji/musicxml).
import MxV.Core.RE
import MxV.Core.Particle
import MxV.Core.Flat
import MxV.Core.Sub
import MxV.Gen.Strs
import MxV.Gen.Templates
import MxV.Gen.Elements
import MxV.Gen.Attrs
import MxV.Gen.Simple
import MxV.Core.Specs
import MxV.Model.Msimple
