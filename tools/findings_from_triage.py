#!/usr/bin/env python3
"""Build-time helper (never run by a check): rewrite the W-* entries of known_findings.json from
build/triage.json (output of tools/triage_matcher.py on the current /repo)."""
import json, os
V = os.path.dirname(os.path.dirname(os.path.abspath(__file__)))
d = json.load(open(os.path.join(V, 'build', 'triage.json')))
k = json.load(open(os.path.join(V, 'known_findings.json')))
k['findings'] = [f for f in k['findings'] if not f['id'].startswith('W-')]
SITE = {'C01': 'musicxml/xmlelement/xmlchildcontainer.py:40-116,404-498 (final check / leaf selection on choice-bearing content models)',
        'C02': 'musicxml/xmlelement/xmlchildcontainer.py:404-498 (first-fit placement, duplication of unbounded particles)',
        'C06': 'musicxml/xmlelement/xmlchildcontainer.py:177-235 (intelligent choice re-homes only part of the children); musicxml/xmlelement/xmlelement.py:300-330 (remove prunes duplicated branches)',
        'C07': 'musicxml/xmlelement/xmlchildcontainer.py:254-278,411-435 (choice committed by an optional child)',
        'C10': 'musicxml/xmlelement/xmlchildcontainer.py:177-235,445-474 (restructuring before raising)',
        'C11': 'musicxml/xmlelement/xmlelement.py:300-330 (chosen_child cleared on the immediate parent only; duplicates pruned heuristically)',
        'C12': 'musicxml/xmlelement/xmlchildcontainer.py:411-462 (committed choice / intelligent re-homing)',
        'C19': 'musicxml/xmlelement/xmlchildcontainer.py (internal error escaping a public call)'}
WHAT = {'C01': 'invalid child sequence passes the final check', 'C02': 'schema-valid word rejected or reordered',
        'C06': 'children views diverge (zombie / lost child)', 'C07': 'accepted children cannot be completed',
        'C10': 'a failed call changes the element', 'C11': 'removal does not restore the twin behaviour',
        'C12': 'order-dependent acceptance/serialisation', 'C19': 'internal error'}
for key, v in sorted(d.items()):
    p, t = key.split('/', 1)
    if v['class'] != 'wild':
        raise SystemExit('finding on a Tame type?! ' + key)
    w = v['witnesses'][:3]
    k['findings'].append({
        'id': 'W-%s-%s' % (p, t), 'property': [p], 'status': 'open',
        'what': "%s on the Wild content model '%s': %s" % (WHAT[p], t, w[0]['what'][:220]),
        'site': SITE[p], 'replay': {'kind': 'history', 'type': t, 'witnesses': [x['hist'] for x in w]},
        'region': "element types whose content model is '%s' (Wild class: a choice below the root or a repeated particle); only "
                  "histories on which the pinned behaviour (the Lean model Mfull) fails the same oracle" % t})
json.dump(k, open(os.path.join(V, 'known_findings.json'), 'w'), indent=1)
print(len(k['findings']), 'findings')
