#!/bin/bash
# usage: try_mutant.sh <seeded-id> <check-id> [tier]   -- applies the patch to /repo, runs the check, reverts
sid=$1; cid=$2; tier=${3:-quick}
cd /repo && git apply /verif/seeded/$sid/patch.diff || { echo "APPLY FAILED $sid"; exit 3; }
cd /verif && timeout 1800 ./check $cid --tier $tier 2>/dev/null | grep -v "^KNOWN" | tail -3
echo "exit=${PIPESTATUS[0]} ($sid vs $cid)"
cd /repo && git checkout -- . 
git -C /verif checkout -- evidence 2>/dev/null
