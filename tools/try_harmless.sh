#!/bin/bash
# usage: try_harmless.sh <harmless-id> <check-id>...   -- applies a behaviour-preserving refactoring to /repo,
# runs the named checks (quick tier); every one must exit 0 without a VIOLATION line; reverts.
hid=$1; shift
cd /repo && git apply /verif/seeded/harmless/$hid/patch.diff || { echo "APPLY FAILED $hid"; exit 3; }
t=$(/venv/bin/python -m pytest -q -p no:cacheprovider musicxml 2>&1 | tail -1)
echo "$hid tests: $t"
cd /verif
for cid in "$@"; do
  out=$(timeout 1800 ./check $cid 2>/dev/null | grep -v "^KNOWN"); ec=$?
  echo "$hid vs $cid: $(echo "$out" | grep -c VIOLATION) violation(s); $(echo "$out" | tail -1 | cut -c1-150)"
  echo "$out" | grep VIOLATION | head -3
done
cd /repo && git checkout -- .
git -C /verif checkout -- evidence lean/MxV/Gen 2>/dev/null
