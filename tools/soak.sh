#!/bin/bash
# soak: every check, several seeds, on the unchanged tree; any VIOLATION or non-zero exit is a false alarm / harness bug
cd "$(dirname "$0")/.."; mkdir -p build; out=build/soak_${1:-quick}.txt; : > $out
for seed in ${SEEDS:-1 2 3 4 5 6}; do
  for c in C01 C02 C03 C04 C05 C06 C07 C08 C09 C10 C11 C12 C13 C14 C15 C16 C17 C18 C19 C20; do
    r=$(VERIF_SEED=$seed timeout 3000 ./check $c --tier ${1:-quick} 2>/dev/null | grep -v "^KNOWN" | tail -1); ec=$?
    echo "seed=$seed $c $r" >> $out
  done
done
echo done >> $out
