#!/venv/bin/python
"""Build-time triage (not part of any check): evaluate the matcher property oracles on the REAL
library over the deterministic corpus + seeded histories for all 94 types and print, per
(property, type), minimal failing histories. Its output was turned into known_findings.json by hand.
usage: PYTHONPATH=/repo:/verif/harness /venv/bin/python tools/triage_matcher.py OUT.json [n_random]"""
import sys, os, json, collections, multiprocessing as mp, random
sys.path.insert(0, '/verif/harness')
PROPS = ['C01', 'C02', 'C06', 'C10', 'C11', 'C12', 'C19', 'C07']
_W = {}


def init():
    import lib
    from props import matcher_common as mc
    _W['lib'] = lib; _W['mc'] = mc; _W['drv'] = lib.Driver()


def work(case):
    mc = _W['mc']
    out = []
    for p in PROPS:
        if p == 'C07' and (len(case['hist']) > 3 or len(_W['lib'].ALPHA[case['tkey']]) > 14):
            continue
        try:
            v = mc.oracle_eval(p, case['tkey'], case['hist'], _W['drv'])
        except Exception as e:
            v = 'ORACLE-ERROR %r' % e
        if v:
            out.append((p, case['tkey'], case['hist'], v))
    return out


def main():
    import lib
    from props import matcher_common as mc
    nrand = int(sys.argv[2]) if len(sys.argv) > 2 else 30
    cases = mc.corpus_cases(2, cap=500)
    for seed in range(3):
        cases += mc.gen_cases(seed, nrand, ['mixed', 'word', 'perm', 'worddup', 'worddel', 'addonly', 'fwd'], salt='triage')
    with mp.Pool(16, initializer=init) as pool:
        res = pool.map(work, cases, chunksize=50)
    by = collections.defaultdict(list)
    for r in res:
        for p, t, h, v in r:
            by[(p, t)].append((len(h), h, v))
    out = {}
    for (p, t), lst in sorted(by.items()):
        lst.sort(key=lambda x: (x[0], json.dumps(x[1])))
        out['%s/%s' % (p, t)] = {'class': lib.CLASS_OF_TYPE[t], 'n': len(lst),
                                 'witnesses': [{'hist': h, 'what': v} for _, h, v in lst[:4]]}
    json.dump(out, open(sys.argv[1], 'w'), indent=1)
    print(len(cases), 'cases;', len(out), 'failing (property,type) pairs')
    tame = [k for k, v in out.items() if v['class'] != 'wild']
    print('on Tame types:', tame)


if __name__ == '__main__':
    main()
