#!/usr/bin/env python3
"""Confirm a seeded change in a scratch worktree: demo PASSes on the pristine tree, FAILs with the
patch applied, and the pinned test suite still passes with the patch. Writes seeded/<id>/meta.json.
usage: verify_seeded.py <worktree> <prop> <mN> <src_dir(_out)>"""
import sys, os, subprocess, json, shutil
wt, prop, m, src = sys.argv[1:5]
sid = f"{prop}-{m}"
dst = f"/verif/seeded/{sid}"
os.makedirs(dst, exist_ok=True)
shutil.copy(f"{src}/{m}.diff", f"{dst}/patch.diff")
shutil.copy(f"{src}/{m}_demo.py", f"{dst}/demo.py")
meta_in = json.load(open(f"{src}/meta.json")).get(m, {})
env = dict(os.environ, PYTHONPATH=wt)
def run(cmd, **kw):
    return subprocess.run(cmd, cwd=wt, env=env, capture_output=True, text=True, **kw)
def sh(cmd):
    return subprocess.run(cmd, cwd=wt, shell=True, capture_output=True, text=True)
sh("git checkout -- musicxml")
r0 = run(["/venv/bin/python", f"{dst}/demo.py"], timeout=600)
ap = sh(f"git apply {dst}/patch.diff")
r1 = run(["/venv/bin/python", f"{dst}/demo.py"], timeout=600)
t = run(["/venv/bin/python", "-m", "pytest", "-q", "-p", "no:cacheprovider", "musicxml"], timeout=900)
sh("git checkout -- musicxml")
tail = [l for l in t.stdout.strip().splitlines() if 'passed' in l or 'failed' in l][-1:] 
meta = {"id": sid, "property": prop, "summary": meta_in.get("summary"), "needs": meta_in.get("needs"),
        "files": meta_in.get("files"),
        "confirmed": {"pristine_demo_exit": r0.returncode, "pristine_demo_pass": 'PASS' in r0.stdout,
                      "patch_applies": ap.returncode == 0, "patched_demo_exit": r1.returncode,
                      "patched_demo_fail": 'FAIL' in r1.stdout, "tests_with_patch": tail,
                      "ran": ["demo.py on pristine worktree", "git apply patch.diff; demo.py", "pytest -q musicxml (192 tests) with patch"]},
        "base_commit": sh("git rev-parse HEAD").stdout.strip()}
ok = (r0.returncode == 0 and 'PASS' in r0.stdout and ap.returncode == 0 and r1.returncode == 1 and tail and '192 passed' in tail[0])
meta["kept"] = bool(ok)
json.dump(meta, open(f"{dst}/meta.json", "w"), indent=1)
print(sid, "OK" if ok else "REJECT", r0.returncode, ap.returncode, r1.returncode, tail)
