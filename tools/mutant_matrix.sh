#!/bin/bash
# runs every seeded change against the check of its own property (quick tier); results -> build/matrix.txt
cd /verif
out=build/matrix.txt; : > $out
for d in seeded/C*; do
  sid=$(basename $d); cid=${sid%%-*}
  cd /repo && git apply /verif/$d/patch.diff 2>/dev/null || { echo "$sid APPLY-FAILED" >> /verif/$out; cd /verif; continue; }
  cd /verif
  res=$(timeout 1500 ./check $cid --tier ${1:-quick} 2>/dev/null | grep -v "^KNOWN" | grep "VIOLATION\|^OK" | head -2 | tr '\n' ' ')
  echo "$sid $res" >> $out
  cd /repo && git checkout -- . && cd /verif
done
rm -rf /verif/evidence/replays
echo done >> $out
