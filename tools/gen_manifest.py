#!/usr/bin/env python3
"""Regenerates /verif/MANIFEST.json from the table below (kept valid at all times)."""
import json, os
V = os.path.dirname(os.path.dirname(os.path.abspath(__file__)))
props = [json.loads(l) for l in open(os.path.join(V, 'properties.jsonl'))]

TB = ("Trusted: Lean 4.33 kernel (leanchecker re-check in the thorough tier); axioms propext, Quot.sound, "
      "Classical.choice only (audited per theorem on every run; no sorry/native_decide/bv_decide/own axioms); the translator "
      "extract/*.py and its intern table; the correspondence harness (generators' reach is measured, not assumed); the pinned "
      "schema copy = MusicXML 4.0. Modelled, not verified: CPython (str(float), int()/float(), re, xml.etree/expat), "
      "verysimpletree (its caches are modelled inside Mfull).")

MATCHER_NOTE = (" Proven domain: the 68 Tame content models (61 Flat + 7 RootChoice) x all operation histories, theorems on the "
                "Lean model Msimple; the 26 Wild content models carry no theorem (partial) - there the real library is tied to "
                "the line-by-line Lean port Mfull by the correspondence run and the known defects are listed in known_findings.json.")

CHECKS = {
 'C01': ('matcher', "Theorems C01_tame/C01_reachable/C01_schema: for every history on a Tame template, a passing final check implies the serialised child word is in the pinned schema's content model (via C03.templates_lang_eq and the verified matcher)." + MATCHER_NOTE, 'Lean 4 theorems (invariant by induction over operation histories) + differential correspondence real library / Mfull / Msimple'),
 'C02': ('matcher', "Theorems C02_tame/C02_schema: every word of every Tame content model (unbounded repetition included), supplied in order, is accepted, passes the final check and is serialised as supplied." + MATCHER_NOTE, 'Lean 4 theorems over all words of 68 regular languages + differential correspondence'),
 'C03': ('tables', "Lean 4 theorems over the complete tables regenerated from /repo on every run (441 element classes, 94 container templates + 98 per-instance copies, 228 attribute tables, 151 simple types, 45+27 groups, schema file hashes) and from the pinned MusicXML 4.0 schema; content models are proved language-equivalent for all words (Particle.equivB_sound), not sampled. Partial: 7 attribute tables that the library cannot even build (open findings F9) are excluded by name; 'accepts exactly the language' at run time is C01/C02.", 'Lean 4 kernel-decided table theorems (decide +kernel) lifted by proved lemmas; translator regenerates tables each run'),
 'C06': ('matcher', "Theorems ordered_perm/ids_nodup_run/C06_tame: on Tame templates, for every history with fresh children, the schema-ordered view is a permutation of the insertion-ordered view (the ledger) and no child occurs twice; parent pointers are checked by the correspondence run." + MATCHER_NOTE, 'Lean 4 theorems (refinement to the ledger) + differential correspondence incl. parent pointers'),
 'C07': ('matcher', "Theorems C07_reject_needed_flat/_rootChoice (a child is rejected only if no valid arrangement contains it with the present children) and C07_complete_rootChoice (explicit completion). Completion on Flat templates is validated by the correspondence run only (theorem pending) - partial." + MATCHER_NOTE, 'Lean 4 theorems + differential correspondence; bounded completion search only to classify a broken correspondence'),
 'C10': ('matcher', "Model side: a raising call returns the old state (C10_tame, C10_then_supply); that the code touches nothing before raising on Tame templates is established by the correspondence run (observation after every failing call, next-child probes)." + MATCHER_NOTE, 'Lean 4 theorems on the model + differential correspondence around every failing call'),
 'C11': ('matcher', "Theorem C11_rebuild/C11_tame: every reachable state of a Tame element equals the state reached by adding its surviving children to a fresh element in the same order (holds for the code since the fix: commit e0de9ac)." + MATCHER_NOTE, 'Lean 4 theorem (state rebuild) + differential correspondence with removals'),
 'C12': ('matcher', "Theorems C12_tame_perm/same_name_in_insertion_order: every permutation of a valid multiset is accepted on Tame templates and serialises in the valid arrangement, same-named children in insertion order." + MATCHER_NOTE, 'Lean 4 theorems over all permutations + differential correspondence'),
 'C19': ('matcher', "Theorems errors_documented_tame/_flat_fwd: on Tame templates every rejection is a documented exception kind; model functions are total (structural recursion). Exception classes, stdout/stderr silence of the real code are checked by the correspondence run on all 94 types. Partial: constructor/attribute paths are covered by C04/C05 checks." + MATCHER_NOTE, 'Lean 4 theorems + differential correspondence with exception-class enum and captured output'),
}

checks = []
for pid, (engine, text, tech) in sorted(CHECKS.items()):
    checks.append({
        'property_id': pid, 'quick_cmd': './check %s --tier quick' % pid, 'thorough_cmd': './check %s --tier thorough' % pid,
        'evidence_file': 'evidence/%s.json' % pid, 'replay_cmd_template': './check %s --replay {path}' % pid,
        'engine': engine,
        'level_claimed': {'category': 'proof', 'text': text, 'design_ref': 'DESIGN.md section 8, ' + pid},
        'level_note': TB, 'technique': tech})

m = {'version': 1, 'setup_cmd': './setup.sh',
     'hooks': {'guard': 'MUSICXML_VERIF',
               'enable': 'no source hooks are needed: checks import /repo as it is (PYTHONPATH=/repo); schedule control uses sys.settrace, fault injection uses wrappers installed by the harness process',
               'baseline_off_cmd': 'cd /repo && /venv/bin/python -m pytest -ra -q -p no:cacheprovider --timeout=900 --continue-on-collection-errors',
               'source_commits': [], 'add_only': True},
     'engines': [
         {'name': 'tables', 'path': 'extract/ lean/MxV/Gen lean/MxV/Tables', 'serves_properties': ['C03'],
          'kind_free_text': 'translator: live library + pinned XSD -> Lean tables, re-decided by the kernel every run'},
         {'name': 'matcher', 'path': 'lean/MxV/Model/{Msimple,MsimpleTheory,Mfull}.lean lean/Driver.lean harness/matcher.py harness/props/matcher_common.py',
          'serves_properties': ['C01', 'C02', 'C06', 'C07', 'C10', 'C11', 'C12', 'C19'],
          'kind_free_text': 'hand-written Lean models (Msimple with theorems, Mfull line-by-line port) + differential correspondence through the mxdriver line protocol'}],
     'checks': checks,
     'not_applicable': [{'property_id': p['id'], 'reason': 'check not built yet in this session (in progress; see DESIGN.md section 11)'}
                        for p in props if p['id'] not in CHECKS],
     'notes': 'Family: machine-checked proof in Lean 4. See DESIGN.md. known_findings.json lists genuine defects (open) and fix: commits (fixed).'}
json.dump(m, open(os.path.join(V, 'MANIFEST.json'), 'w'), indent=1)
print('checks:', [c['property_id'] for c in checks])
