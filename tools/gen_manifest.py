#!/usr/bin/env python3
"""Regenerates /verif/MANIFEST.json from the table below (kept valid at all times)."""
import json, os
V = os.path.dirname(os.path.dirname(os.path.abspath(__file__)))
props = [json.loads(l) for l in open(os.path.join(V, 'properties.jsonl'))]

TB = ("Trusted: Lean 4.33 kernel (leanchecker re-check in the thorough tier); axioms propext, Quot.sound, "
      "Classical.choice only (audited per theorem on every run; no sorry/native_decide/bv_decide/own axioms); the translator "
      "extract/*.py and its intern table; the correspondence harness (generators' reach is measured, not assumed); the pinned "
      "schema copy = MusicXML 4.0. Modelled, not verified: CPython (str(float), int()/float(), re, xml.etree/expat), "
      "verysimpletree (its caches are modelled inside Mfull).")

MATCHER_NOTE = (" Proven domain: the 68 Tame content models (61 Flat + 7 RootChoice) x all operation histories, theorems on the "
                "Lean model Msimple; the remaining content models carry no theorem for this property (partial) - there the real "
                "library is tied to the line-by-line Lean port Mfull by the correspondence run and the known defects are listed in "
                "known_findings.json.")
SLOT_NOTE = (" Proven domain: the 78 Slotted content models (61 Flat + 7 RootChoice + 10 sequences with choice slots: measure, "
             "notations, listening, name-display, notehead-text, play, bend, harmonic, instrument-change, score-instrument) x all "
             "operation histories: theorems on the Lean models Msimple (Tame) and Mslot (Slotted, Props/Slotted.lean); the 16 "
             "remaining content models carry no theorem (partial) - there the real library is tied to the line-by-line Lean port "
             "Mfull by the correspondence run and the known defects are listed in known_findings.json.")

CHECKS = {
 'C01': ('matcher', "Theorems C01_tame/C01_reachable/C01_schema: for every history on a Tame template, a passing final check implies the serialised child word is in the pinned schema's content model (via C03.templates_lang_eq and the verified matcher). Lifted to documents by XMLElement operations (replace_child selectors, recursion of the final checks, ElementTree construction) that are tied by the whole-element correspondence, which this check also runs." + SLOT_NOTE, 'Lean 4 theorems (invariant by induction over operation histories) + differential correspondence real library / Mfull / Msimple'),
 'C02': ('matcher', "Theorems C02_tame/C02_schema: every word of every Tame content model (unbounded repetition included), supplied in order, is accepted, passes the final check and is serialised as supplied. The whole-element correspondence (nested documents, repeated serialisation between mutations) is run as well." + SLOT_NOTE, 'Lean 4 theorems over all words of 68 regular languages + differential correspondence'),
 'C03': ('tables', "Lean 4 theorems over the complete tables regenerated from /repo on every run (441 element classes, 94 container templates + 98 per-instance copies, 228 attribute tables, 151 simple types, 45+27 groups, schema file hashes) and from the pinned MusicXML 4.0 schema; content models are proved language-equivalent for all words (Particle.equivB_sound), not sampled. Partial: 7 attribute tables that the library cannot even build (open findings F9) are excluded by name; 'accepts exactly the language' at run time is C01/C02.", 'Lean 4 kernel-decided table theorems (decide +kernel) lifted by proved lemmas; translator regenerates tables each run'),
 'C06': ('matcher', "Theorems ordered_perm/ids_nodup_run/C06_tame: on Tame templates, for every history with fresh children, the schema-ordered view is a permutation of the insertion-ordered view (the ledger) and no child occurs twice; parent pointers are checked by the correspondence run." + SLOT_NOTE, 'Lean 4 theorems (refinement to the ledger) + differential correspondence incl. parent pointers'),
 'C07': ('matcher', "Theorems C07_complete_flat / C07_complete_rootChoice (every reachable state of a Tame element can be completed: explicit completion, all of it accepted, final check passes; side condition minOccurs <= maxOccurs decided on the regenerated templates) and C07_reject_needed_flat / _rootChoice (a child is rejected only if no valid arrangement contains it with the present children)." + SLOT_NOTE, 'Lean 4 theorems (explicit completion witness) + differential correspondence; bounded completion search only to classify a broken correspondence'),
 'C10': ('matcher', "Model side: a raising call returns the old state (C10_tame, C10_then_supply); that the code touches nothing before raising on Tame templates is established by the correspondence run (observation after every failing call, next-child probes)." + SLOT_NOTE, 'Lean 4 theorems on the model + differential correspondence around every failing call'),
 'C11': ('matcher', "Theorem C11_rebuild/C11_tame: every reachable state of a Tame element equals the state reached by adding its surviving children to a fresh element in the same order (holds for the code since the fix: commit e0de9ac)." + SLOT_NOTE, 'Lean 4 theorem (state rebuild) + differential correspondence with removals'),
 'C12': ('matcher', "Theorems C12_tame_perm/same_name_in_insertion_order: every permutation of a valid multiset is accepted on Tame templates and serialises in the valid arrangement, same-named children in insertion order." + SLOT_NOTE, 'Lean 4 theorems over all permutations + differential correspondence'),
 'C19': ('matcher', "Theorems errors_documented_tame/_flat_fwd: on Tame templates every rejection is a documented exception kind; model functions are total (structural recursion). Exception classes, stdout/stderr silence of the real code are checked by the correspondence run on all 94 types. Partial: constructor/attribute paths are covered by C04/C05 checks." + SLOT_NOTE, 'Lean 4 theorems + differential correspondence with exception-class enum and captured output'),
}

EL_NOTE = (" The theorems are about the hand-written Lean models (Element, Values, Serialize, Parser); the real library is tied "
           "to them by the whole-element correspondence run (generated trees, every operation result and every serialisation compared). "
           "Known defects outside the proven region are listed in known_findings.json.")
CHECKS.update({
 'C04': ('element', "Theorems setAttr_ok_iff / setAttr_error_stores_nothing / setAttr_none_removes / setAttr_stores / missingRequired_nil_iff / serialised_eq_store / normKey_idem: assignment succeeds iff the (hyphenated) name is in the type's attribute table and the value validates; errors store nothing; None removes; to_string demands required attributes; the serialised attributes are the store. Tables are tied to the schema by C03. Partial: attribute 'name' by dot (F10), namespace prefixes (F12), 7 broken tables (F9)." + EL_NOTE, 'Lean 4 theorems on the attribute-store model + differential correspondence over class x attribute x value'),
 'C05': ('values', "Theorems enum_accepts_iff / enum_rejects_other (enumerated types accept exactly their literals), range_exact / minExclusive_exact / minInclusive_exact (numeric facets exact at the boundaries), and kernel-evaluated negative witnesses for the open findings (bool, exponent floats, nan). Pattern facets: patterns_agree / pattern_language_is_schema / validator_pattern_is_schema — for each of the 20 pattern-carrying types the regular expression the library compiles has exactly the language of the schema's pattern facet (xs:date: of the W3C lexical form), for all strings, decided in the kernel by the verified equivalence checker SRE.equiv (Core/SRE.lean, equiv_sound); token_pattern_type_accepts_iff_schema: such a type accepts a string iff its white-space-collapsed text matches the schema pattern. When these fail, SRE.witness gives a distinguishing word that is replayed on the real type. Partial: lexical validity of rendered floats rests on CPython's repr (trusted); F13/F14 open." + EL_NOTE, 'Lean 4 theorems on the table-driven validator model, kernel-run verified regex-equivalence checker (library pattern vs schema pattern) + differential correspondence on ~10^4-10^5 (type, value) pairs'),
 'C08': ('parser', "Theorems str_stays_str / int_stays_int / decimal_comes_back_float / value_error_propagates / ladder_result_is_valid on the parser's typing ladder; the whole-document round trip (same infoset, second round trip byte-identical) is validated by the correspondence run real parse_musicxml vs model on generated documents. float()/int() of CPython are oracles supplied to the model (trusted)." + EL_NOTE, 'Lean 4 theorems on the typing-ladder model + differential correspondence on generated documents'),
 'C09': ('parser', "Theorem attr_not_silently_dropped: for every attribute of every input the ladder either raises or stores the attribute under its schema name with one of the three readings of its text (holds for the code since fix ece4d7a). Acceptance of every schema-valid file is partial: it inherits the domains of C02/C04/C05; F12 (namespaced attributes), tail text and lenient numerals are open findings." + EL_NOTE, 'Lean 4 theorem (no silent attribute loss, all inputs) + differential correspondence incl. foreign spellings of documents'),
 'C13': ('element', "The models are functional (frame, fresh_independent); the content of the property is that the code has that structure: established by the correspondence runs (instances interleaved, model run per instance) and by the translator's inventory of class-level state - class_mutables_known / class_cells_known are re-decided on the AST of the current source every run." + EL_NOTE, 'Lean 4 frame theorems + kernel-decided inventory of shared class-level state + differential correspondence'),
 'C14': ('element', "Theorems copy_store_eq / copy_independent / children_rebuild (the latter: C11_rebuild - on Tame content models re-adding the children rebuilds the state); the executable deepCopy model is tied to the code by correspondence (copy, serialise both, mutate either, serialise again). Holds for the code since fix 7ac628c. Partial: children of Wild content models." + EL_NOTE, 'Lean 4 theorems + differential correspondence with post-copy mutations'),
 'C15': ('element', "Theorems on the decision table of e.xml_x = value (instance_replaces_or_adds, none_removes, value_sets_or_builds, unknown_name_is_attribute_error); the driver executes the decision with the explicit API operations, so agreement of the real __setattr__/__getattr__ with the model on every generated history is the stated equivalence. Partial: reserved names (F10)." + EL_NOTE, 'Lean 4 theorems on the dispatch model + differential correspondence shortcut vs explicit operations'),
 'C16': ('serialize', "Theorems escape_text_rt / escape_attr_rt (for ALL strings: expanding the references the escapers emit gives back the original), escaped_text_has_no_markup / escaped_attr_has_no_quote (escaped output cannot break well-formedness); determinism is functional purity of the model; byte equality of the real to_string() with the model (ET.indent + tostring port) on every generated tree and subtree, repeated calls included, is the correspondence." + EL_NOTE, 'Lean 4 theorems on the escaping functions + differential correspondence of full serialisations'),
 'C17': ('shapes', "Theorems write_atomic (if to_string raises the destination is untouched, any prior state), write_content (declaration + to_string, UTF-8), io_locale_independent, all instantiated by kernel evaluation on the effect list and open() sites extracted from the AST of the current source; fault injection (every node failing in turn) and a subprocess locale matrix validate the extraction. Holds since fix 529310b/3834ae9. OS-level partial writes are outside the statement.", 'Lean 4 theorems over AST-extracted effect order (translator) + fault injection + locale matrix'),
 'C18': ('element', "Theorems unchecked_add_total / unchecked_insertion_order / unchecked_eq_checked (valid order => same serialisation as checked, from C02_tame); per-node gating of the final checks is in the executable model and tied to the code by correspondence on trees mixing checked and unchecked nodes. Partial: byte identity inherits C02's domain." + EL_NOTE, 'Lean 4 theorems + differential correspondence on mixed checked/unchecked trees'),
 'C20': ('shapes', "Theorem attribute_tables_thread_safe: with the publish-after-fill shape (decided on the AST-extracted statements of both get_xsd_attributes) every thread gets the complete table for ANY number of threads and ANY schedule; class_cells_known / class_mutables_known bound the other shared class-level state; a fork-per-schedule sweep (pre-emption at every line of first use) validates on the real code. Holds since fix b6493b6. Sub-bytecode pre-emption / free-threaded builds are outside the model.", 'Lean 4 theorem over all schedules + AST-extracted shapes (translator) + systematic schedule sweep'),
})

checks = []
for pid, (engine, text, tech) in sorted(CHECKS.items()):
    checks.append({
        'property_id': pid, 'quick_cmd': './check %s --tier quick' % pid, 'thorough_cmd': './check %s --tier thorough' % pid,
        'evidence_file': 'evidence/%s.json' % pid, 'replay_cmd_template': './check %s --replay {path}' % pid,
        'engine': engine,
        'level_claimed': {'category': 'proof', 'text': text, 'design_ref': 'DESIGN.md section 8, ' + pid},
        'level_note': TB, 'technique': tech})

m = {'version': 1, 'setup_cmd': './setup.sh',
     'hooks': {'guard': 'MUSICXML_VERIF',
               'enable': 'no source hooks are needed: checks import /repo as it is (PYTHONPATH=/repo); schedule control uses sys.settrace, fault injection uses wrappers installed by the harness process',
               'baseline_off_cmd': 'cd /repo && /venv/bin/python -m pytest -ra -q -p no:cacheprovider --timeout=900 --continue-on-collection-errors',
               'source_commits': [], 'add_only': True},
     'engines': [
         {'name': 'tables', 'path': 'extract/ lean/MxV/Gen lean/MxV/Tables', 'serves_properties': ['C03'],
          'kind_free_text': 'translator: live library + pinned XSD -> Lean tables, re-decided by the kernel every run'},
         {'name': 'element', 'path': 'lean/MxV/Model/{Element,Values,Serialize,Parser}.lean lean/Driver.lean harness/{elements,values,parsing}.py harness/props/element_common.py',
          'serves_properties': ['C04', 'C05', 'C08', 'C09', 'C13', 'C14', 'C15', 'C16', 'C18'],
          'kind_free_text': 'hand-written Lean models of the attribute store, simple-type validator (table-driven), serializer (ET.indent/tostring port), parser ladders + whole-element differential correspondence'},
         {'name': 'shapes', 'path': 'extract/shapes.py lean/MxV/Model/Shapes.lean harness/{io_checks,sched}.py',
          'serves_properties': ['C17', 'C20'],
          'kind_free_text': 'AST -> effect-order IR translator, generic Lean theorems instantiated by kernel evaluation, dynamic fault injection / schedule sweep'},
         {'name': 'matcher', 'path': 'lean/MxV/Model/{Msimple,MsimpleTheory,Mfull}.lean lean/Driver.lean harness/matcher.py harness/props/matcher_common.py',
          'serves_properties': ['C01', 'C02', 'C06', 'C07', 'C10', 'C11', 'C12', 'C19'],
          'kind_free_text': 'hand-written Lean models (Msimple with theorems, Mfull line-by-line port) + differential correspondence through the mxdriver line protocol'}],
     'checks': checks,
     'not_applicable': [{'property_id': p['id'], 'reason': 'check not built yet in this session (in progress; see DESIGN.md section 11)'}
                        for p in props if p['id'] not in CHECKS],
     'notes': 'Family: machine-checked proof in Lean 4. See DESIGN.md. known_findings.json lists genuine defects (open) and fix: commits (fixed).'}
json.dump(m, open(os.path.join(V, 'MANIFEST.json'), 'w'), indent=1)
print('checks:', [c['property_id'] for c in checks])
