#!/bin/bash
# Offline build of the framework: translator output + Lean library (all theorems) + model driver.
set -e
cd "$(dirname "$0")"
mkdir -p build evidence
export PYTHONPATH=/repo
/venv/bin/python extract/impl_tables.py build/impl.json
/venv/bin/python extract/xsd_spec.py build/spec.json
/venv/bin/python extract/gen_lean.py build/impl.json build/spec.json
if [ -f extract/shapes.py ]; then /venv/bin/python extract/shapes.py /repo build/shapes.json lean/MxV/Gen/Shapes.lean; fi
cd lean
lake build mxdriver
/venv/bin/python ../extract/gen_witnesses.py ../build/strs.json ../known_findings.json .lake/build/bin/mxdriver MxV/Gen/Witnesses.lean
lake build MxV mxdriver $(ls MxV/Props/*.lean MxV/Tables/D_*.lean MxV/Model/*Theory.lean | sed 's#/#.#g; s#\.lean$##')
echo "setup ok"
