#!/venv/bin/python
"""Translator, impl side: introspect the LIVE library (whatever /repo's working tree says now)
and dump every table the Lean theorems talk about as JSON.

Run:  PYTHONPATH=/repo /venv/bin/python impl_tables.py OUT.json
Kept dumb on purpose: attribute reads of live objects only, each row under try/except so that a
broken row becomes an explicit {"broken": "..."} entry instead of crashing the extractor.
"""
import os
import sys, json, io, contextlib, warnings, os
warnings.simplefilter('ignore')


def main(out_path):
    with contextlib.redirect_stdout(io.StringIO()):
        from musicxml.xmlelement import xmlelement as XE
        from musicxml.xmlelement.xmlelement import XMLElement
        from musicxml.xmlelement.containers import containers
        from musicxml.xsd import xsdsimpletype as ST, xsdcomplextype as CT, xsdattribute as AT, xsdindicator as IND
        from musicxml.xsd.xsdelement import XSDElement
        from musicxml.xsd.xsdindicator import XSDSequence, XSDChoice, XSDGroup
        from musicxml.util.core import convert_to_xml_class_name
        import musicxml.util.helprervariables as HV

    def tree_of(node):
        c = node.content
        mi, ma = node.min_occurrences, node.max_occurrences
        ma = None if ma == 'unbounded' else ma
        kids = [tree_of(ch) for ch in node.get_children()]
        if isinstance(c, XSDElement):
            return {'k': 'e', 'name': c.name, 'min': mi, 'max': ma}
        if isinstance(c, XSDGroup):
            return {'k': 'g', 'name': c.name, 'min': mi, 'max': ma, 'ps': kids}
        if isinstance(c, XSDChoice):
            return {'k': 'c', 'min': mi, 'max': ma, 'ps': kids}
        if isinstance(c, XSDSequence):
            return {'k': 's', 'min': mi, 'max': ma, 'ps': kids,
                    'dup': c.__class__.__name__ == 'DuplicationXSDSequence'}
        return {'k': '?', 'repr': repr(c)}

    def type_key(T):
        """schema name of a complex/simple type class (None for anonymous)."""
        try:
            return T.get_xsd_tree().name
        except Exception as e:  # noqa
            return None

    out = {}
    # ---- element classes -------------------------------------------------------------------
    classes = [c for n, c in vars(XE).items()
               if isinstance(c, type) and issubclass(c, XMLElement) and c is not XMLElement]
    out['all_decl'] = list(getattr(XE, '__all__', []))
    elements = []
    for c in classes:
        row = {'cls': c.__name__}
        try:
            row['name'] = c.XSD_TREE.name if c.XSD_TREE is not None else None
            if row['name'] is None:
                c._fill_xsd_tree(); row['name'] = c.XSD_TREE.name
            T = c.TYPE
            row['type_cls'] = T.__name__
            t = T.get_xsd_tree()
            row['kind'] = 'simple' if t.is_simple_type else 'complex' if t.is_complex_type else '?'
            row['type_name'] = t.name
            row['decl_type_attr'] = c.XSD_TREE.get_attributes().get('type')
            sc = getattr(T, '_SIMPLE_CONTENT', None)
            row['simple_content'] = sc.__name__ if sc else None
            row['has_container'] = T.__name__ in containers
        except Exception as e:
            row['broken'] = f'{type(e).__name__}: {e}'
        elements.append(row)
    out['elements'] = elements
    out['properties'] = sorted(XMLElement._PROPERTIES)
    out['name_rule'] = {r['name']: convert_to_xml_class_name(r['name']) for r in elements if r.get('name')}

    # ---- container templates: process-wide + per-instance copy ------------------------------
    templates = {}
    for tname, cont in containers.items():
        templates[tname] = {'tree': tree_of(cont)}
    out['templates'] = templates
    inst = {}
    # per-instance copies through the public constructor (value-less construction works for all
    # complex types with element content; simple-content ones take '' only if allowed)
    for c in classes:
        if c.TYPE.__name__ not in containers:
            continue
        try:
            with contextlib.redirect_stdout(io.StringIO()):
                e = c()
            inst[c.__name__] = {'type_cls': c.TYPE.__name__, 'tree': tree_of(e.child_container_tree)}
        except Exception as ex:
            inst[c.__name__] = {'type_cls': c.TYPE.__name__, 'broken': f'{type(ex).__name__}: {ex}'}
    out['instance_templates'] = inst

    # ---- attribute tables -------------------------------------------------------------------
    ctypes = [c for n, c in vars(CT).items() if isinstance(c, type) and issubclass(c, CT.XSDComplexType)
              and c is not CT.XSDComplexType]
    if os.environ.get('MXV_ORDER') == 'reverse':
        # second extraction in the opposite order of first use: lazily built class-level tables must not depend on it
        ctypes = list(reversed(ctypes))
    attrs = {}
    for T in ctypes:
        rows = []
        try:
            lst = T.get_xsd_attributes()
        except Exception as ex:
            attrs[T.__name__] = {'broken': f'{type(ex).__name__}: {ex}'}
            continue
        for a in lst:
            r = {}
            try:
                r['name'] = a.name
                r['required'] = bool(a.is_required)
                r['type_cls'] = a.type_.__name__
            except Exception as ex:
                r['broken'] = f'{type(ex).__name__}: {ex}'
                try:
                    r['ref'] = a.xsd_tree.get_attributes().get('ref') if a.xsd_tree is not None else None
                except Exception:
                    r['ref'] = None
            rows.append(r)
        sc = getattr(T, '_SIMPLE_CONTENT', None)
        attrs[T.__name__] = {'rows': rows, 'type_name': type_key(T), 'simple_content': sc.__name__ if sc else None,
                             'mro': [b.__name__ for b in T.__mro__ if b.__name__.startswith('XSD')]}
    out['complex_types'] = attrs
    groups = {}
    for n, G in (list(reversed(list(vars(AT).items()))) if os.environ.get('MXV_ORDER') == 'reverse' else list(vars(AT).items())):
        if isinstance(G, type) and issubclass(G, AT.XSDAttributeGroup) and G is not AT.XSDAttributeGroup:
            rows = []
            try:
                for a in G.get_xsd_attributes():
                    try:
                        rows.append({'name': a.name, 'required': bool(a.is_required), 'type_cls': a.type_.__name__})
                    except Exception as ex:
                        rows.append({'broken': f'{type(ex).__name__}: {ex}'})
                groups[G.XSD_TREE.name] = rows
            except Exception as ex:
                groups[n] = {'broken': f'{type(ex).__name__}: {ex}'}
    out['attr_groups'] = groups
    mgroups = {}
    for n, G in vars(IND).items():
        if isinstance(G, type) and issubclass(G, XSDGroup) and G is not XSDGroup:
            try:
                from musicxml.xmlelement.xmlchildcontainer import XMLChildContainer
                cont = XMLChildContainer(content=G())
                mgroups[G.XSD_TREE.name] = tree_of(cont)
            except Exception as ex:
                mgroups[n] = {'broken': f'{type(ex).__name__}: {ex}'}
    out['model_groups'] = mgroups

    # ---- simple types -----------------------------------------------------------------------
    stypes = [c for n, c in vars(ST).items() if isinstance(c, type) and issubclass(c, ST.XSDSimpleType)
              and c is not ST.XSDSimpleType]
    if os.environ.get('MXV_ORDER') == 'reverse':
        stypes = list(reversed(stypes))
    simple = {}
    for T in stypes:
        r = {'cls': T.__name__}
        try:
            t = T.get_xsd_tree()
            r['name'] = t.name
            r['types'] = [x.__name__ for x in T._TYPES] if isinstance(T._TYPES, (list, tuple)) else repr(T._TYPES)
            r['union'] = [u.__name__ for u in T._UNION]
            r['class_forced'] = list(T._FORCED_PERMITTED)
            r['class_pattern'] = T._PATTERN
            r['mro'] = [b.__name__ for b in T.__mro__ if b.__name__.startswith('XSDSimpleType')]
            restr = t.get_restriction()
            r['base'] = restr.get_attributes().get('base') if restr else None
            r['facets'] = [[ch.tag, ch.get_attributes().get('value')] for ch in restr.get_children()
                           if ch.tag not in ('annotation',)] if restr else []
            r['permitted'] = t.get_permitted() or []
            un = t.get_union()
            r['union_members'] = t.get_union_member_types() if un is not None and un.get_attributes().get('memberTypes') else []
            # what an instance computes lazily (pattern / forced permitted), via a throw-away instance
            r['eff_pattern'] = t.get_pattern(T.__mro__[1].get_xsd_tree()) if hasattr(T.__mro__[1], 'get_xsd_tree') and T.__mro__[1] is not object and T.__mro__[1].__name__ != 'XSDTreeElement' else t.get_pattern(None)
            fp = list(T._FORCED_PERMITTED)
            if not fp and un is not None and un.get_children() and un.get_children()[0].tag == 'simpleType':
                it = un.get_children()[0]
                fp = [ch.get_attributes()['value'] for ch in it.get_restriction().get_children() if ch.tag == 'enumeration']
            r['eff_forced'] = fp
        except Exception as ex:
            r['broken'] = f'{type(ex).__name__}: {ex}'
        simple[T.__name__] = r
    out['simple_types'] = simple
    out['char_classes'] = {k: getattr(HV, k) for k in ('name_character', 'xml_name_first_character',
                                                      'name_character_without_colon',
                                                      'xml_name_first_character_without_colon')}
    # ---- schema files the library loads -------------------------------------------------------
    import hashlib, musicxml.generate_classes.utils as U
    out['schema_files'] = {str(p.name): hashlib.sha256(open(p, 'rb').read()).hexdigest()
                           for p in (U.musicxml_xsd_path, U.xml_xsd_path)}
    out['repo'] = os.path.dirname(os.path.dirname(XE.__file__))
    json.dump(out, open(out_path, 'w'), indent=0, sort_keys=True)


if __name__ == '__main__':
    main(sys.argv[1])
