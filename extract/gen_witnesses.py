#!/venv/bin/python
"""Gen/Witnesses.lean: one history per open content-model finding (known_findings.json, ids W-<prop>-<type>)
on which the *model* Mfull violates the property — selected here by asking the compiled model, confirmed
afterwards by the kernel (Tables/D_witnesses.lean: `decide +kernel`, no trust in this script or in the driver).

usage: gen_witnesses.py <strs.json> <known_findings.json> <driver> <out.lean>"""
import sys, json, subprocess, os

KINDS = ['C01', 'C02', 'C06', 'C10', 'C11', 'C12']


def enc_ops(hist, ix):
    toks = []
    for op in hist:
        if op[0] == 'add':
            t = 'a:%d:%d' % (op[1], ix[op[2]])
            if len(op) > 3 and op[3] is not None:
                t += ':%d' % op[3]
            toks.append(t)
        elif op[0] == 'rm':
            toks.append('r:%d' % op[1])
        elif op[0] == 'repl':
            toks.append('p:%d:%d:%d' % (op[1], op[2], ix[op[3]]))
        else:
            return None
    return ','.join(toks)


def lean_ops(hist, ix):
    out = []
    for op in hist:
        if op[0] == 'add':
            f = 'none' if len(op) <= 3 or op[3] is None else '(some (%d))' % op[3]
            out.append('.add %d %d %s' % (op[1], ix[op[2]], f))
        elif op[0] == 'rm':
            out.append('.rm %d' % op[1])
        elif op[0] == 'repl':
            out.append('.repl %d %d %d' % (op[1], op[2], ix[op[3]]))
    return '[' + ', '.join(out) + ']'


def main(strs_json, findings_json, driver, out_lean):
    strs = json.load(open(strs_json))['strs']
    ix = {s: i for i, s in enumerate(strs)}
    kf = json.load(open(findings_json))
    cands = {k: [] for k in KINDS}
    for f in kf['findings']:
        if not f['id'].startswith('W-'):
            continue
        _, prop, typ = f['id'].split('-', 2)
        if prop not in KINDS or 'T:' + typ not in ix:
            continue
        seen = set()
        for hist in f['replay'].get('witnesses', []):
            if not hist or any(op[0] == 'add' and op[2] not in ix for op in hist):
                continue
            e = enc_ops(hist, ix)
            if e is None or e in seen:
                continue
            seen.add(e)
            cands[prop].append((f['id'], ix['T:' + typ], hist, e))
    rows = {k: [] for k in KINDS}
    if not os.path.exists(driver):
        # no compiled model yet (first build): keep the committed table; the kernel checks whatever it lists
        print('witnesses: kept (driver not built yet)')
        return
    if os.path.exists(driver):
        lines = []
        order = []
        for k in KINDS:
            for c in cands[k]:
                lines.append('witness %s %d %s' % (k, c[1], c[3]))
                order.append((k, c))
        p = subprocess.run([driver], input='\n'.join(lines) + '\n', capture_output=True, text=True, timeout=600)
        answers = p.stdout.split('\n')
        per_finding = set()
        for (k, c), a in zip(order, answers):
            if a.strip() == 'yes' and c[0] not in per_finding:      # one confirmed history per finding
                per_finding.add(c[0])
                rows[k].append(c)
    L = ['import MxV.Model.MfullWitness',
         '/-! GENERATED from known_findings.json: per property, (finding, content model, history) on which the model',
         '    violates the property (selected with the compiled model; the kernel confirms them in Tables/D_witnesses.lean). -/',
         'namespace Gen', 'open Mfull']
    for k in KINDS:
        L.append('def wit%s : List (Nat × List Op) := [' % k)
        L.append(',\n'.join('  (%d, %s)  -- %s' % (c[1], lean_ops(c[2], ix), c[0]) if False else '  (%d, %s)' % (c[1], lean_ops(c[2], ix)) for c in rows[k]))
        L.append(']')
        L.append('-- ' + ', '.join(c[0] for c in rows[k]))
    L.append('end Gen')
    txt = '\n'.join(L) + '\n'
    old = open(out_lean).read() if os.path.exists(out_lean) else None
    if old != txt:
        open(out_lean, 'w').write(txt)
        print('witnesses: regenerated', {k: len(v) for k, v in rows.items()})
    else:
        print('witnesses: unchanged', {k: len(v) for k, v in rows.items()})


if __name__ == '__main__':
    main(*sys.argv[1:5])
