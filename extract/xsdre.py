"""XML Schema regular expressions (Part 2, appendix F) -> Lean `SRE` terms.

Spec side of the pattern theorems: written against the W3C grammar, independent of the library's
own translation (musicxml/xsd/xsdtree.py get_pattern + util/helprervariables.py) and of Python's
`re`. Character sets are sorted disjoint code-point ranges; `\\i` and `\\c` are the NameStartChar /
NameChar productions of XML 1.0 (fifth edition), `\\d` is Unicode category Nd (taken from the
interpreter's unicodedata: trusted), `.` is everything but \\n and \\r."""
import sys

MAXCP = 0x10FFFF

NAME_START = [(0x3A, 0x3A), (0x41, 0x5A), (0x5F, 0x5F), (0x61, 0x7A), (0xC0, 0xD6), (0xD8, 0xF6), (0xF8, 0x2FF),
              (0x370, 0x37D), (0x37F, 0x1FFF), (0x200C, 0x200D), (0x2070, 0x218F), (0x2C00, 0x2FEF), (0x3001, 0xD7FF),
              (0xF900, 0xFDCF), (0xFDF0, 0xFFFD), (0x10000, 0xEFFFF)]
NAME_CHAR_EXTRA = [(0x2D, 0x2E), (0x30, 0x39), (0xB7, 0xB7), (0x300, 0x36F), (0x203F, 0x2040)]

_ND = None


def nd():
    global _ND
    if _ND is None:
        import unicodedata
        out, start = [], None
        for c in range(MAXCP + 2):
            d = c <= MAXCP and unicodedata.category(chr(c)) == 'Nd'
            if d and start is None:
                start = c
            if not d and start is not None:
                out.append((start, c - 1)); start = None
        _ND = out
    return _ND


def norm(rs):
    rs = sorted(rs)
    out = []
    for a, b in rs:
        if out and a <= out[-1][1] + 1:
            out[-1] = (out[-1][0], max(out[-1][1], b))
        else:
            out.append((a, b))
    return out


def compl(rs):
    out, prev = [], 0
    for a, b in norm(rs):
        if a > prev:
            out.append((prev, a - 1))
        prev = b + 1
    if prev <= MAXCP:
        out.append((prev, MAXCP))
    return out


def subtract(rs, ss):
    cs = compl(ss)
    out = []
    for a, b in norm(rs):
        for c, d in cs:
            lo, hi = max(a, c), min(b, d)
            if lo <= hi:
                out.append((lo, hi))
    return norm(out)


SINGLE = {'n': 10, 'r': 13, 't': 9}


def esc_set(ch):
    """multi-character escape -> ranges, or None"""
    if ch == 'd':
        return nd()
    if ch == 'D':
        return compl(nd())
    if ch == 'i':
        return norm(NAME_START)
    if ch == 'I':
        return compl(NAME_START)
    if ch == 'c':
        return norm(NAME_START + NAME_CHAR_EXTRA)
    if ch == 'C':
        return compl(NAME_START + NAME_CHAR_EXTRA)
    if ch == 's':
        return [(9, 10), (13, 13), (32, 32)]
    if ch == 'S':
        return compl([(9, 10), (13, 13), (32, 32)])
    if ch in 'wWpP':
        raise ValueError('escape \\%s not supported' % ch)
    return None


class P:
    def __init__(self, s):
        self.s, self.i = s, 0

    def peek(self):
        return self.s[self.i] if self.i < len(self.s) else None

    def take(self):
        c = self.s[self.i]; self.i += 1
        return c

    # regExp ::= branch ( '|' branch )*
    def regexp(self):
        bs = [self.branch()]
        while self.peek() == '|':
            self.take()
            bs.append(self.branch())
        return bs[0] if len(bs) == 1 else 'SRE.alts [' + ', '.join(bs) + ']'

    def branch(self):
        ps = []
        while self.peek() is not None and self.peek() not in '|)':
            ps.append(self.piece())
        if not ps:
            return 'SRE.eps'
        return ps[0] if len(ps) == 1 else 'SRE.seqs [' + ', '.join(ps) + ']'

    def piece(self):
        a = self.atom()
        c = self.peek()
        if c == '?':
            self.take(); return 'SRE.bounded (%s) 0 (some 1)' % a
        if c == '*':
            self.take(); return 'SRE.bounded (%s) 0 none' % a
        if c == '+':
            self.take(); return 'SRE.bounded (%s) 1 none' % a
        if c == '{':
            self.take()
            j = self.s.index('}', self.i)
            body = self.s[self.i:j]; self.i = j + 1
            if ',' in body:
                lo, hi = body.split(',')
                return 'SRE.bounded (%s) %d %s' % (a, int(lo), 'none' if hi == '' else '(some %d)' % int(hi))
            return 'SRE.bounded (%s) %d (some %d)' % (a, int(body), int(body))
        return a

    def atom(self):
        c = self.take()
        if c == '(':
            r = self.regexp()
            if self.take() != ')':
                raise ValueError('unbalanced (')
            return '(' + r + ')'
        if c == '[':
            neg, rs = self.chargroup()
            return cls(neg, rs)
        if c == '.':
            return cls(True, [(10, 10), (13, 13)])
        if c == '\\':
            e = self.take()
            st = esc_set(e)
            if st is not None:
                return cls(False, st)
            cp = SINGLE.get(e, ord(e))
            return cls(False, [(cp, cp)])
        if c in '?*+{}|)]':
            raise ValueError('unexpected %r' % c)
        return cls(False, [(ord(c), ord(c))])

    def chargroup(self):
        """after '[': returns (negated, ranges). A negated group is returned as the ranges of its
        positive part with negated=True (the complement is taken over all code points by the atom)."""
        neg = False
        if self.peek() == '^':
            self.take(); neg = True
        rs = []
        first = True
        while True:
            c = self.take()
            if c == ']' and not first:
                break
            first = False
            if c == '-' and self.peek() == '[':
                self.take()
                n2, sub = self.chargroup()
                sub = compl(sub) if n2 else sub
                pos = compl(rs) if neg else norm(rs)
                pos = subtract(pos, sub)
                if self.take() != ']':
                    raise ValueError('subtraction must end the group')
                return False, pos
            if c == '\\':
                e = self.take()
                st = esc_set(e)
                if st is not None:
                    rs += st
                    continue
                lo = SINGLE.get(e, ord(e))
            else:
                lo = ord(c)
            if self.peek() == '-' and self.i + 1 < len(self.s) and self.s[self.i + 1] not in '[]':
                self.take()
                d = self.take()
                if d == '\\':
                    d2 = self.take()
                    hi = SINGLE.get(d2, ord(d2))
                else:
                    hi = ord(d)
                rs.append((lo, hi))
            else:
                rs.append((lo, lo))
        return neg, norm(rs)


def cls(neg, rs):
    return 'SRE.cls %s [%s]' % ('true' if neg else 'false', ', '.join('(%d, %d)' % (a, b) for a, b in rs))


def to_lean(pattern):
    p = P(pattern)
    r = p.regexp()
    if p.i != len(pattern):
        raise ValueError('trailing input at %d in %r' % (p.i, pattern))
    return r


# XML Schema 1.1 Part 2, 3.3.9.2 (date lexical representation), written in the XSD regex syntax.
# The day-of-month rule (no 31 April, 30 February ...) is a value-space constraint outside this language.
XS_DATE = r'-?([1-9][0-9]{3,}|0[0-9]{3})-(0[1-9]|1[0-2])-(0[1-9]|[12][0-9]|3[01])(Z|(\+|-)((0[0-9]|1[0-3]):[0-5][0-9]|14:00))?'

if __name__ == '__main__':
    print(to_lean(sys.argv[1]))
