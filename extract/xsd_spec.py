#!/usr/bin/env python3
"""Translator, spec side: read the PINNED MusicXML 4.0 schema (/verif/spec/*.pinned.xsd) with
xml.etree only -- this file never imports musicxml -- and dump the same table shapes as
impl_tables.py: element declarations, content-model particles, attribute rows, simple types.

Run:  python3 xsd_spec.py OUT.json
"""
import sys, json, os, hashlib
import xml.etree.ElementTree as ET

HERE = os.path.dirname(os.path.abspath(__file__))
SPEC = os.path.join(os.path.dirname(HERE), 'spec')
XS = '{http://www.w3.org/2001/XMLSchema}'


def tag(n):
    return n.tag[len(XS):] if n.tag.startswith(XS) else n.tag


def occ(n):
    mi = int(n.get('minOccurs', '1'))
    ma = n.get('maxOccurs', '1')
    return mi, (None if ma == 'unbounded' else int(ma))


class Spec:
    def __init__(self):
        self.root = ET.parse(os.path.join(SPEC, 'musicxml_4_0.pinned.xsd')).getroot()
        self.xroot = ET.parse(os.path.join(SPEC, 'xml.pinned.xsd')).getroot()
        self.groups = {g.get('name'): g for g in self.root.findall(XS + 'group')}
        self.agroups = {g.get('name'): g for g in self.root.findall(XS + 'attributeGroup')}
        self.ctypes = {c.get('name'): c for c in self.root.findall(XS + 'complexType')}
        self.stypes = {c.get('name'): c for c in self.root.findall(XS + 'simpleType')}
        self.xstypes = {c.get('name'): c for c in self.xroot.findall(XS + 'simpleType')}
        self.xattrs = {c.get('name'): c for c in self.xroot.findall(XS + 'attribute')}

    # ---- particles ---------------------------------------------------------------------------
    def particle(self, n):
        t = tag(n)
        mi, ma = occ(n)
        if t == 'element':
            return {'k': 'e', 'name': n.get('name'), 'min': mi, 'max': ma}
        if t in ('sequence', 'choice'):
            return {'k': t[0], 'min': mi, 'max': ma,
                    'ps': [self.particle(c) for c in n if tag(c) in ('element', 'sequence', 'choice', 'group')]}
        if t == 'group':
            g = self.groups[n.get('ref')]
            inner = [c for c in g if tag(c) in ('sequence', 'choice')]
            return {'k': 'g', 'name': n.get('ref'), 'min': mi, 'max': ma, 'ps': [self.particle(inner[0])]}
        raise ValueError(t)

    def content_of(self, ct):
        for c in ct:
            t = tag(c)
            if t in ('sequence', 'choice', 'group'):
                return self.particle(c)
            if t == 'complexContent':
                ext = c[0]
                base = self.ctypes[ext.get('base')]
                bp = self.content_of(base)
                extra = [self.particle(x) for x in ext if tag(x) in ('sequence', 'choice', 'group')]
                if extra:
                    return {'k': 's', 'min': 1, 'max': 1, 'ps': [bp] + extra}
                return bp
        return None

    # ---- attributes --------------------------------------------------------------------------
    def attr_row(self, a):
        ref = a.get('ref')
        if ref:
            pfx, local = ref.split(':')
            if pfx == 'xml':
                # xml:lang / xml:space are declared in the W3C xml.xsd (http://www.w3.org/2001/xml.xsd),
                # which the library's trimmed xml.xsd does not contain; their declarations are fixed
                # by the XML namespace specification and are written out here (trusted base).
                ty = {'lang': 'xs:language', 'space': 'inline:xs:NCName:default|preserve'}[local]
                return {'name': local, 'qname': ref, 'type': ty, 'required': a.get('use') == 'required'}
            # xlink:* -- declared in an external schema not shipped with the library
            return {'name': local, 'qname': ref, 'type': 'external:' + ref, 'required': a.get('use') == 'required'}
        return {'name': a.get('name'), 'qname': a.get('name'), 'type': a.get('type'),
                'required': a.get('use') == 'required'}

    def attrs_of_children(self, node):
        rows = []
        for c in node:
            t = tag(c)
            if t == 'attribute':
                rows.append(self.attr_row(c))
            elif t == 'attributeGroup':
                rows.extend(self.attrs_of_children(self.agroups[c.get('ref')]))
        return rows

    def attrs_of(self, ct):
        sc = ct.find(XS + 'simpleContent')
        cc = ct.find(XS + 'complexContent')
        if sc is not None:
            ext = sc[0]
            rows = self.attrs_of_children(ext)
            b = ext.get('base')
            if b in self.ctypes:   # simpleContent extension of a complex type with simple content
                rows = self.attrs_of(self.ctypes[b])[0] + rows
            return rows, b
        if cc is not None:
            ext = cc[0]
            base = self.ctypes[ext.get('base')]
            return self.attrs_of(base)[0] + self.attrs_of_children(ext), None
        return self.attrs_of_children(ct), None

    # ---- simple types -------------------------------------------------------------------------
    def simple(self, st):
        r = st.find(XS + 'restriction')
        u = st.find(XS + 'union')
        row = {'name': st.get('name'), 'base': None, 'facets': [], 'union_members': [], 'inline_enum': []}
        if r is not None:
            row['base'] = r.get('base')
            row['facets'] = [[tag(c), c.get('value')] for c in r if tag(c) != 'annotation']
        if u is not None:
            row['union_members'] = (u.get('memberTypes') or '').split()
            for ist in u.findall(XS + 'simpleType'):
                rr = ist.find(XS + 'restriction')
                row['inline_enum'] += [e.get('value') for e in rr.findall(XS + 'enumeration')]
        return row


def main(out_path):
    S = Spec()
    out = {}
    # all element declarations: name -> list of declared types (or 'anonymous')
    decls = {}
    n_decl = 0
    for e in S.root.iter(XS + 'element'):
        nm = e.get('name')
        if not nm:
            continue
        n_decl += 1
        ty = e.get('type')
        if ty is None:
            ty = 'anonymous' if e.find(XS + 'complexType') is not None else 'none'
        decls.setdefault(nm, [])
        if ty not in decls[nm]:
            decls[nm].append(ty)
    # the timewise half of the schema is not translated by the library (partwise only):
    tw = S.root.find(XS + "element[@name='score-timewise']")
    out['n_declarations'] = n_decl
    out['element_decls'] = decls
    # content models
    models = {}
    for n, ct in S.ctypes.items():
        p = S.content_of(ct)
        if p:
            models[n] = p
    sp = S.root.find(XS + "element[@name='score-partwise']")
    ct = sp.find(XS + 'complexType')
    models['@score-partwise'] = S.content_of(ct)
    pt = ct.find('.//' + XS + "element[@name='part']/" + XS + 'complexType')
    models['@part'] = S.content_of(pt)
    ms = pt.find('.//' + XS + "element[@name='measure']/" + XS + 'complexType')
    models['@measure'] = S.content_of(ms)
    out['models'] = models
    anon = {'@score-partwise': ct, '@part': pt, '@measure': ms}
    dv = S.ctypes['attributes'].find('.//' + XS + "element[@name='directive']/" + XS + 'complexType')
    anon['@directive'] = dv
    # attribute tables + simple content base
    ctab = {}
    for n, c in list(S.ctypes.items()) + list(anon.items()):
        rows, base = S.attrs_of(c)
        ctab[n] = {'rows': rows, 'simple_base': base, 'has_model': n in models}
    out['complex_types'] = ctab
    out['attr_groups'] = {n: S.attrs_of_children(g) for n, g in S.agroups.items()}
    out['model_groups'] = {n: S.particle(ET.fromstring(
        '<xs:group xmlns:xs="http://www.w3.org/2001/XMLSchema" ref="%s"/>' % n)) for n in S.groups}
    out['simple_types'] = {n: S.simple(st) for n, st in S.stypes.items()}
    out['xml_simple_types'] = {n: S.simple(st) for n, st in S.xstypes.items()}
    out['schema_files'] = {
        'musicxml_4_0.xsd': hashlib.sha256(open(os.path.join(SPEC, 'musicxml_4_0.pinned.xsd'), 'rb').read()).hexdigest(),
        'xml.xsd': hashlib.sha256(open(os.path.join(SPEC, 'xml.pinned.xsd'), 'rb').read()).hexdigest()}
    json.dump(out, open(out_path, 'w'), indent=0, sort_keys=True)


if __name__ == '__main__':
    main(sys.argv[1])
