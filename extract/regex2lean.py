"""Translate a Python `re` pattern (as the library hands it to re.compile(...).fullmatch) into a
Lean term of type `SRE` (MxV/Core/SRE.lean; `SRE.toREc` gives the `RE Char` the validator model runs). Only the constructs that occur in the
library's patterns are supported; anything else raises, which the caller reports as an
unrecognised shape."""
import re, sys, unicodedata
try:
    import re._parser as sp
    import re._constants as sc
except ImportError:  # pragma: no cover
    import sre_parse as sp, sre_constants as sc

_ND = None


def nd_ranges():
    global _ND
    if _ND is None:
        out = []
        start = None
        for c in range(0x110000):
            d = chr(c).isdecimal()
            if d and start is None:
                start = c
            if not d and start is not None:
                out.append((start, c - 1)); start = None
        _ND = out
    return _ND


_CAT = {}


def cat_ranges(letter):
    """code points matching \\s / \\w / \\d for str patterns, read off the interpreter's own `re` (trusted)"""
    if letter not in _CAT:
        rx = re.compile('\\' + letter)
        out, start = [], None
        for c in range(0x110000):
            m = rx.fullmatch(chr(c)) is not None
            if m and start is None:
                start = c
            if not m and start is not None:
                out.append((start, c - 1)); start = None
        if start is not None:
            out.append((start, 0x10FFFF))
        _CAT[letter] = out
    return _CAT[letter]


def compl(rs):
    out, prev = [], 0
    for a, b in sorted(rs):
        if a > prev:
            out.append((prev, a - 1))
        prev = max(prev, b + 1)
    if prev <= 0x10FFFF:
        out.append((prev, 0x10FFFF))
    return out


CATEGORY = {'CATEGORY_DIGIT': lambda: nd_ranges(), 'CATEGORY_SPACE': lambda: cat_ranges('s'), 'CATEGORY_WORD': lambda: cat_ranges('w'),
            'CATEGORY_NOT_DIGIT': lambda: compl(nd_ranges()), 'CATEGORY_NOT_SPACE': lambda: compl(cat_ranges('s')),
            'CATEGORY_NOT_WORD': lambda: compl(cat_ranges('w'))}


def rng(l):
    return '[' + ', '.join('(%d, %d)' % (a, b) for a, b in l) + ']'


def conv_items(items):
    parts = [conv_item(op, arg) for op, arg in items]
    if not parts:
        return 'SRE.eps'
    if len(parts) == 1:
        return parts[0]
    return 'SRE.seqs [' + ', '.join(parts) + ']'


def conv_item(op, arg):
    name = str(op)
    if name == 'LITERAL':
        return 'SRE.cls false %s' % rng([(arg, arg)])
    if name == 'NOT_LITERAL':
        return 'SRE.cls true %s' % rng([(arg, arg)])
    if name == 'ANY':
        return 'SRE.cls true %s' % rng([(10, 10)])
    if name == 'IN':
        neg = False
        rs = []
        for o, a in arg:
            on = str(o)
            if on == 'NEGATE':
                neg = True
            elif on == 'LITERAL':
                rs.append((a, a))
            elif on == 'RANGE':
                rs.append((a[0], a[1]))
            elif on == 'CATEGORY' and str(a) in CATEGORY:
                rs.extend(CATEGORY[str(a)]())
            else:
                raise ValueError('unsupported class item %s %s' % (o, a))
        return ('SRE.cls true %s' if neg else 'SRE.cls false %s') % rng(rs)
    if name == 'BRANCH':
        return 'SRE.alts [' + ', '.join(conv_items(b) for b in arg[1]) + ']'
    if name == 'SUBPATTERN':
        return '(' + conv_items(arg[3]) + ')'
    if name in ('MAX_REPEAT', 'MIN_REPEAT'):
        lo, hi, sub = arg
        hi_s = 'none' if hi == sc.MAXREPEAT else '(some %d)' % hi
        return 'SRE.bounded (%s) %d %s' % (conv_items(sub), lo, hi_s)
    if name == 'AT':
        if str(arg) in ('AT_BEGINNING', 'AT_END', 'AT_BEGINNING_STRING', 'AT_END_STRING'):
            # note: under fullmatch ^ and $ at the two ends are no-ops ($ also admits a final \n,
            # which fullmatch then cannot consume: no difference)
            return 'SRE.eps'
        raise ValueError('unsupported anchor %s' % arg)
    if name == 'CATEGORY':
        if str(arg) in CATEGORY:
            return 'SRE.cls false %s' % rng(CATEGORY[str(arg)]())
    raise ValueError('unsupported regex construct %s %r' % (op, arg))


def to_lean(pattern):
    return conv_items(list(sp.parse(pattern)))


if __name__ == '__main__':
    print(to_lean(sys.argv[1]))
