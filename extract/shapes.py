#!/venv/bin/python
"""Translator for the few functions whose *order of effects* is the property (C17, C20):
AST -> tiny IR -> lean/MxV/Gen/Shapes.lean. An AST shape that is not recognised is emitted as
`.unknown`, which makes the shape theorems fail (never guessed at).

usage: shapes.py <repo> <out.json> <out.lean>"""
import ast, sys, os, json


def src(repo, rel):
    return open(os.path.join(repo, rel), encoding='utf-8').read()


def find_func(tree, clsname, fname):
    for n in ast.walk(tree):
        if isinstance(n, ast.ClassDef) and n.name == clsname:
            for m in n.body:
                if isinstance(m, ast.FunctionDef) and m.name == fname:
                    return m
    return None


def calls_to_string(node):
    return any(isinstance(c, ast.Call) and isinstance(c.func, ast.Attribute) and c.func.attr == 'to_string'
               for c in ast.walk(node))


class Consts:
    """string constants a name can be resolved to: module-level `NAME = 'lit'` and class-body `X = 'lit'`
    bindings that are assigned exactly once in the module and never written through an attribute"""
    def __init__(self, module):
        self.mod = {}
        self.cls = {}
        bad = set()
        if module is None:
            return
        for st in module.body:
            if isinstance(st, ast.Assign) and len(st.targets) == 1 and isinstance(st.targets[0], ast.Name):
                n = st.targets[0].id
                if n in self.mod or n in bad:
                    bad.add(n); self.mod.pop(n, None)
                elif isinstance(st.value, ast.Constant) and isinstance(st.value.value, str):
                    self.mod[n] = st.value.value
                else:
                    bad.add(n)
        for c in ast.walk(module):
            if isinstance(c, ast.ClassDef):
                for st in c.body:
                    if isinstance(st, ast.Assign) and len(st.targets) == 1 and isinstance(st.targets[0], ast.Name) \
                            and isinstance(st.value, ast.Constant) and isinstance(st.value.value, str):
                        n = st.targets[0].id
                        if n in self.cls and self.cls[n] != st.value.value:
                            self.cls[n] = None       # defined differently in two classes: not resolvable by name alone
                        elif n not in self.cls:
                            self.cls[n] = st.value.value
        # any write `something.X = ...` or `global X` rebinding disqualifies X
        for n in ast.walk(module):
            if isinstance(n, (ast.Assign, ast.AugAssign)):
                for t in (n.targets if isinstance(n, ast.Assign) else [n.target]):
                    if isinstance(t, ast.Attribute):
                        self.cls[t.attr] = None
            if isinstance(n, ast.Global):
                for g in n.names:
                    self.mod.pop(g, None)

    def resolve(self, e):
        """the string an expression certainly evaluates to, else None"""
        if isinstance(e, ast.Constant) and isinstance(e.value, str):
            return e.value
        if isinstance(e, ast.Name):
            return self.mod.get(e.id)
        if isinstance(e, ast.Attribute) and isinstance(e.value, ast.Name):
            return self.cls.get(e.attr)
        return None


def open_info(call, consts=None):
    mode = 'r'
    enc = None
    def const(e):
        if isinstance(e, ast.Constant):
            return e.value
        return consts.resolve(e) if consts is not None else None
    if len(call.args) >= 2:
        m = const(call.args[1])
        mode = m if m is not None else '?'
    for kw in call.keywords:
        if kw.arg == 'mode':
            m = const(kw.value)
            mode = m if m is not None else '?'
        if kw.arg == 'encoding':
            v = const(kw.value)
            enc = v if v is not None else '?'
    return mode, enc


def is_open_call(c):
    return isinstance(c, ast.Call) and ((isinstance(c.func, ast.Name) and c.func.id == 'open') or
                                        (isinstance(c.func, ast.Attribute) and c.func.attr == 'open'))


def write_prog(fn, consts=None):
    """effects of XMLScorePartwise.write in program order, by a small symbolic evaluation: a local is bound to a
    string literal (LIT), to the serialised document (CONTENT: the value of a `to_string(...)` call), or to a
    tuple / list of those; `f.write(x)`, `f.writelines(xs)` and `for c in xs: f.write(c)` are unrolled.
    Anything that may raise or compute between `open` and the last write is reported, never guessed at."""
    effs = []
    env = {}

    def value(e, in_file):
        """symbolic value of an expression: ('lit', s) | ('content',) | ('seq', [...]) | None; records `compute`"""
        lit = consts.resolve(e) if consts is not None else (e.value if isinstance(e, ast.Constant) and isinstance(e.value, str) else None)
        if lit is not None:
            return ('lit', lit)
        if isinstance(e, ast.Name) and e.id in env:
            return env[e.id]
        if isinstance(e, ast.Call) and isinstance(e.func, ast.Attribute) and e.func.attr == 'to_string':
            effs.append(('writeCompute',) if in_file else ('compute',))
            return ('content',)
        if isinstance(e, (ast.Tuple, ast.List)):
            vs = [value(x, in_file) for x in e.elts]
            return ('seq', vs) if all(v is not None for v in vs) else None
        if isinstance(e, ast.BinOp) and isinstance(e.op, ast.Add):
            l, r = value(e.left, in_file), value(e.right, in_file)
            if l is not None and r is not None:
                return ('seq', [l, r])
            return None
        if isinstance(e, ast.JoinedStr):
            vs = []
            for part in e.values:
                if isinstance(part, ast.Constant):
                    vs.append(('lit', part.value))
                elif isinstance(part, ast.FormattedValue) and part.conversion == -1 and part.format_spec is None:
                    v = value(part.value, in_file)
                    if v is None:
                        return None
                    vs.append(v)
                else:
                    return None
            return ('seq', vs)
        return None

    def emit(v):
        if v is None:
            effs.append(('unknown', 'write of a value that is not a literal / the serialised document'))
        elif v[0] == 'lit':
            if v[1] != '':
                effs.append(('writeLit', v[1]))
        elif v[0] == 'content':
            effs.append(('writeContent',))
        else:
            for x in v[1]:
                emit(x)

    def stmt(s, fvars):
        if isinstance(s, ast.Expr) and isinstance(s.value, ast.Constant):
            return  # docstring
        if isinstance(s, ast.Pass):
            return
        if isinstance(s, ast.Assign) and all(isinstance(t, ast.Name) for t in s.targets):
            v = value(s.value, bool(fvars))
            if v is None:
                effs.append(('unknown', 'local bound to ' + ast.dump(s.value)[:60]))
            for t in s.targets:
                env[t.id] = v
            return
        if isinstance(s, ast.With):
            names = set(fvars)
            for item in s.items:
                if is_open_call(item.context_expr):
                    mode, enc = open_info(item.context_expr, consts)
                    if 'w' in mode or 'a' in mode or '+' in mode or 'x' in mode or mode == '?':
                        effs.append(('openTrunc' if 'w' in mode else 'openOther', 'b' in mode, enc))
                    else:
                        effs.append(('openRead',))
                    if isinstance(item.optional_vars, ast.Name):
                        names.add(item.optional_vars.id)
                else:
                    effs.append(('unknown', ast.dump(item.context_expr)[:80]))
            for b in s.body:
                stmt(b, names)
            effs.append(('close',))
            return
        if isinstance(s, ast.Expr) and isinstance(s.value, ast.Call) and isinstance(s.value.func, ast.Attribute) \
                and isinstance(s.value.func.value, ast.Name) and s.value.func.value.id in fvars and len(s.value.args) == 1:
            if s.value.func.attr == 'write':
                emit(value(s.value.args[0], True))
                return
            if s.value.func.attr == 'writelines':
                v = value(s.value.args[0], True)
                emit(v if v is not None and v[0] == 'seq' else None)
                return
        if isinstance(s, ast.For) and isinstance(s.target, ast.Name) and not s.orelse:
            v = value(s.iter, bool(fvars))
            if v is not None and v[0] == 'seq':
                for x in v[1]:
                    env[s.target.id] = x
                    for b in s.body:
                        stmt(b, fvars)
                return
        effs.append(('unknown', ast.dump(s)[:80]))

    for s in fn.body:
        stmt(s, set())
    return effs


def lazy_prog(fn, cell='_XSD_ATTRIBUTES', module=None):
    """The lazily filled class-level table, normalised to the abstract program the thread model runs:
        ifNone; newLocal; appendLocal*; publishLocal; endIf; retShared
    ("work on local objects only, publish the finished object with ONE assignment, never touch the
    published object again"). The analysis is semantic enough to survive ordinary refactorings
    (guard clause instead of an enclosing `if`, helper calls, re-assigned locals, nested control
    flow) and reports anything else as `unknown`:
      * the shared cell may be read only in the None test and in `return cell`;
      * it is written exactly once, with a local name that was bound in this call to an expression that does
        not mention the cell;
      * nothing is mutated after that assignment; no in-place mutation of the cell anywhere;
      * no other function of the module writes or mutates the cell (class-body initialisers aside)."""
    if fn is None:
        return [('unknown', 'function not found')]

    def is_cell(n):
        return isinstance(n, ast.Attribute) and n.attr == cell

    def mentions_cell(n):
        return any(is_cell(x) for x in ast.walk(n))

    def none_test(t):
        """'is' / 'isnot' for `cell is None` / `cell is not None`, else None"""
        if isinstance(t, ast.Compare) and is_cell(t.left) and len(t.ops) == 1 and \
                isinstance(t.comparators[0], ast.Constant) and t.comparators[0].value is None:
            return 'is' if isinstance(t.ops[0], ast.Is) else 'isnot' if isinstance(t.ops[0], ast.IsNot) else None
        return None

    body = [st for st in fn.body if not (isinstance(st, ast.Expr) and isinstance(st.value, ast.Constant))]
    fill = None
    if len(body) == 2 and isinstance(body[0], ast.If) and none_test(body[0].test) == 'is' and not body[0].orelse \
            and isinstance(body[1], ast.Return) and is_cell(body[1].value):
        fill = body[0].body                                   # if cell is None: FILL ; return cell
    elif len(body) >= 3 and isinstance(body[0], ast.If) and none_test(body[0].test) == 'isnot' and not body[0].orelse \
            and len(body[0].body) == 1 and isinstance(body[0].body[0], ast.Return) and is_cell(body[0].body[0].value) \
            and isinstance(body[-1], ast.Return) and is_cell(body[-1].value):
        fill = body[1:-1]                                     # if cell is not None: return cell ; FILL ; return cell
    if fill is None:
        return [('unknown', 'not a lazily filled table: expected `if cell is None: ...; return cell` or the guard-clause form')]

    MUT = {'append', 'extend', 'insert', 'remove', 'pop', 'clear', 'sort', 'reverse', 'update', 'add', 'discard', 'setdefault'}
    prog = [('ifNone',)]
    local_work = 0
    published = [False]
    locals_ = set()

    def simple(st):
        nonlocal local_work
        if isinstance(st, ast.Assign) and len(st.targets) == 1 and is_cell(st.targets[0]):
            v = st.value
            if published[0]:
                prog.append(('unknown', 'second assignment to the shared cell'))
            elif isinstance(v, ast.Name) and v.id in locals_:
                published[0] = True
                prog.append(('publishLocal',))
            elif isinstance(v, (ast.List, ast.Dict, ast.Set)) and not getattr(v, 'elts', getattr(v, 'keys', [])):
                published[0] = True
                prog.append(('publishEmpty',))
            else:
                prog.append(('unknown', 'assignment to the shared cell: ' + ast.dump(v)[:60]))
            return
        if isinstance(st, (ast.Assign, ast.AugAssign, ast.AnnAssign)):
            tgts = st.targets if isinstance(st, ast.Assign) else [st.target]
            val = st.value
            if any(mentions_cell(t) for t in tgts):
                prog.append(('appendShared',) if isinstance(st, ast.AugAssign) else ('unknown', 'write through the shared cell'))
                return
            if val is not None and mentions_cell(val):
                prog.append(('unknown', 'a local is bound to (an expression of) the shared cell'))
                return
            for t in tgts:
                for n in ast.walk(t):
                    if isinstance(n, ast.Name):
                        locals_.add(n.id)
            if published[0]:
                prog.append(('unknown', 'work after the table was published'))
            else:
                local_work += 1
            return
        if isinstance(st, ast.Expr) and isinstance(st.value, ast.Call) and isinstance(st.value.func, ast.Attribute) \
                and st.value.func.attr in MUT:
            obj = st.value.func.value
            if mentions_cell(obj):
                prog.append(('appendShared',))
            elif mentions_cell(st.value):
                prog.append(('unknown', 'the shared cell is passed to a mutating call'))
            elif published[0]:
                prog.append(('unknown', 'mutation after the table was published'))
            else:
                local_work += 1
            return
        if isinstance(st, (ast.Pass, ast.Continue, ast.Break)):
            return
        if isinstance(st, ast.Return):
            prog.append(('unknown', 'return inside the filling part'))
            return
        if mentions_cell(st):
            prog.append(('unknown', 'the shared cell is used while it is being filled: ' + ast.dump(st)[:60]))
            return
        if published[0] and not (isinstance(st, ast.Expr) and isinstance(st.value, ast.Constant)):
            prog.append(('unknown', 'work after the table was published'))

    def walk(stmts):
        for st in stmts:
            if isinstance(st, (ast.If, ast.While)):
                if mentions_cell(st.test):
                    prog.append(('unknown', 'the shared cell is tested while it is being filled'))
                walk(st.body); walk(st.orelse)
            elif isinstance(st, ast.For):
                if mentions_cell(st.iter):
                    prog.append(('unknown', 'iteration over the shared cell'))
                for n in ast.walk(st.target):
                    if isinstance(n, ast.Name):
                        locals_.add(n.id)
                walk(st.body); walk(st.orelse)
            elif isinstance(st, ast.Try):
                walk(st.body)
                for h in st.handlers:
                    walk(h.body)
                walk(st.orelse); walk(st.finalbody)
            elif isinstance(st, ast.With):
                walk(st.body)
            else:
                simple(st)

    walk(fill)
    # normal form: all local work before the single publishing assignment
    out = [('ifNone',)]
    rest = prog[1:]
    if local_work:
        out.append(('newLocal',))
        out += [('appendLocal',)] * (local_work - 1)
    out += rest
    out += [('endIf',), ('retShared',)]
    # the cell must not be touched by any other function of the module (a helper that hands the shared
    # list out, writes it or mutates it would defeat the analysis above)
    if module is not None:
        for other in ast.walk(module):
            if isinstance(other, ast.FunctionDef) and other is not fn and mentions_cell(other):
                out.append(('unknown', 'the shared cell is also used in %s' % other.name))
    return out


def class_level_writes(repo):
    """assignments to class attributes through `cls.` / `ClassName.` inside functions of the runtime
    modules (candidates for shared lazily initialised state)"""
    out = []
    for rel in RUNTIME:
        tree = ast.parse(src(repo, rel))
        for fn in ast.walk(tree):
            if isinstance(fn, (ast.FunctionDef,)):
                for n in ast.walk(fn):
                    if isinstance(n, (ast.Assign, ast.AugAssign)):
                        tgs = n.targets if isinstance(n, ast.Assign) else [n.target]
                        for t in tgs:
                            if isinstance(t, ast.Attribute) and isinstance(t.value, ast.Name) and t.value.id == 'cls':
                                out.append((rel, n.lineno, fn.name, t.attr))
                            # self.__class__.X = ... / type(self).X = ... / SomeClass.X = ...
                            if isinstance(t, ast.Attribute):
                                v = t.value
                                via_class = (isinstance(v, ast.Attribute) and v.attr == '__class__') or (
                                    isinstance(v, ast.Call) and isinstance(v.func, ast.Name) and v.func.id == 'type') or (
                                    isinstance(v, ast.Name) and v.id[:1].isupper() and v.id not in ('ET',))
                                if via_class:
                                    out.append((rel, n.lineno, fn.name, t.attr))
                            if isinstance(t, ast.Subscript) and isinstance(t.value, ast.Attribute) and \
                                    isinstance(t.value.value, ast.Name) and t.value.value.id in ('cls',):
                                out.append((rel, n.lineno, fn.name, t.value.attr + '[]'))
    return out


SHARED_OBJECT_CLASSES = [('musicxml/xsd/xsdattribute.py', 'XSDAttribute'), ('musicxml/xsd/xsdtree.py', 'XSDTree')]


def provisional_publications(repo):
    """Objects of these classes hang off class-level tables and are therefore shared by all threads; their lazily
    cached fields must be written with the *final* value in one assignment. Reported: (file, class, function, field)
    where some path through the function assigns `self.<field>` more than once (a provisional value would be visible
    to another thread between the two assignments)."""
    from collections import Counter

    def cmax(a, b):
        if a is None:
            return b
        if b is None:
            return a
        return Counter({k: max(a.get(k, 0), b.get(k, 0)) for k in set(a) | set(b)})

    def cadd(a, b):
        return Counter({k: a.get(k, 0) + b.get(k, 0) for k in set(a) | set(b)})

    def step(st):
        """(assignments on the paths that fall through, or None when none does; on the paths that return / raise inside, or None)"""
        if isinstance(st, (ast.Assign, ast.AugAssign, ast.AnnAssign)):
            c = Counter()
            tg = st.targets if isinstance(st, ast.Assign) else [st.target]
            for t in tg:
                for n in (t.elts if isinstance(t, (ast.Tuple, ast.List)) else [t]):
                    if isinstance(n, ast.Attribute) and isinstance(n.value, ast.Name) and n.value.id == 'self':
                        c[n.attr] += 1
            return c, None
        if isinstance(st, (ast.Return, ast.Raise)):
            return None, Counter()
        if isinstance(st, ast.If):
            f1, t1 = analyse(st.body)
            f2, t2 = analyse(st.orelse)
            return cmax(f1, f2), cmax(t1, t2)
        if isinstance(st, (ast.For, ast.While)):
            f, t = analyse(st.body)
            f = f if f is not None else Counter()
            return cadd(f, f), (cadd(f, t) if t is not None else None)      # a loop body may run twice
        if isinstance(st, ast.Try):
            f, t = analyse(st.body)
            for h in st.handlers:
                fh, th = analyse(h.body)
                f, t = cmax(f, fh), cmax(t, th)
            fo, to = analyse(st.orelse)
            if fo is not None and f is not None:
                f = cadd(f, fo)
            t = cmax(t, to)
            ff, tf = analyse(st.finalbody)
            if ff is not None and f is not None:
                f = cadd(f, ff)
            return f, t
        if isinstance(st, ast.With):
            return analyse(st.body)
        return Counter(), None

    def analyse(stmts):
        cur, term = Counter(), None
        for st in stmts:
            f, t = step(st)
            if t is not None:
                term = cmax(term, cadd(cur, t))
            if f is None:
                return None, term
            cur = cadd(cur, f)
        return cur, term

    def counts(stmts):
        f, t = analyse(stmts)
        return cmax(f, t) or Counter()

    out = []
    for rel, cname in SHARED_OBJECT_CLASSES:
        tree = ast.parse(src(repo, rel))
        for c in ast.walk(tree):
            if isinstance(c, ast.ClassDef) and c.name == cname:
                for f in c.body:
                    if isinstance(f, ast.FunctionDef) and f.name != '__init__':
                        for k, v in sorted(counts(f.body).items()):
                            if v >= 2:
                                out.append((rel, cname, f.name, k))
    return out


def class_mutables(repo):
    """class-body attributes initialised with a mutable container (candidates for state shared by all
    instances / all threads), outside the generated element/type classes' docstring-only bodies"""
    out = []
    for rel in RUNTIME:
        tree = ast.parse(src(repo, rel))
        for c in ast.walk(tree):
            if isinstance(c, ast.ClassDef):
                for st in c.body:
                    tgt = None
                    val = None
                    if isinstance(st, ast.Assign) and len(st.targets) == 1 and isinstance(st.targets[0], ast.Name):
                        tgt, val = st.targets[0].id, st.value
                    elif isinstance(st, ast.AnnAssign) and isinstance(st.target, ast.Name) and st.value is not None:
                        tgt, val = st.target.id, st.value
                    if tgt is None:
                        continue
                    mutable = isinstance(val, (ast.Dict, ast.List, ast.Set, ast.ListComp, ast.DictComp, ast.SetComp)) or (
                        isinstance(val, ast.Call) and isinstance(val.func, ast.Name) and val.func.id in (
                            'dict', 'list', 'set', 'defaultdict', 'OrderedDict', 'WeakValueDictionary'))
                    if mutable:
                        out.append((rel, c.name, tgt))
    return out


RUNTIME = ['musicxml/xmlelement/xmlelement.py', 'musicxml/xmlelement/xmlchildcontainer.py', 'musicxml/xmlelement/containers.py',
           'musicxml/xsd/xsdcomplextype.py', 'musicxml/xsd/xsdattribute.py', 'musicxml/xsd/xsdsimpletype.py',
           'musicxml/xsd/xsdtree.py', 'musicxml/xsd/xsdindicator.py', 'musicxml/xsd/xsdelement.py',
           'musicxml/parser/parser.py', 'musicxml/util/core.py', 'musicxml/generate_classes/utils.py']


def open_sites(repo):
    sites = []
    for rel in RUNTIME:
        tree = ast.parse(src(repo, rel))
        consts = Consts(tree)
        for n in ast.walk(tree):
            if is_open_call(n):
                mode, enc = open_info(n, consts)
                sites.append({'file': rel, 'line': n.lineno, 'mode': mode, 'encoding': enc})
            if isinstance(n, ast.Call) and isinstance(n.func, ast.Attribute) and n.func.attr in ('read_text', 'write_text'):
                enc = None
                for kw in n.keywords:
                    if kw.arg == 'encoding':
                        v = consts.resolve(kw.value)
                        enc = v if v is not None else '?'
                sites.append({'file': rel, 'line': n.lineno, 'mode': 'r' if n.func.attr == 'read_text' else 'w', 'encoding': enc})
    return sites


def lean_str(s):
    return '"' + s.replace('\\', '\\\\').replace('"', '\\"').replace('\n', '\\n') + '"'


def main(repo, out_json, out_lean):
    xe = ast.parse(src(repo, 'musicxml/xmlelement/xmlelement.py'))
    wfn = find_func(xe, 'XMLScorePartwise', 'write')
    wp = write_prog(wfn, Consts(xe)) if wfn else [('unknown', 'write not found')]
    ct = ast.parse(src(repo, 'musicxml/xsd/xsdcomplextype.py'))
    at = ast.parse(src(repo, 'musicxml/xsd/xsdattribute.py'))
    lp1 = lazy_prog(find_func(ct, 'XSDComplexType', 'get_xsd_attributes'), module=ct)
    lp2 = lazy_prog(find_func(at, 'XSDAttributeGroup', 'get_xsd_attributes'), module=at)
    sites = open_sites(repo)
    clsw = class_level_writes(repo)
    cmut = class_mutables(repo)
    prov = provisional_publications(repo)
    data = {'provisional_publications': prov, 'write_prog': wp, 'lazy_complex': lp1, 'lazy_group': lp2, 'open_sites': sites, 'class_level_writes': clsw, 'class_mutables': cmut}
    json.dump(data, open(out_json, 'w'), indent=1)

    def eff(e):
        k = e[0]
        if k == 'compute':
            return '.compute'
        if k == 'openTrunc':
            return '.openTrunc %s %s' % ('true' if e[1] else 'false', 'none' if e[2] is None else '(some %s)' % lean_str(str(e[2])))
        if k == 'writeLit':
            return '.writeLit %s' % lean_str(e[1])
        if k == 'writeContent':
            return '.writeContent'
        if k == 'writeCompute':
            return '.writeCompute'
        if k == 'close':
            return '.close'
        return '.unknown'

    def lz(e):
        return {'ifNone': '.ifNone', 'endIf': '.endIf', 'publishEmpty': '.publishEmpty', 'publishLocal': '.publishLocal',
                'newLocal': '.newLocal', 'appendShared': '.appendShared', 'appendLocal': '.appendLocal',
                'retShared': '.retShared'}.get(e[0], '.unknown')

    known_cells = {'_XSD_ATTRIBUTES', 'XSD_TREE', '_XSD_TREE'}
    L = ['import MxV.Model.Shapes', '/-! GENERATED by extract/shapes.py from the AST of /repo. -/', 'namespace Gen', 'open Shapes',
         'def writeProg : List Eff := [' + ', '.join(eff(e) for e in wp) + ']',
         'def lazyComplex : List LStmt := [' + ', '.join(lz(e) for e in lp1) + ']',
         'def lazyGroup : List LStmt := [' + ', '.join(lz(e) for e in lp2) + ']',
         'def openSites : List OpenSite := [' + ', '.join(
             '⟨%s, %d, %s, %s⟩' % (lean_str(s['file']), s['line'], 'true' if 'b' in s['mode'] else 'false',
                                   'none' if s['encoding'] is None else '(some %s)' % lean_str(str(s['encoding'])))
             for s in sites) + ']',
         '/-- class-level cells written after import (file, line, function, attribute) -/',
         'def classCells : List (String × Nat × String × String) := [' + ', '.join(
             '(%s, %d, %s, %s)' % (lean_str(a), b, lean_str(c), lean_str(d)) for a, b, c, d in clsw) + ']',
         '/-- class-body attributes initialised with a mutable container (file, class, attribute) -/',
         'def classMutables : List (String × String × String) := [' + ', '.join(
             '(%s, %s, %s)' % (lean_str(a), lean_str(b), lean_str(c)) for a, b, c in cmut) + ']',
         '/-- fields of objects shared through class-level tables that some function assigns twice on one path (file, class, function, field) -/',
         'def provisionalPublications : List (String × String × String × String) := [' + ', '.join(
             '(%s, %s, %s, %s)' % (lean_str(a), lean_str(b), lean_str(c), lean_str(d)) for a, b, c, d in prov) + ']',
         'end Gen', '']
    text = '\n'.join(L)
    try:
        if open(out_lean).read() == text:
            print('shapes: unchanged')
            return
    except FileNotFoundError:
        pass
    open(out_lean, 'w').write(text)
    print('shapes: regenerated')


if __name__ == '__main__':
    main(*sys.argv[1:4])
