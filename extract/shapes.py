#!/venv/bin/python
"""Translator for the few functions whose *order of effects* is the property (C17, C20):
AST -> tiny IR -> lean/MxV/Gen/Shapes.lean. An AST shape that is not recognised is emitted as
`.unknown`, which makes the shape theorems fail (never guessed at).

usage: shapes.py <repo> <out.json> <out.lean>"""
import ast, sys, os, json


def src(repo, rel):
    return open(os.path.join(repo, rel), encoding='utf-8').read()


def find_func(tree, clsname, fname):
    for n in ast.walk(tree):
        if isinstance(n, ast.ClassDef) and n.name == clsname:
            for m in n.body:
                if isinstance(m, ast.FunctionDef) and m.name == fname:
                    return m
    return None


def calls_to_string(node):
    return any(isinstance(c, ast.Call) and isinstance(c.func, ast.Attribute) and c.func.attr == 'to_string'
               for c in ast.walk(node))


def open_info(call):
    mode = 'r'
    enc = None
    if len(call.args) >= 2 and isinstance(call.args[1], ast.Constant):
        mode = call.args[1].value
    for kw in call.keywords:
        if kw.arg == 'mode' and isinstance(kw.value, ast.Constant):
            mode = kw.value.value
        if kw.arg == 'encoding':
            enc = kw.value.value if isinstance(kw.value, ast.Constant) else '?'
    return mode, enc


def is_open_call(c):
    return isinstance(c, ast.Call) and ((isinstance(c.func, ast.Name) and c.func.id == 'open') or
                                        (isinstance(c.func, ast.Attribute) and c.func.attr == 'open'))


def write_prog(fn):
    """effects of XMLScorePartwise.write in program order"""
    effs = []
    content_vars = set()

    def stmt(s):
        if isinstance(s, ast.Expr) and isinstance(s.value, ast.Constant):
            return  # docstring
        if isinstance(s, ast.Assign) and calls_to_string(s.value) and all(isinstance(t, ast.Name) for t in s.targets):
            for t in s.targets:
                content_vars.add(t.id)
            effs.append(('compute',))
            return
        if isinstance(s, ast.With):
            for item in s.items:
                if is_open_call(item.context_expr):
                    mode, enc = open_info(item.context_expr)
                    if 'w' in mode or 'a' in mode or '+' in mode or 'x' in mode:
                        effs.append(('openTrunc' if 'w' in mode else 'openOther', 'b' in mode, enc))
                    else:
                        effs.append(('openRead',))
                else:
                    effs.append(('unknown', ast.dump(item.context_expr)[:80]))
            for b in s.body:
                stmt(b)
            effs.append(('close',))
            return
        if isinstance(s, ast.Expr) and isinstance(s.value, ast.Call) and isinstance(s.value.func, ast.Attribute) \
                and s.value.func.attr == 'write' and len(s.value.args) == 1:
            a = s.value.args[0]
            if isinstance(a, ast.Constant) and isinstance(a.value, str):
                effs.append(('writeLit', a.value))
            elif isinstance(a, ast.Name) and a.id in content_vars:
                effs.append(('writeContent',))
            elif calls_to_string(a):
                effs.append(('writeCompute',))
            else:
                effs.append(('unknown', ast.dump(a)[:80]))
            return
        if isinstance(s, ast.Pass):
            return
        effs.append(('unknown', ast.dump(s)[:80]))

    for s in fn.body:
        stmt(s)
    return effs


def lazy_prog(fn, cell='_XSD_ATTRIBUTES'):
    """statements of a lazily filled class-level table"""
    prog = []
    local_lists = set()

    def is_cell(n):
        return isinstance(n, ast.Attribute) and n.attr == cell

    def walk_body(body, inside):
        for s in body:
            if isinstance(s, ast.If):
                t = s.test
                if isinstance(t, ast.Compare) and is_cell(t.left) and len(t.ops) == 1 and isinstance(t.ops[0], ast.Is) \
                        and isinstance(t.comparators[0], ast.Constant) and t.comparators[0].value is None:
                    prog.append(('ifNone',))
                    walk_body(s.body, True)
                    prog.append(('endIf',))
                    if s.orelse:
                        prog.append(('unknown', 'else branch of the None test'))
                else:
                    walk_body(s.body, inside)
                    walk_body(s.orelse, inside)
            elif isinstance(s, (ast.For, ast.While)):
                walk_body(s.body, inside)
                walk_body(s.orelse, inside)
            elif isinstance(s, ast.Assign):
                tg = s.targets[0]
                if is_cell(tg):
                    v = s.value
                    if isinstance(v, ast.List) and not v.elts:
                        prog.append(('publishEmpty',))
                    elif isinstance(v, ast.Name) and v.id in local_lists:
                        prog.append(('publishLocal',))
                    else:
                        prog.append(('unknown', 'assignment to the shared cell: ' + ast.dump(v)[:60]))
                elif isinstance(tg, ast.Name) and isinstance(s.value, ast.List) and not s.value.elts:
                    local_lists.add(tg.id)
                    prog.append(('newLocal',))
                else:
                    pass  # other local computations
            elif isinstance(s, ast.Expr) and isinstance(s.value, ast.Call) and isinstance(s.value.func, ast.Attribute) \
                    and s.value.func.attr in ('append', 'extend'):
                obj = s.value.func.value
                if is_cell(obj):
                    prog.append(('appendShared',))
                elif isinstance(obj, ast.Name) and obj.id in local_lists:
                    prog.append(('appendLocal',))
                else:
                    prog.append(('unknown', 'append to ' + ast.dump(obj)[:60]))
            elif isinstance(s, ast.Return):
                if is_cell(s.value):
                    prog.append(('retShared',))
                else:
                    prog.append(('unknown', 'return ' + (ast.dump(s.value)[:60] if s.value else 'None')))
            elif isinstance(s, ast.Expr) and isinstance(s.value, ast.Constant):
                pass
            else:
                pass
    walk_body(fn.body, False)
    return prog


def class_level_writes(repo):
    """assignments to class attributes through `cls.` / `ClassName.` inside functions of the runtime
    modules (candidates for shared lazily initialised state)"""
    out = []
    for rel in RUNTIME:
        tree = ast.parse(src(repo, rel))
        for fn in ast.walk(tree):
            if isinstance(fn, (ast.FunctionDef,)):
                for n in ast.walk(fn):
                    if isinstance(n, (ast.Assign, ast.AugAssign)):
                        tgs = n.targets if isinstance(n, ast.Assign) else [n.target]
                        for t in tgs:
                            if isinstance(t, ast.Attribute) and isinstance(t.value, ast.Name) and t.value.id == 'cls':
                                out.append((rel, n.lineno, fn.name, t.attr))
                            # self.__class__.X = ... / type(self).X = ... / SomeClass.X = ...
                            if isinstance(t, ast.Attribute):
                                v = t.value
                                via_class = (isinstance(v, ast.Attribute) and v.attr == '__class__') or (
                                    isinstance(v, ast.Call) and isinstance(v.func, ast.Name) and v.func.id == 'type') or (
                                    isinstance(v, ast.Name) and v.id[:1].isupper() and v.id not in ('ET',))
                                if via_class:
                                    out.append((rel, n.lineno, fn.name, t.attr))
                            if isinstance(t, ast.Subscript) and isinstance(t.value, ast.Attribute) and \
                                    isinstance(t.value.value, ast.Name) and t.value.value.id in ('cls',):
                                out.append((rel, n.lineno, fn.name, t.value.attr + '[]'))
    return out


def class_mutables(repo):
    """class-body attributes initialised with a mutable container (candidates for state shared by all
    instances / all threads), outside the generated element/type classes' docstring-only bodies"""
    out = []
    for rel in RUNTIME:
        tree = ast.parse(src(repo, rel))
        for c in ast.walk(tree):
            if isinstance(c, ast.ClassDef):
                for st in c.body:
                    tgt = None
                    val = None
                    if isinstance(st, ast.Assign) and len(st.targets) == 1 and isinstance(st.targets[0], ast.Name):
                        tgt, val = st.targets[0].id, st.value
                    elif isinstance(st, ast.AnnAssign) and isinstance(st.target, ast.Name) and st.value is not None:
                        tgt, val = st.target.id, st.value
                    if tgt is None:
                        continue
                    mutable = isinstance(val, (ast.Dict, ast.List, ast.Set, ast.ListComp, ast.DictComp, ast.SetComp)) or (
                        isinstance(val, ast.Call) and isinstance(val.func, ast.Name) and val.func.id in (
                            'dict', 'list', 'set', 'defaultdict', 'OrderedDict', 'WeakValueDictionary'))
                    if mutable:
                        out.append((rel, c.name, tgt))
    return out


RUNTIME = ['musicxml/xmlelement/xmlelement.py', 'musicxml/xmlelement/xmlchildcontainer.py', 'musicxml/xmlelement/containers.py',
           'musicxml/xsd/xsdcomplextype.py', 'musicxml/xsd/xsdattribute.py', 'musicxml/xsd/xsdsimpletype.py',
           'musicxml/xsd/xsdtree.py', 'musicxml/xsd/xsdindicator.py', 'musicxml/xsd/xsdelement.py',
           'musicxml/parser/parser.py', 'musicxml/util/core.py', 'musicxml/generate_classes/utils.py']


def open_sites(repo):
    sites = []
    for rel in RUNTIME:
        tree = ast.parse(src(repo, rel))
        for n in ast.walk(tree):
            if is_open_call(n):
                mode, enc = open_info(n)
                sites.append({'file': rel, 'line': n.lineno, 'mode': mode, 'encoding': enc})
            if isinstance(n, ast.Call) and isinstance(n.func, ast.Attribute) and n.func.attr in ('read_text', 'write_text'):
                enc = None
                for kw in n.keywords:
                    if kw.arg == 'encoding':
                        enc = kw.value.value if isinstance(kw.value, ast.Constant) else '?'
                sites.append({'file': rel, 'line': n.lineno, 'mode': 'r' if n.func.attr == 'read_text' else 'w', 'encoding': enc})
    return sites


def lean_str(s):
    return '"' + s.replace('\\', '\\\\').replace('"', '\\"').replace('\n', '\\n') + '"'


def main(repo, out_json, out_lean):
    xe = ast.parse(src(repo, 'musicxml/xmlelement/xmlelement.py'))
    wfn = find_func(xe, 'XMLScorePartwise', 'write')
    wp = write_prog(wfn) if wfn else [('unknown', 'write not found')]
    ct = ast.parse(src(repo, 'musicxml/xsd/xsdcomplextype.py'))
    at = ast.parse(src(repo, 'musicxml/xsd/xsdattribute.py'))
    lp1 = lazy_prog(find_func(ct, 'XSDComplexType', 'get_xsd_attributes'))
    lp2 = lazy_prog(find_func(at, 'XSDAttributeGroup', 'get_xsd_attributes'))
    sites = open_sites(repo)
    clsw = class_level_writes(repo)
    cmut = class_mutables(repo)
    data = {'write_prog': wp, 'lazy_complex': lp1, 'lazy_group': lp2, 'open_sites': sites, 'class_level_writes': clsw, 'class_mutables': cmut}
    json.dump(data, open(out_json, 'w'), indent=1)

    def eff(e):
        k = e[0]
        if k == 'compute':
            return '.compute'
        if k == 'openTrunc':
            return '.openTrunc %s %s' % ('true' if e[1] else 'false', 'none' if e[2] is None else '(some %s)' % lean_str(str(e[2])))
        if k == 'writeLit':
            return '.writeLit %s' % lean_str(e[1])
        if k == 'writeContent':
            return '.writeContent'
        if k == 'writeCompute':
            return '.writeCompute'
        if k == 'close':
            return '.close'
        return '.unknown'

    def lz(e):
        return {'ifNone': '.ifNone', 'endIf': '.endIf', 'publishEmpty': '.publishEmpty', 'publishLocal': '.publishLocal',
                'newLocal': '.newLocal', 'appendShared': '.appendShared', 'appendLocal': '.appendLocal',
                'retShared': '.retShared'}.get(e[0], '.unknown')

    known_cells = {'_XSD_ATTRIBUTES', 'XSD_TREE', '_XSD_TREE'}
    L = ['import MxV.Model.Shapes', '/-! GENERATED by extract/shapes.py from the AST of /repo. -/', 'namespace Gen', 'open Shapes',
         'def writeProg : List Eff := [' + ', '.join(eff(e) for e in wp) + ']',
         'def lazyComplex : List LStmt := [' + ', '.join(lz(e) for e in lp1) + ']',
         'def lazyGroup : List LStmt := [' + ', '.join(lz(e) for e in lp2) + ']',
         'def openSites : List OpenSite := [' + ', '.join(
             '⟨%s, %d, %s, %s⟩' % (lean_str(s['file']), s['line'], 'true' if 'b' in s['mode'] else 'false',
                                   'none' if s['encoding'] is None else '(some %s)' % lean_str(str(s['encoding'])))
             for s in sites) + ']',
         '/-- class-level cells written after import (file, line, function, attribute) -/',
         'def classCells : List (String × Nat × String × String) := [' + ', '.join(
             '(%s, %d, %s, %s)' % (lean_str(a), b, lean_str(c), lean_str(d)) for a, b, c, d in clsw) + ']',
         '/-- class-body attributes initialised with a mutable container (file, class, attribute) -/',
         'def classMutables : List (String × String × String) := [' + ', '.join(
             '(%s, %s, %s)' % (lean_str(a), lean_str(b), lean_str(c)) for a, b, c in cmut) + ']',
         'end Gen', '']
    text = '\n'.join(L)
    try:
        if open(out_lean).read() == text:
            print('shapes: unchanged')
            return
    except FileNotFoundError:
        pass
    open(out_lean, 'w').write(text)
    print('shapes: regenerated')


if __name__ == '__main__':
    main(*sys.argv[1:4])
